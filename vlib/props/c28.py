"""C28 — every built-in finding id is discoverable through --errorlist.   (translator-tied property)

Pipeline (all of it re-run on /repo's current working tree on every check):

  text layer   tolerant C++ scanner over lib/ cli/ frontend/ (*.cpp, *.h): comments / inactive #if blocks removed, function
               definitions segmented, every *candidate token* of an emission (reportError( reportErr( ErrorMessage InternalError(
               .id =) located with its enclosing function.
  AST layer    clang++-14 JSON AST (-ast-dump-filter=<class or function>) of every top-level name that contains a candidate or a
               getErrorMessages; per function: calls (resolved callee, argument values), ErrorMessage / InternalError
               constructions, assignments to ErrorMessage::id.  Argument values are computed by a small abstract interpreter
               over the function body (sets of strings built from literals, ?:, +, += under if/else, c_str(), parameters).
               Results cached by content hash under /verif/.build/cache/c28/.
  cross-check  every candidate token inside a function body must be explained by an AST event on the same line
               (fail closed: otherwise the site is an undischarged obligation listed by file:line).
  resolution   fixpoint over wrappers (a function passing its parameter on as the id), return-value summaries
               (Check::getMessageId), the InternalError::Type -> id switch, a closed table of known dynamic id rules.
  tables       lean/Cppcheck/Gen/ErrorIds.lean: emitters, call edges, roots, errorlist ids of the BUILT binary, dynamic rules.
  theorems     Cppcheck/Props/C28.lean, by `decide` over the whole generated table + generic lifting lemmas.
  correspondence  the built cppcheck is run over corpora / generated snippets with several option sets; every reported id must
               be in the emitter table (else the translator missed a site) and P_impl: in --errorlist or exempt.
"""
import glob, hashlib, json, os, re, subprocess, sys, time, concurrent.futures
import xml.etree.ElementTree as ET

from .. import core, build_repo

ID = "C28"
LEVEL = "other"
RULE = ("cases = (input program, option set) pairs run through the built cppcheck (--enable=all --inconclusive, --xml); inputs: "
        "corpus/C28 witnesses (positive and negative), /repo/samples, /repo/test/cfg, code literals mined from /repo/test/test*.cpp "
        "(all 11k in the thorough tier), generated snippets; a case is non-trivial when it reports at least one finding id other "
        "than the always-present information ids; distinct = distinct (file content, options)")
EXPLANATION = ("PARTIAL. Proved (Lean, kernel decision over the whole table extracted from the current source, re-proved on every run): "
               "every row of the emitter table has an id that the built binary's --errorlist prints, or is exempt for a stated reason, "
               "or is one of the listed known-unlisted ids (the full statement is refuted: counterexample theorem, 24 ids with witness "
               "programs); every emitting function is reached from CppCheck::getErrorMessages in the extracted (static, over-approximating) "
               "call graph or its id is emitted by one that is; every printed id is explained by a reached emitter. NOT proved: that every "
               "id cppcheck can report for some input is a row of the table - that is the translator's completeness (text scanner x clang "
               "AST, abstract string evaluator, closed table of dynamic rules), an assumption validated only by: the two extractions "
               "agreeing (fail closed), errorlist_explained, every id the test-suite expects being in the table, and every id observed in "
               "real runs being in the table. Narrowings of the sentence: debug/internal severities are exempt although --debug-warnings "
               "shows debug ids; ids emitted only by cli/ (unmatchedSuppression, checkersReport, cppcheckError) are outside; 5 ids the "
               "string evaluator over-approximates are excluded as infeasible, each guarded by a structural check of the code shape and "
               "a negative witness. Outside: addon / clang-tidy / rule-file / library-configuration ids (exempt by the property), gui/, "
               "tools/, htmlreport/.")
ASSUMPTIONS = ["translator completeness: every id that an execution of the built binary can put into a reported ErrorMessage is the id of a row of "
               "Gen.ErrorIds.emitters or matches one of the 7 dynamic rule kinds (not a theorem; validated by cross-extraction, "
               "errorlist_explained, the test-suite id probe and observed ids)",
               "clang++-14's AST of the -D configuration of the build equals what g++ compiled",
               "the 5 infeasibleIds are never emitted (structural guards + negative witnesses, no proof)"]
THEOREMS = ["Cppcheck.ErrorIds.ids_subset_partial", "Cppcheck.ErrorIds.ids_subset_counterexample",
            "Cppcheck.ErrorIds.emitters_listed_partial", "Cppcheck.ErrorIds.errorlist_explained",
            "Cppcheck.ErrorIds.reached_eq", "Cppcheck.ErrorIds.reach_sound", "Cppcheck.ErrorIds.dynamic_rules_exempt"]
MODULES = ["Cppcheck.Props.C28"]

REPO = core.REPO
CACHE = os.path.join(core.VERIF, ".build", "cache", "c28")
BUILD_DEFINES = ["DANMAR_CPPCHECK_VERIF", "HAVE_BOOST", "HAVE_EXECINFO_H=1", "NDEBUG"]


def clang_cmd():
    return ["clang++-14", "-std=gnu++17", "-fsyntax-only", "-w"] + ["-D" + d for d in BUILD_DEFINES] + \
        ["-I%s/%s" % (REPO, d) for d in ("lib", "cli", "frontend", "externals", "externals/simplecpp", "externals/tinyxml2", "externals/picojson")] + \
        ["-Xclang", "-ast-dump=json"]


# macros decided for the text layer (same configuration as the build / the clang run)
PP_DEFINED = {"DANMAR_CPPCHECK_VERIF", "HAVE_BOOST", "HAVE_EXECINFO_H", "NDEBUG", "__GNUC__", "__linux__", "__cplusplus", "__unix__"}
PP_UNDEFINED = {"CHECK_INTERNAL", "_WIN32", "_WIN64", "_MSC_VER", "__CYGWIN__", "__MINGW32__", "__MINGW64__", "HAVE_RULES", "__APPLE__",
                "__clang_analyzer__", "__CPPCHECK__", "__BORLANDC__", "__SVR4", "__sun", "__OpenBSD__", "__FreeBSD__", "__NetBSD__", "__HAIKU__",
                "__DragonFly__", "_AIX", "DISALLOW_THREAD_EXECUTOR", "DISALLOW_PROCESS_EXECUTOR", "USE_WINDOWS_SEH", "NO_UNIX_SIGNAL_HANDLING",
                "NO_UNIX_BACKTRACE_SUPPORT", "NO_WINDOWS_SEH", "USE_QT", "QT_VERSION", "THREADING_MODEL_WIN", "__sparc__"}


def source_files():
    fs = []
    for d in ("lib", "cli", "frontend"):
        fs += glob.glob(os.path.join(REPO, d, "*.cpp")) + glob.glob(os.path.join(REPO, d, "*.h"))
    return sorted(fs)


# =================================================================================================================
# text layer
# =================================================================================================================

def pp_eval(cond):
    """value of a preprocessor condition when it only mentions decided macros: True / False / None (unknown)"""
    c = cond.strip()
    c = re.sub(r"/\*.*?\*/", " ", c)
    c = re.sub(r"//.*$", "", c).strip()
    toks = re.findall(r"defined\s*\(\s*\w+\s*\)|defined\s+\w+|\w+|&&|\|\||!|\(|\)|[<>=!]=?|\S", c)
    out = []
    for t in toks:
        m = re.match(r"defined\s*\(?\s*(\w+)\s*\)?$", t)
        if m:
            n = m.group(1)
            if n in PP_DEFINED:
                out.append("True")
            elif n in PP_UNDEFINED:
                out.append("False")
            else:
                return None
        elif t == "&&":
            out.append(" and ")
        elif t == "||":
            out.append(" or ")
        elif t == "!":
            out.append(" not ")
        elif t in ("(", ")"):
            out.append(t)
        elif re.fullmatch(r"\d+", t):
            out.append("bool(%s)" % t)
        else:
            return None
    try:
        return bool(eval("".join(out), {"__builtins__": {}}, {"bool": bool}))
    except Exception:
        return None


def lex(src):
    """(code, full): both as long as src. comments, preprocessor lines and *decidedly inactive* conditional blocks blanked in both;
    contents of string / char literals replaced by 'x' in `code` only."""
    n = len(src)
    code, full = [], []
    i = 0
    bol = True
    # conditional stack: entries [active_now, any_branch_taken, parent_active, unknown]
    stack = []

    def active():
        return all(e[0] for e in stack)

    def emit(seg, blank_code=None):
        if active():
            code.append(seg if blank_code is None else blank_code)
            full.append(seg)
        else:
            b = re.sub(r"[^\n]", " ", seg)
            code.append(b); full.append(b)

    while i < n:
        c = src[i]
        if bol and c in " \t":
            emit(c); i += 1
            continue
        if bol and c == "#":
            j = i
            while True:
                k = src.find("\n", j)
                if k < 0:
                    k = n
                    break
                if k > 0 and src[k - 1] == "\\":
                    j = k + 1
                    continue
                break
            seg = src[i:k]
            d = re.match(r"#\s*(\w+)\s*(.*)$", seg.replace("\\\n", " "), re.S)
            if d:
                kw, rest = d.group(1), d.group(2)
                if kw in ("if", "ifdef", "ifndef"):
                    if kw == "ifdef":
                        v = pp_eval("defined(%s)" % rest.split()[0]) if rest.split() else None
                    elif kw == "ifndef":
                        v = pp_eval("!defined(%s)" % rest.split()[0]) if rest.split() else None
                    else:
                        v = pp_eval(rest)
                    if v is None:
                        stack.append([True, True, True, True])      # unknown: keep every branch
                    else:
                        stack.append([v, v, True, False])
                elif kw == "elif" and stack:
                    e = stack[-1]
                    if not e[3]:
                        v = pp_eval(rest)
                        if v is None:
                            e[3] = True; e[0] = True
                        elif e[1]:
                            e[0] = False
                        else:
                            e[0] = v; e[1] = v
                elif kw == "else" and stack:
                    e = stack[-1]
                    if not e[3]:
                        e[0] = not e[1]; e[1] = True
                elif kw == "endif" and stack:
                    stack.pop()
            b = re.sub(r"[^\n]", " ", seg)
            code.append(b); full.append(b)
            i = k
            continue
        if c == "\n":
            bol = True
            code.append(c); full.append(c); i += 1
            continue
        bol = False
        if src.startswith("//", i):
            k = src.find("\n", i)
            k = n if k < 0 else k
            code.append(" " * (k - i)); full.append(" " * (k - i)); i = k
            continue
        if src.startswith("/*", i):
            k = src.find("*/", i + 2)
            k = n if k < 0 else k + 2
            b = re.sub(r"[^\n]", " ", src[i:k])
            code.append(b); full.append(b); i = k
            continue
        if c == '"':
            m = re.search(r"(?:u8|u|U|L)?R$", src[max(0, i - 3):i])
            if m and (i - len(m.group(0)) == 0 or not (src[i - len(m.group(0)) - 1].isalnum() or src[i - len(m.group(0)) - 1] == "_")):
                d = src.find("(", i)
                delim = src[i + 1:d]
                k = src.find(")" + delim + '"', d)
                k = n if k < 0 else k + len(delim) + 2
                seg = src[i:k]
                emit(seg, '"' + re.sub(r"[^\n]", "x", seg[1:-1]) + '"'); i = k
                continue
            k = i + 1
            while k < n and src[k] != '"':
                k += 2 if src[k] == "\\" else 1
            seg = src[i:k + 1]
            emit(seg, '"' + "x" * (len(seg) - 2) + '"'); i = k + 1
            continue
        if c == "'":
            if i > 0 and src[i - 1].isalnum() and i + 1 < n and src[i + 1].isalnum() and re.search(r"\b\d[\da-fA-F']*$", src[max(0, i - 24):i]):
                emit(c); i += 1
                continue
            k = i + 1
            while k < n and src[k] != "'":
                k += 2 if src[k] == "\\" else 1
            seg = src[i:k + 1]
            emit(seg, "'" + "x" * (len(seg) - 2) + "'"); i = k + 1
            continue
        emit(c); i += 1
    return "".join(code), "".join(full)


def match_close(code, i):
    depth = 0
    n = len(code)
    j = i
    while j < n:
        c = code[j]
        if c in "([{":
            depth += 1
        elif c in ")]}":
            depth -= 1
            if depth == 0:
                return j
        j += 1
    return -1


NAME_RE = re.compile(r"((?:[A-Za-z_]\w*\s*(?:<[^<>()]*>)?\s*::\s*)*(?:~?[A-Za-z_]\w*|operator\s*(?:\(\s*\)|\[\s*\]|[^\s\w(]+|\s+\w+)))\s*(?:<[^()]*>)?\s*$")


def strip_template(h):
    while True:
        m = re.match(r"^template\s*<", h)
        if not m:
            return h
        d = 0
        k = m.end() - 1
        while k < len(h):
            ch = h[k]
            if ch in "<(":
                d += 1
            elif ch in ">)":
                d -= 1
                if d == 0:
                    break
            k += 1
        h = h[k + 1:].lstrip()


def top_level_paren(hdr):
    i = 0
    first = None
    while i < len(hdr):
        if hdr[i] == "(":
            j = match_close(hdr, i)
            if j < 0:
                return first
            if first is None:
                first = (i, j)
            if NAME_RE.search(hdr[:i]) and not re.search(r"(?:sizeof|decltype|noexcept|alignas|__attribute__)\s*(?:\.\.\.)?\s*$", hdr[:i]):
                return i, j
            i = j
        i += 1
    return first


class TFn:
    """a function definition found by the text layer"""
    __slots__ = ("file", "cls", "name", "qual", "body_start", "body_end", "line", "kind")


def segment(path, code):
    fns, problems = [], []
    n = len(code)
    stack = []
    i = 0
    hdr_start = 0
    base = os.path.basename(path)

    def curcls():
        return "::".join(nm for (k, nm) in stack if k == "cls")

    def curns():
        return "::".join(nm for (k, nm) in stack if k == "ns" and nm)

    while i < n:
        c = code[i]
        if c == ";":
            hdr_start = i + 1
        elif c == "}":
            if not stack:
                problems.append("unbalanced } at line %d" % (code.count("\n", 0, i) + 1))
            else:
                stack.pop()
            hdr_start = i + 1
        elif c == "(" or c == "[":
            j = match_close(code, i)
            if j < 0:
                problems.append("unbalanced %s at line %d" % (c, code.count("\n", 0, i) + 1))
                break
            i = j
        elif c == "{":
            hdr = code[hdr_start:i]
            h = hdr.strip()
            h = re.sub(r"^(?:(?:public|private|protected)\s*:\s*)+", "", h)
            h = strip_template(h)
            j = match_close(code, i)
            if j < 0:
                problems.append("unbalanced { at line %d" % (code.count("\n", 0, i) + 1))
                break
            if re.match(r"^(?:inline\s+)?namespace\b", h) or re.match(r'^extern\s*"x*"\s*$', h):
                m = re.match(r"^(?:inline\s+)?namespace\s+([\w:]+)", h)
                stack.append(("ns", m.group(1) if m else ""))
                hdr_start = i + 1
            elif re.match(r"^(?:typedef\s+)?(?:class|struct|union)\b", h) and top_level_paren(re.sub(r"<[^<>]*>", "", h)) is None:
                hh = re.sub(r"^(?:typedef\s+)?(?:class|struct|union)\s*", "", h)
                hh = re.sub(r"\[\[.*?\]\]", " ", hh)
                head = re.split(r"(?<!:):(?!:)", hh)[0]
                ids = [t for t in re.findall(r"[A-Za-z_][\w:]*", head) if t not in ("final", "CPPCHECKLIB", "alignas")]
                stack.append(("cls", ids[-1] if ids else "<anon>"))
                hdr_start = i + 1
            elif re.match(r"^(?:typedef\s+)?enum\b", h):
                i = j
            else:
                tp = top_level_paren(h)
                eqpos = -1
                d = 0
                for k, ch in enumerate(h):
                    if ch in "(<[":
                        d += 1
                    elif ch in ")>]":
                        d -= 1
                    elif ch == "=" and d == 0 and not (k + 1 < len(h) and h[k + 1] == "=") and not (k > 0 and h[k - 1] in "=!<>+-*/%&|^"):
                        if not re.search(r"operator\s*$", h[:k]):
                            eqpos = k
                            break
                f = TFn()
                f.file = path
                f.body_start = i; f.body_end = j
                if tp is None or (eqpos >= 0 and eqpos < tp[0]):
                    f.kind = "init"
                    lhs = h[:eqpos] if eqpos >= 0 else h
                    m = re.search(r"([A-Za-z_]\w*)\s*(?:\[[^\]]*\]\s*)*$", lhs)
                    f.cls = curcls(); f.name = m.group(1) if m else "<init>"
                    f.qual = (f.cls + "::" if f.cls else base + ":") + f.name
                    f.line = code.count("\n", 0, i) + 1
                    fns.append(f)
                    i = j
                else:
                    p0, p1 = tp
                    after = h[p1 + 1:]
                    if re.match(r"^\s*(?:noexcept\s*)?:(?!:)", after):
                        prev = h.rstrip()[-1:]
                        if prev and (prev.isalnum() or prev in "_>"):
                            i = j + 1
                            continue
                    m = NAME_RE.search(h[:p0])
                    if not m:
                        problems.append("cannot find a function name in header %r at line %d" % (h[:100], code.count("\n", 0, i) + 1))
                        hdr_start = j + 1
                        i = j + 1
                        continue
                    q = re.sub(r"\s+", "", re.sub(r"<[^<>()]*>", "", m.group(1)))
                    f.kind = "fn"
                    parts = q.split("::")
                    if len(parts) > 1 and not parts[-1].startswith("operator"):
                        f.cls = "::".join(([curcls()] if curcls() else []) + parts[:-1]); f.name = parts[-1]
                    else:
                        f.cls = curcls(); f.name = q
                    f.qual = (f.cls + "::" + f.name) if f.cls else (base + ":" + f.name)
                    f.line = code.count("\n", 0, hdr_start + (len(hdr) - len(hdr.lstrip()))) + 1
                    fns.append(f)
                    i = j
                    hdr_start = j + 1
        i += 1
    if stack:
        problems.append("%d scopes still open at end of file" % len(stack))
    return fns, problems


CAND = re.compile(r"\breportError\s*\(|\breportErr\s*\(|\bErrorMessage\b|\bInternalError\s*[({]|(?:\.|->)\s*id\s*=(?!=)|\bemplace(?:_back|_front)?\s*\(")


def text_scan(path):
    """candidates of one file: list of dict(line, kind, fn (TFn or None), text)"""
    src = open(path, encoding="utf-8", errors="replace").read()
    code, full = lex(src)
    fns, problems = segment(path, code)
    cands = []
    starts = sorted(fns, key=lambda f: f.body_start)
    for m in CAND.finditer(code):
        off = m.start()
        enc = None
        for f in starts:
            if f.body_start <= off <= f.body_end:
                if enc is None or f.body_start >= enc.body_start:
                    enc = f
        ls = code.rfind("\n", 0, off) + 1
        le = code.find("\n", off)
        tok = m.group(0)
        if tok.startswith("reportErr") and not tok.startswith("reportError"):
            a = text_args(code, full, m.end() - 1)
            if a is not None and len(a) == 1 and a[0].lstrip().startswith("{"):
                tok = "ErrorMessage-brace"      # reportErr({callstack, ..., "id", ...}): implicit construction from a braced list
            elif a is not None and len(a) <= 1:
                continue            # ErrorLogger::reportErr(msg): hands an existing message on, no id argument
        if tok.startswith("emplace"):
            a = text_args(code, full, m.end() - 1)
            if a is None or len(a) < 5 or not any(re.match(r"^\s*Severity::\w+\s*$", x) or x.strip() == "severity" for x in a):
                continue            # only in-place constructions that look like ErrorMessage(..., Severity, ...)
        if tok.startswith("ErrorMessage") and re.search(r"\w\s*::\s*$", code[max(0, off - 40):off]):
            continue                # SuppressionList::ErrorMessage and other nested names
        kind = "emplace" if tok == "ErrorMessage-brace" else "reportError" if tok.startswith("reportError") else "reportErr" if tok.startswith("reportErr") else \
            "InternalError" if tok.startswith("InternalError") else "ErrorMessage" if tok.startswith("ErrorMessage") else \
            "emplace" if tok.startswith("emplace") else "idassign"
        cands.append(dict(off=off, line=code.count("\n", 0, off) + 1, kind=kind, fn=enc, text=full[ls:le].strip(), after=code[m.end():m.end() + 120]))
    return dict(path=path, src=src, code=code, full=full, fns=fns, problems=problems, cands=cands)


# =================================================================================================================
# AST layer
# =================================================================================================================
FUNC_KINDS = ("FunctionDecl", "CXXMethodDecl", "CXXConstructorDecl", "CXXDestructorDecl", "CXXConversionDecl")
WRAP = ("ImplicitCastExpr", "MaterializeTemporaryExpr", "CXXBindTemporaryExpr", "ExprWithCleanups", "ParenExpr", "ConstantExpr")
LOOPISH = ("ForStmt", "WhileStmt", "DoStmt", "CXXForRangeStmt")
WEAKISH = ("SwitchStmt", "CXXTryStmt", "CXXCatchStmt", "CaseStmt", "DefaultStmt", "LabelStmt", "AttributedStmt")
MAX_ALT = 48


def U(reason):
    return frozenset([(("U", reason),)])


def lit(s):
    return frozenset([(s,)]) if s != "" else frozenset([()])


def norm_alt(parts):
    out = []
    for p in parts:
        if isinstance(p, str):
            if p == "":
                continue
            if out and isinstance(out[-1], str):
                out[-1] = out[-1] + p
            else:
                out.append(p)
        else:
            out.append(p)
    return tuple(out)


def concat(a, b):
    r = set()
    for x in a:
        for y in b:
            r.add(norm_alt(x + y))
            if len(r) > MAX_ALT:
                return U("too many alternatives")
    return frozenset(r)


def union(a, b):
    r = a | b
    if len(r) > MAX_ALT:
        return U("too many alternatives")
    return r


def cap_value(v):
    r = set()
    for alt in v:
        if not alt:
            r.add(alt)
        elif isinstance(alt[0], str):
            r.add((alt[0][:1].upper() + alt[0][1:],) + alt[1:])
        else:
            r.add((("CAP", alt[0]),) + alt[1:])
    return frozenset(r)


def tyname(t):
    q = t.get("desugaredQualType") or t.get("qualType") or ""
    q = re.sub(r"\b(const|volatile|struct|class)\b", "", q)
    q = q.replace("*", "").replace("&", "").strip()
    q = re.sub(r"<.*>", "", q)
    return q.strip()


def stringlike(t):
    q = (t.get("desugaredQualType") or "") + " " + (t.get("qualType") or "")
    return bool(re.search(r"basic_string<char|basic_string_view<char|std::string\b|\bchar\s*(const\s*)?\*|\bchar\s*(const\s*)?\[|\bstring\b|\bstring_view\b", q))


def ast_objects(s):
    dec = json.JSONDecoder()
    i = 0
    n = len(s)
    while i < n:
        while i < n and s[i].isspace():
            i += 1
        if i >= n:
            break
        o, j = dec.raw_decode(s, i)
        yield o
        i = j


class LocState:
    """clang prints file / line only when they differ from the previously printed location: replay that in document order"""

    def __init__(self):
        self.file = None
        self.line = None

    def bare(self, d):
        if "file" in d:
            self.file = d["file"]
        if "line" in d:
            self.line = d["line"]
        if "offset" not in d:
            return None
        return (self.file, self.line, d["offset"], d.get("tokLen", 1))

    def loc(self, d):
        if not isinstance(d, dict):
            return None
        if "spellingLoc" in d or "expansionLoc" in d:
            r = None
            for k in d:                      # document order: spellingLoc, then expansionLoc
                if k in ("spellingLoc", "expansionLoc"):
                    v = self.bare(d[k])
                    if k == "expansionLoc":
                        r = v
            return r
        return self.bare(d)

    def annotate(self, x):
        if isinstance(x, dict):
            for k, v in list(x.items()):
                if k == "loc":
                    x["_l"] = self.loc(v)
                elif k == "range":
                    b = e = None
                    for kk, vv in v.items():
                        if kk == "begin":
                            b = self.loc(vv)
                        elif kk == "end":
                            e = self.loc(vv)
                    x["_b"], x["_e"] = b, e
                elif isinstance(v, (dict, list)) and not k.startswith("_"):
                    self.annotate(v)
        elif isinstance(x, list):
            for v in x:
                self.annotate(v)


def skipwrap(n):
    while n.get("kind") in WRAP and n.get("inner"):
        n = n["inner"][0]
    return n


def strip_expr(n):
    """skip wrappers that do not change a string value"""
    while True:
        k = n.get("kind")
        inner = n.get("inner", [])
        if k in WRAP and inner:
            n = inner[0]
            continue
        if k in ("CXXFunctionalCastExpr", "CXXStaticCastExpr") and inner and stringlike(n.get("type", {})):
            n = inner[-1]
            continue
        if k in ("CXXConstructExpr", "CXXTemporaryObjectExpr") and stringlike(n.get("type", {})):
            args = [a for a in inner if a.get("kind") != "CXXDefaultArgExpr"]
            if len(args) == 1 and (stringlike(skipwrap(args[0]).get("type", {})) or skipwrap(args[0]).get("kind") == "StringLiteral"):
                n = args[0]
                continue
        return n


class Extract:
    """one clang dump -> list of function records with events"""

    def __init__(self, texts):
        self.ls = LocState()
        self.texts = texts           # file path -> source text (for source ranges)
        self.funcs = []
        self.declname = {}
        self.declnparams = {}
        self.prev = {}
        self.ctxname = {}
        self.defloc = {}
        self.cur = None
        self.rets = None

    # -------- driver
    def run(self, objs):
        for o in objs:
            self.ls.annotate(o)
            self.decl(o, "")
        for f in self.funcs:
            for ev in f["events"]:
                if ev["k"] == "call" and ev.get("declid"):
                    q = self.resolve(ev["declid"])
                    if q:
                        ev["calleeq"] = q[0]
                        ev["calleen"] = q[1]
                    r = self.rootid(ev["declid"])
                    if r in self.defloc:
                        ev["calleedef"] = list(self.defloc[r])
                ev.pop("declid", None)
        return self.funcs

    def rootid(self, did):
        seen = set()
        while did in self.prev and did not in seen:
            seen.add(did)
            did = self.prev[did]
        return did

    def resolve(self, did):
        seen = set()
        while did and did not in seen:
            seen.add(did)
            if did in self.declname:
                return self.declname[did], self.declnparams.get(did)
            did = self.prev.get(did)
        return None

    def srctext(self, n):
        b, e = n.get("_b"), n.get("_e")
        if not b or not e or b[0] != e[0] or b[0] is None:
            return None
        t = self.texts.get(b[0])
        if t is None:
            p = b[0] if os.path.isabs(b[0]) else os.path.join(REPO, b[0])
            try:
                t = open(p, encoding="utf-8", errors="replace").read()
            except OSError:
                t = ""
            self.texts[b[0]] = t
        # offsets are byte offsets; sources are ASCII apart from a few comments, so decode per use
        if not t.isascii():
            bt = t.encode("utf-8")
            return bt[b[2]:e[2] + e[3]].decode("utf-8", "replace")
        return t[b[2]:e[2] + e[3]]

    # -------- declarations
    def decl(self, n, ctx):
        if not isinstance(n, dict):
            return
        k = n.get("kind")
        if k in ("NamespaceDecl", "CXXRecordDecl", "ClassTemplateDecl", "ClassTemplateSpecializationDecl", "LinkageSpecDecl"):
            nm = n.get("name", "")
            if k in ("ClassTemplateDecl", "LinkageSpecDecl"):
                q = ctx
            else:
                par = n.get("parentDeclContextId")
                base = self.ctxname.get(par, ctx) if par else ctx
                q = (base + "::" + nm) if base and nm else (nm or base)
                if "id" in n:
                    self.ctxname[n["id"]] = q
            for c in n.get("inner", []):
                self.decl(c, q)
            return
        if k == "FunctionTemplateDecl":
            for c in n.get("inner", []):
                if c.get("kind") in FUNC_KINDS:
                    self.decl(c, ctx)
                    break       # the pattern only, not the instantiations
            return
        if k in FUNC_KINDS:
            self.func(n, ctx)
            return

    def func(self, n, ctx):
        nm = n.get("name", "")
        par = n.get("parentDeclContextId")
        pctx = self.ctxname.get(par) if par else None
        base = pctx if pctx is not None else ctx
        q = (base + "::" + nm) if base else nm
        inner = n.get("inner", [])
        params = [c for c in inner if c.get("kind") == "ParmVarDecl"]
        if "id" in n:
            if "previousDecl" in n:
                self.prev[n["id"]] = n["previousDecl"]
                pq = self.resolve(n["previousDecl"])
                if pq:
                    q = pq[0]
            self.declname[n["id"]] = q
            self.declnparams[n["id"]] = len(params)
        body = [c for c in inner if c.get("kind") in ("CompoundStmt", "CXXTryStmt")]
        if not body or self.cur is not None:
            return
        l = n.get("_l") or n.get("_b")
        if "id" in n and l:
            self.defloc[self.rootid(n["id"])] = (l[0], l[1])
        f = dict(qual=q, name=nm, nparams=len(params), params=[p.get("name", "") for p in params], file=l[0] if l else None,
                 line=l[1] if l else None, events=[], rets=[], rtype=(n.get("type", {}).get("qualType", "").split("(")[0]).strip(),
                 implicit=bool(n.get("isImplicit")))
        e = n.get("_e")
        f["endline"] = e[1] if e else None
        self.cur = f
        self.seen_ev = set()
        self.cur_rets = []
        env = {}
        for i, p in enumerate(params):
            if "id" in p:
                env[p["id"]] = frozenset([(("P", i),)])
        # constructor initialisers / default args
        for c in inner:
            if c.get("kind") == "CXXCtorInitializer":
                for cc in c.get("inner", []):
                    self.expr(cc, env, True)
        for b in body:
            self.stmt(b, env, False)
        rv = frozenset()
        for r in self.cur_rets:
            rv = union(rv, r)
        f["rets"] = self.ser_val(rv)
        self.cur_rets = []
        self.cur = None
        self.funcs.append(f)

    # -------- statements (abstract interpretation of string variables)
    def stmt(self, n, env, weak):
        k = n.get("kind")
        inner = n.get("inner", [])
        if k == "CompoundStmt":
            for c in inner:
                self.stmt(c, env, weak)
        elif k == "IfStmt":
            nbr = 2 if n.get("hasElse") else 1
            for c in inner[:len(inner) - nbr]:
                self.stmt(c, env, weak)
            envs = []
            for c in inner[len(inner) - nbr:]:
                e2 = dict(env)
                self.stmt(c, e2, weak)
                envs.append(e2)
            if nbr == 1:
                envs.append(dict(env))
            for key in set().union(*[set(e.keys()) for e in envs]):
                vals = [e[key] for e in envs if key in e]
                v = vals[0]
                for w in vals[1:]:
                    v = union(v, w)
                env[key] = v
        elif k in LOOPISH:
            for _ in range(2):
                for c in inner:
                    self.stmt(c, env, True)
        elif k in WEAKISH:
            for c in inner:
                self.stmt(c, env, True)
        elif k == "DeclStmt":
            for c in inner:
                if c.get("kind") == "VarDecl":
                    init = [x for x in c.get("inner", []) if isinstance(x, dict) and "kind" in x and not x["kind"].endswith("Attr")]
                    for x in init:
                        self.expr(x, env, weak)
                    if stringlike(c.get("type", {})) and "id" in c:
                        if init:
                            v = self.val(init[-1], env)
                        else:
                            v = lit("") if "basic_string" in (c["type"].get("desugaredQualType") or c["type"].get("qualType") or "") or \
                                "std::string" in c["type"].get("qualType", "") else frozenset()
                        env[c["id"]] = union(env.get(c["id"], frozenset()), v) if weak else v
                elif c.get("kind") in ("CXXRecordDecl", "FunctionDecl"):
                    pass
        elif k == "ReturnStmt":
            for c in inner:
                self.expr(c, env, weak)
                if stringlike(skipwrap(c).get("type", {})) or stringlike(c.get("type", {})):
                    self.cur_rets.append(self.val(c, env))
        else:
            self.expr(n, env, weak)

    # -------- expressions: record events, apply assignments
    def expr(self, n, env, weak):
        if not isinstance(n, dict):
            return
        k = n.get("kind")
        inner = n.get("inner", [])
        if k == "LambdaExpr":
            body = [c for c in inner if c.get("kind") == "CompoundStmt"]
            for c in inner:
                if c.get("kind") not in ("CompoundStmt", "CXXRecordDecl"):
                    self.expr(c, env, weak)
            for b in body[-1:]:
                self.stmt(b, env, True)
            return
        if k in ("CompoundStmt", "IfStmt", "DeclStmt", "ReturnStmt") or k in LOOPISH or k in WEAKISH:
            self.stmt(n, env, weak)
            return
        if k == "ConditionalOperator" and len(inner) == 3:
            self.expr(inner[0], env, weak)
            self.expr(inner[1], env, True)
            self.expr(inner[2], env, True)
            return
        if k in ("CXXRecordDecl",) or k in FUNC_KINDS:
            return
        for c in inner:
            self.expr(c, env, weak)
        if self.cur is None:
            return
        b = n.get("_b")
        key = (k, b[2] if b else None, b[0] if b else None)
        if k in ("CallExpr", "CXXMemberCallExpr", "CXXOperatorCallExpr") and inner:
            cal = skipwrap(inner[0])
            args = inner[1:]
            name = None
            ev = dict(k="call", line=b[1] if b else None, file=b[0] if b else None)
            if cal.get("kind") == "MemberExpr":
                name = cal.get("name")
                ev["declid"] = cal.get("referencedMemberDecl")
                obj = cal.get("inner", [{}])[0] if cal.get("inner") else {}
                ev["objcls"] = tyname(obj.get("type", {})) if obj else None
            elif cal.get("kind") == "DeclRefExpr":
                rd = cal.get("referencedDecl", {})
                name = rd.get("name")
                ev["declid"] = rd.get("id")
                ev["objcls"] = None
            ev["name"] = name
            # assignments to tracked string variables
            if k == "CXXOperatorCallExpr" and name in ("operator=", "operator+=") and len(args) == 2:
                lhs = skipwrap(args[0])
                if lhs.get("kind") == "DeclRefExpr" and lhs.get("referencedDecl", {}).get("id") in env:
                    vid = lhs["referencedDecl"]["id"]
                    rv = self.val(args[1], env)
                    nv = rv if name == "operator=" else concat(env[vid], rv)
                    env[vid] = union(env[vid], nv) if weak else nv
                elif lhs.get("kind") == "MemberExpr" and lhs.get("name") == "id" and name == "operator=":
                    obj = lhs.get("inner", [{}])[0] if lhs.get("inner") else {}
                    if key not in self.seen_ev:
                        self.seen_ev.add(key)
                        self.cur["events"].append(dict(k="idassign", line=b[1] if b else None, file=b[0] if b else None,
                                                       objcls=tyname(obj.get("type", {})), args=[self.arg(args[1], env)]))
                return
            if k == "CXXOperatorCallExpr" or name is None:
                return
            if key in self.seen_ev:
                return
            self.seen_ev.add(key)
            ev["ctext"] = re.sub(r"\s+", "", self.srctext(cal) or "")
            ev["args"] = [self.arg(a, env) for a in args]
            self.cur["events"].append(ev)
            if cal.get("kind") == "MemberExpr" and name in ("emplace_back", "emplace_front", "emplace") and len(args) >= 5:
                obj = cal.get("inner", [{}])[0] if cal.get("inner") else {}
                ot = (obj.get("type", {}).get("desugaredQualType") or "") + " " + (obj.get("type", {}).get("qualType") or "")
                if re.search(r"<\s*ErrorMessage\s*[,>]", ot):
                    a1 = args[1]
                    t1 = (a1.get("type", {}).get("qualType") or "") + (skipwrap(a1).get("type", {}).get("qualType") or "")
                    ctor = "void (?, const TokenList *, Severity, id, msg)" if "TokenList" in t1 else \
                        "void (?, std::string, Severity, msg, id)" if (stringlike(a1.get("type", {})) or stringlike(strip_expr(a1).get("type", {})) or strip_expr(a1).get("kind") == "StringLiteral") else None
                    self.cur["events"].append(dict(k="em", line=b[1] if b else None, file=b[0] if b else None, ctor=ctor, inplace=True,
                                                   args=[self.arg(a, env) for a in args]))
        elif k in ("CXXConstructExpr", "CXXTemporaryObjectExpr"):
            t = tyname(n.get("type", {}))
            if t in ("ErrorMessage", "InternalError") and key not in self.seen_ev:
                self.seen_ev.add(key)
                self.cur["events"].append(dict(k="em" if t == "ErrorMessage" else "ie", line=b[1] if b else None, file=b[0] if b else None,
                                               ctor=n.get("ctorType", {}).get("qualType"), args=[self.arg(a, env) for a in inner]))
        elif k == "BinaryOperator" and n.get("opcode") == "=" and len(inner) == 2:
            lhs = skipwrap(inner[0])
            if lhs.get("kind") == "DeclRefExpr" and lhs.get("referencedDecl", {}).get("id") in env:
                vid = lhs["referencedDecl"]["id"]
                rv = self.val(inner[1], env)
                env[vid] = union(env[vid], rv) if weak else rv
            elif lhs.get("kind") == "MemberExpr" and lhs.get("name") == "id" and key not in self.seen_ev:
                obj = lhs.get("inner", [{}])[0] if lhs.get("inner") else {}
                self.seen_ev.add(key)
                self.cur["events"].append(dict(k="idassign", line=b[1] if b else None, file=b[0] if b else None,
                                               objcls=tyname(obj.get("type", {})), args=[self.arg(inner[1], env)]))
            elif lhs.get("kind") == "MemberExpr" and lhs.get("name") == "severity" and key not in self.seen_ev:
                obj = lhs.get("inner", [{}])[0] if lhs.get("inner") else {}
                self.seen_ev.add(key)
                self.cur["events"].append(dict(k="sevassign", line=b[1] if b else None, file=b[0] if b else None,
                                               objcls=tyname(obj.get("type", {})), args=[self.arg(inner[1], env)]))
        elif k == "CompoundAssignOperator" and len(inner) == 2:
            lhs = skipwrap(inner[0])
            if lhs.get("kind") == "DeclRefExpr" and lhs.get("referencedDecl", {}).get("id") in env:
                env[lhs["referencedDecl"]["id"]] = U("compound assignment to " + lhs["referencedDecl"].get("name", "?"))

    def arg(self, a, env):
        d = dict(text=(self.srctext(a) or "")[:200])
        if a.get("kind") == "CXXDefaultArgExpr":
            d["default"] = True
        s = strip_expr(a)
        t = a.get("type", {})
        if tyname(t) == "Severity" or tyname(s.get("type", {})) == "Severity":
            d["sev"] = self.ser_val(self.sevval(s, env))
        elif tyname(t).endswith("InternalError::Type") or tyname(s.get("type", {})).endswith("InternalError::Type"):
            d["enum"] = self.ser_val(self.sevval(s, env))
        elif stringlike(t) or stringlike(s.get("type", {})) or s.get("kind") == "StringLiteral":
            d["val"] = self.ser_val(self.val(a, env))
        return d

    def sevval(self, n, env):
        n = skipwrap(n)
        k = n.get("kind")
        if k == "DeclRefExpr":
            rd = n.get("referencedDecl", {})
            if rd.get("kind") == "EnumConstantDecl":
                return lit(rd.get("name", "?"))
            if rd.get("kind") == "ParmVarDecl":
                try:
                    return frozenset([(("P", self.cur["params"].index(rd.get("name"))),)])
                except ValueError:
                    pass
        if k == "ConditionalOperator" and len(n.get("inner", [])) == 3:
            return union(self.sevval(n["inner"][1], env), self.sevval(n["inner"][2], env))
        return lit("?")

    # -------- abstract string value of an expression
    def flatten_plus(self, n):
        s = strip_expr(n)
        if s.get("kind") == "CXXOperatorCallExpr" and len(s.get("inner", [])) == 3:
            cal = skipwrap(s["inner"][0])
            if cal.get("kind") == "DeclRefExpr" and cal.get("referencedDecl", {}).get("name") == "operator+":
                return self.flatten_plus(s["inner"][1]) + self.flatten_plus(s["inner"][2])
        return [n]

    def find_ref(self, n, name):
        if isinstance(n, dict):
            if n.get("kind") == "DeclRefExpr" and n.get("referencedDecl", {}).get("name") == name:
                return n
            for c in n.get("inner", []):
                r = self.find_ref(c, name)
                if r is not None:
                    return r
        return None

    def val(self, n, env):
        s = strip_expr(n)
        k = s.get("kind")
        inner = s.get("inner", [])
        if k == "StringLiteral":
            v = s.get("value", "")
            try:
                return lit(json.loads(v)) if v.startswith('"') else U("string literal with prefix")
            except ValueError:
                return U("string literal")
        if k == "ConditionalOperator" and len(inner) == 3:
            return union(self.val(inner[1], env), self.val(inner[2], env))
        if k in ("CXXNullPtrLiteralExpr", "GNUNullExpr"):
            return frozenset()          # a null pointer is not a string: no id can come from it
        if k == "DeclRefExpr":
            rd = s.get("referencedDecl", {})
            if rd.get("id") in env:
                return env[rd["id"]]
            return U("variable " + rd.get("name", "?"))
        if k == "CXXMemberCallExpr" and inner:
            cal = skipwrap(inner[0])
            if cal.get("kind") == "MemberExpr" and cal.get("name") in ("c_str", "data", "str") and cal.get("inner") and len(inner) == 1:
                obj = cal["inner"][0]
                if stringlike(skipwrap(obj).get("type", {})):
                    return self.val(obj, env)
            return U("call " + (self.srctext(s) or "?")[:80])
        if k == "CXXOperatorCallExpr":
            ops = self.flatten_plus(s)
            if len(ops) >= 2:
                vals = []
                i = 0
                while i < len(ops):
                    t0 = re.sub(r"\s+", "", self.srctext(ops[i]) or "")
                    m0 = re.match(r"^(?:char|static_cast<char>)\(std::toupper\((\w+)\[0\]\)\)$", t0)
                    if m0 and i + 1 < len(ops):
                        t1 = re.sub(r"\s+", "", self.srctext(ops[i + 1]) or "")
                        m1 = re.match(r"^\(?(\w+)\+1\)?$", t1) or re.match(r"^(\w+)\.substr\(1\)$", t1)
                        if m1 and m1.group(1) == m0.group(1):
                            ref = self.find_ref(ops[i + 1], m0.group(1))
                            vals.append(cap_value(self.val(ref, env)) if ref is not None else U("capitalise"))
                            i += 2
                            continue
                    vals.append(self.val(ops[i], env))
                    i += 1
                v = vals[0]
                for w in vals[1:]:
                    v = concat(v, w)
                return v
            return U("operator " + (self.srctext(s) or "?")[:80])
        if k == "CallExpr" and inner:
            cal = skipwrap(inner[0])
            if cal.get("kind") == "DeclRefExpr":
                rd = cal.get("referencedDecl", {})
                if rd.get("name") in ("move", "forward") and len(inner) == 2:
                    return self.val(inner[1], env)
                q = self.resolve(rd.get("id"))
                name = q[0] if q else re.sub(r"\s+", "", self.srctext(cal) or rd.get("name", "?"))
                args = tuple(self.val(a, env) if (stringlike(a.get("type", {})) or stringlike(strip_expr(a).get("type", {})) or
                                                   strip_expr(a).get("kind") == "StringLiteral") else frozenset() for a in inner[1:])
                return frozenset([(("CALL", name, rd.get("name"), args),)])
            return U("call " + (self.srctext(s) or "?")[:80])
        if k == "MemberExpr":
            return frozenset([(("FIELD", re.sub(r"\s+", "", self.srctext(s) or s.get("name", "?"))),)])
        if k in ("CXXConstructExpr", "CXXTemporaryObjectExpr") and not [a for a in inner if a.get("kind") != "CXXDefaultArgExpr"]:
            return lit("")
        return U("%s %s" % (k, (self.srctext(s) or "?")[:80]))

    # -------- serialisation of values (JSON)
    def ser_part(self, p):
        if isinstance(p, str):
            return p
        if p[0] == "CALL":
            return ["CALL", p[1], p[2], [self.ser_val(a) for a in p[3]]]
        if p[0] == "CAP":
            return ["CAP", self.ser_part(p[1])]
        return list(p)

    def ser_val(self, v):
        return sorted(([self.ser_part(p) for p in alt] for alt in v), key=lambda x: json.dumps(x))


def headers_digest():
    h = hashlib.sha1()
    for d in ("lib", "cli", "frontend", "externals/simplecpp", "externals/tinyxml2", "externals/picojson"):
        for f in sorted(glob.glob(os.path.join(REPO, d, "*.h"))):
            h.update(f.encode())
            h.update(open(f, "rb").read())
    h.update(" ".join(clang_cmd()).encode())
    h.update(b"extractor-v2")
    return h.hexdigest()


def ast_extract(path, flt, hdig, fresh=False):
    """functions (with events) of the declarations in `path` whose qualified name contains `flt`"""
    os.makedirs(CACHE, exist_ok=True)
    key = hashlib.sha1((hdig + "|" + path + "|" + flt + "|").encode() + open(path, "rb").read()).hexdigest()
    cp = os.path.join(CACHE, key + ".json")
    if not fresh and os.path.exists(cp):
        try:
            r = json.load(open(cp))
            os.utime(cp, None)
            return r, True
        except (ValueError, OSError):
            pass
    r = subprocess.run(clang_cmd() + ["-Xclang", "-ast-dump-filter=" + flt, path], stdout=subprocess.PIPE, stderr=subprocess.PIPE)
    out = r.stdout.decode("utf-8", "replace")
    if r.returncode != 0 and not out.strip():
        return dict(error="clang failed on %s: %s" % (path, r.stderr.decode("utf-8", "replace")[-600:]), funcs=[]), False
    ex = Extract({})
    try:
        funcs = ex.run(ast_objects(out))
    except Exception as e:        # fail closed: the caller reports it
        import traceback
        return dict(error="AST extraction failed on %s filter %s: %s" % (path, flt, traceback.format_exc()[-800:]), funcs=[]), False
    res = dict(funcs=funcs, path=path, filter=flt)
    tmp = cp + ".%d.tmp" % os.getpid()
    json.dump(res, open(tmp, "w"))
    os.replace(tmp, cp)
    return res, False


if __name__ == "__main__" and len(sys.argv) > 2 and sys.argv[1] == "ast":
    res, cached = ast_extract(sys.argv[2], sys.argv[3], headers_digest(), fresh=True)
    if res.get("error"):
        print(res["error"])
    only = sys.argv[4] if len(sys.argv) > 4 else None
    for f in res["funcs"]:
        if only and only not in f["qual"]:
            continue
        print(f["qual"], f["nparams"], f["file"], f["line"], f["params"], "rets=", f["rets"] if f["rets"] else "")
        for ev in f["events"]:
            if ev["k"] == "call":
                if only or ev.get("name") in ("reportError", "reportErr"):
                    print("   call", ev.get("calleeq"), ev.get("objcls"), ev.get("name"), ev["line"], ev.get("ctext"),
                          [a.get("val", a.get("sev", "-")) for a in ev["args"]][:5])
            else:
                print("   ", ev["k"], ev["line"], ev.get("ctor"), [a.get("val", a.get("sev", "-")) for a in ev["args"]])


# =================================================================================================================
# orchestration: which dumps, cross-check text <-> AST
# =================================================================================================================
_inc_cache = {}


def include_closure_digest(path):
    """sha1 over the file and every repo header it includes transitively (quoted includes resolved like the -I list)"""
    dirs = [os.path.join(REPO, d) for d in ("lib", "cli", "frontend", "externals", "externals/simplecpp", "externals/tinyxml2", "externals/picojson")]
    seen = {}
    todo = [path]
    while todo:
        p = todo.pop()
        if p in seen:
            continue
        try:
            data = open(p, "rb").read()
        except OSError:
            continue
        seen[p] = hashlib.sha1(data).hexdigest()
        if p not in _inc_cache:
            _inc_cache[p] = re.findall(rb'^\s*#\s*include\s*["<]([^">]+)[">]', data, re.M)
        for inc in _inc_cache[p]:
            inc = inc.decode("utf-8", "replace")
            for d in [os.path.dirname(p)] + dirs:
                q = os.path.join(d, inc)
                if os.path.isfile(q):
                    todo.append(os.path.normpath(q))
                    break
    h = hashlib.sha1()
    for p in sorted(seen):
        h.update(p.encode()); h.update(seen[p].encode())
    h.update(" ".join(clang_cmd()).encode())
    h.update(b"extractor-v5")
    return h.hexdigest()


def cpp_for(path, all_files):
    if path.endswith(".cpp"):
        return path
    c = path[:-2] + ".cpp"
    if os.path.exists(c):
        return c
    base = os.path.basename(path).encode()
    for f in all_files:
        if f.endswith(".cpp") and re.search(rb'#\s*include\s*"' + re.escape(base) + rb'"', open(f, "rb").read()):
            return f
    return None


EXTRA_DUMPS = [("lib/check.cpp", "Check"), ("lib/errorlogger.cpp", "ErrorMessage"), ("lib/errortypes.cpp", "InternalError"),
               ("lib/checks.cpp", "CheckInstances")]


def plan_dumps(scans, all_files):
    jobs = set()
    unplaced = []
    for sc in scans.values():
        for c in sc["cands"]:
            f = c["fn"]
            if f is None or c["kind"] == "InternalError":
                continue            # InternalError sites are resolved by the text layer (the id is decided by the enum argument)
            top = (f.cls.split("::")[0] if f.cls else f.name)
            src = cpp_for(sc["path"], all_files)
            if src is None or not top:
                unplaced.append("%s:%d" % (sc["path"], c["line"]))
                continue
            jobs.add((src, top))
        for f in sc["fns"]:
            if f.name == "getErrorMessages" and f.cls:
                src = cpp_for(sc["path"], all_files)
                if src:
                    jobs.add((src, f.cls.split("::")[0]))
    for rel, flt in EXTRA_DUMPS:
        jobs.add((os.path.join(REPO, rel), flt))
    # a filter that is a substring of another filter of the same file is redundant the other way round: keep the shorter one
    out = set()
    for (src, flt) in jobs:
        if not any(s2 == src and f2 != flt and f2 in flt for (s2, f2) in jobs):
            out.add((src, flt))
    return sorted(out), unplaced


def prune_cache(keep=600):
    try:
        fs = [os.path.join(CACHE, f) for f in os.listdir(CACHE) if f.endswith(".json")]
        if len(fs) > keep:
            fs.sort(key=os.path.getmtime)
            for f in fs[:len(fs) - keep]:
                os.remove(f)
    except OSError:
        pass


def run_dumps(jobs, fresh, workers=2):
    os.makedirs(CACHE, exist_ok=True)
    prune_cache()
    digests = {}
    for (src, flt) in jobs:
        if src not in digests:
            digests[src] = include_closure_digest(src)
    results = {}
    stats = dict(cached=0, fresh=0)

    def one(job):
        return job, ast_extract(job[0], job[1], digests[job[0]], fresh)

    with concurrent.futures.ThreadPoolExecutor(max_workers=workers) as ex:
        for job, (res, cached) in ex.map(one, jobs):
            results[job] = res
            stats["cached" if cached else "fresh"] += 1
    return results, stats


def normfile(p):
    if p is None:
        return None
    return os.path.normpath(p if os.path.isabs(p) else os.path.join(REPO, p))


def merge_funcs(results):
    funcs = {}
    errors = []
    for job, res in results.items():
        if res.get("error"):
            errors.append(res["error"])
        for f in res.get("funcs", []):
            f["file"] = normfile(f.get("file"))
            if not f["file"] or not f["file"].startswith(REPO + "/") or "/externals/" in f["file"]:
                continue
            for ev in f["events"]:
                ev["file"] = normfile(ev.get("file"))
            k = (f["qual"], f["file"], f["line"])
            if k not in funcs:
                funcs[k] = f
    return funcs, errors


def cleanq(q):
    return re.sub(r"\(anonymous namespace\)::|\(anonymous\)::", "", q or "")


CONSTRUCT_AFTER = re.compile(r"^\s*(?:\w+\s*)?[({]|^\s*\w+\s*(?:=|;)")


def cross_check(scans, funcs):
    """every candidate token in active code inside a function body must be explained by an AST event; returns list of problems"""
    byfile = {}
    for f in funcs.values():
        byfile.setdefault(f["file"], []).append(f)
    problems = []
    explained = 0
    for sc in scans.values():
        for c in sc["cands"]:
            if c["fn"] is None:
                continue
            line = c["line"]
            cover = [f for f in byfile.get(sc["path"], []) if f["line"] is not None and f["endline"] is not None and f["line"] <= line <= f["endline"]]
            where = "%s:%d" % (os.path.relpath(sc["path"], REPO), line)
            kind = c["kind"]
            if kind == "emplace" and not any(ev["k"] == "em" and ev.get("file") == sc["path"] and ev.get("line") is not None and abs(ev["line"] - line) <= 3
                                             for f in cover for ev in f["events"]):
                # in-place construction of something else (FileLocation, ErrorPathItem ...): the AST knows the element type
                if cover and any(ev["k"] == "call" and ev.get("name", "").startswith("emplace") and ev.get("file") == sc["path"] and ev.get("line") is not None
                                 and abs(ev["line"] - line) <= 3 for f in cover for ev in f["events"]):
                    explained += 1
                    continue
            if kind == "ErrorMessage":
                a = c["after"]
                if re.search(r"make_(?:shared|unique)\s*<\s*$", sc["code"][max(0, c["off"] - 24):c["off"]]):
                    problems.append("%s: forwarding construction of an ErrorMessage is not modelled: %s" % (where, c["text"][:100]))
                    continue
                if a.startswith("::") or re.match(r"^\s*(?:const\b)?\s*[&*>,)]", a) or re.match(r"^\s*[&*]\s*\w", a) or re.match(r"^\s*const\s*[&*]", a):
                    explained += 1      # type mention / static member / nested type
                    continue
                if not CONSTRUCT_AFTER.match(a):
                    problems.append("%s: unrecognised use of ErrorMessage: %s" % (where, c["text"][:100]))
                    continue
            if not cover:
                if kind == "InternalError":
                    explained += 1
                    continue
                problems.append("%s: %s inside %s is not covered by any AST function record: %s" % (where, kind, c["fn"].qual, c["text"][:100]))
                continue
            evs = [ev for f in cover for ev in f["events"]]
            ok = False
            for ev in evs:
                if ev.get("file") != sc["path"] or ev.get("line") is None:
                    continue
                near = abs(ev["line"] - line) <= 3
                if kind in ("reportError", "reportErr") and ev["k"] == "call" and ev.get("name") == kind and near:
                    ok = True
                elif kind == "ErrorMessage" and ev["k"] == "em" and near:
                    ok = True
                elif kind == "ErrorMessage" and ev["k"] == "call" and near and re.match(r"^\s*\w+\s*=\s*[\w:]+\s*\(", c["after"]):
                    ok = True           # ErrorMessage x = f(...): initialised from a call (its construction sites are inside f)
                elif kind == "emplace" and ev["k"] == "em" and near:
                    ok = True
                elif kind == "InternalError" and ev["k"] == "ie" and near:
                    ok = True
                elif kind == "idassign" and ev["k"] == "idassign" and near:
                    ok = True
            if ok:
                explained += 1
            else:
                problems.append("%s: %s in %s has no matching AST event: %s" % (where, kind, c["fn"].qual, c["text"][:100]))
    return problems, explained


if __name__ == "__main__" and len(sys.argv) > 1 and sys.argv[1] == "plan":
    t = time.time()
    files = source_files()
    scans = {p: text_scan(p) for p in files}
    print("text scan %.1fs, %d files, %d candidates" % (time.time() - t, len(files), sum(len(s["cands"]) for s in scans.values())))
    for s in scans.values():
        for pr in s["problems"]:
            print("TEXT PROBLEM", s["path"], pr)
    jobs, unplaced = plan_dumps(scans, files)
    print(len(jobs), "dumps", unplaced)
    for j in jobs:
        print("  ", j)
    if len(sys.argv) > 2 and sys.argv[2] == "run":
        t = time.time()
        results, stats = run_dumps(jobs, fresh=False)
        print("dumps %.1fs %s" % (time.time() - t, stats))
        funcs, errors = merge_funcs(results)
        print(len(funcs), "functions", errors)
        probs, expl = cross_check(scans, funcs)
        print("explained", expl)
        for p in probs:
            print("XCHECK", p)


# =================================================================================================================
# resolution: wrappers, return summaries, rules  ->  emitters / dynamic rules / unresolved
# =================================================================================================================
def de_val(v):
    """JSON value -> frozenset of alternatives (tuples); parts: str | ('P',i) | ('CAP',part) | ('CALL',q,name,(vals)) | ('FIELD',t) | ('U',r)"""
    def part(p):
        if isinstance(p, str):
            return p
        if p[0] == "CALL":
            return ("CALL", p[1], p[2], tuple(de_val(a) for a in p[3]))
        if p[0] == "CAP":
            return ("CAP", part(p[1]))
        return tuple(p)
    return frozenset(tuple(part(p) for p in alt) for alt in (v or []))


def has_sym(alt, tags=("P", "CAP", "CALL", "FIELD", "U")):
    return any(not isinstance(p, str) and p[0] in tags for p in alt)


def is_literal(alt):
    return all(isinstance(p, str) for p in alt)


def alt_str(alt):
    return "".join(alt)


def show_alt(alt):
    out = []
    for p in alt:
        if isinstance(p, str):
            out.append(json.dumps(p))
        elif p[0] == "P":
            out.append("<param %d>" % p[1])
        elif p[0] == "CAP":
            out.append("<Cap %s>" % show_alt((p[1],)))
        elif p[0] == "CALL":
            out.append("<%s(...)>" % p[1])
        elif p[0] == "FIELD":
            out.append("<%s>" % p[1])
        else:
            out.append("<?%s>" % (p[1] if len(p) > 1 else ""))
    return " + ".join(out) if out else '""'


def em_indices(ctor):
    """(id index, severity index) of an ErrorMessage constructor from its clang type string, or None for copy/xml/default"""
    if not ctor:
        return None
    m = re.match(r"^void \((.*)\)", ctor)
    if not m:
        return None
    ps = [p.strip() for p in _split_commas(m.group(1))]
    if len(ps) < 5:
        return None
    if "TokenList" in ps[1]:
        return 3, 2
    if "string" in ps[1]:
        return 4, 2
    return None


def _split_commas(s):
    out, d, cur = [], 0, ""
    for ch in s:
        if ch in "<([":
            d += 1
        elif ch in ">)]":
            d -= 1
        if ch == "," and d == 0:
            out.append(cur); cur = ""
        else:
            cur += ch
    if cur.strip():
        out.append(cur)
    return out


def check_em_header():
    """the positional rule used by em_indices must agree with the declarations in lib/errorlogger.h"""
    txt = open(os.path.join(REPO, "lib", "errorlogger.h"), encoding="utf-8", errors="replace").read()
    code, full = lex(txt)
    bad = []
    n = 0
    for m in re.finditer(r"\bErrorMessage\s*\(", code):
        j = match_close(code, m.end() - 1)
        after = code[j + 1:j + 3].lstrip()
        if not after.startswith(";"):
            continue
        ps = [p.strip() for p in _split_commas(full[m.end():j])]
        if len(ps) < 5:
            continue
        n += 1
        names = [re.search(r"(\w+)\s*(?:\[\s*\])?\s*$", p).group(1) for p in ps]
        idx = (3, 2) if "TokenList" in ps[1] else (4, 2) if "string" in ps[1] else None
        if idx is None or names[idx[0]] != "id" or names[idx[1]] != "severity":
            bad.append("ErrorMessage(%s)" % ", ".join(ps))
    return n, bad


def internal_error_table():
    """InternalError::Type -> id, from the switch in lib/errortypes.cpp (typeToString)"""
    txt = open(os.path.join(REPO, "lib", "errortypes.cpp"), encoding="utf-8", errors="replace").read()
    code, full = lex(txt)
    m = re.search(r"static\s+std::string\s+typeToString\s*\(\s*InternalError::Type\s+type\s*\)\s*\{", code)
    if not m:
        return None, "typeToString(InternalError::Type) not found in lib/errortypes.cpp"
    j = match_close(code, m.end() - 1)
    body = full[m.end():j]
    tbl = {}
    rest = body
    for mm in re.finditer(r'case\s+InternalError::Type::(\w+)\s*:\s*return\s+"([^"]*)"\s*;', body):
        tbl[mm.group(1)] = mm.group(2)
        rest = rest.replace(mm.group(0), "")
    rest = re.sub(r"\s+", "", rest)
    if rest not in ("switch(type){}cppcheck::unreachable();",):
        return None, "unrecognised shape of typeToString: %s" % rest[:120]
    # the id member must be initialised from typeToString(type) and from nothing else
    m2 = re.search(r"InternalError::InternalError\s*\([^)]*std::string\s+details[^)]*\)\s*:(.*?)\{", full, re.S)
    if not m2 or "id(typeToString(type))" not in re.sub(r"\s+", "", m2.group(1)):
        return None, "InternalError constructor does not initialise id(typeToString(type))"
    hdr = open(os.path.join(REPO, "lib", "errortypes.h"), encoding="utf-8", errors="replace").read()
    m3 = re.search(r"enum\s+Type\s*(?::\s*[\w:]+\s*)?\{([^}]*)\}", lex(hdr)[1])
    if not m3:
        return None, "enum InternalError::Type not found"
    enum = [e.strip().split("=")[0].strip() for e in m3.group(1).split(",") if e.strip()]
    if sorted(enum) != sorted(tbl):
        return None, "enum InternalError::Type %s differs from the switch cases %s" % (enum, sorted(tbl))
    mdef = re.search(r"InternalError\s*\(\s*const\s+Token\s*\*\s*tok\s*,\s*std::string\s+errorMsg\s*,\s*Type\s+type\s*=\s*(\w+)\s*\)", lex(hdr)[1])
    if not mdef:
        return None, "default Type argument of InternalError not found"
    return dict(table=tbl, default=mdef.group(1)), None


def text_args(code, full, open_idx):
    j = match_close(code, open_idx)
    if j < 0:
        return None
    out, d, start = [], 0, open_idx + 1
    for k in range(open_idx + 1, j):
        ch = code[k]
        if ch in "([{":
            d += 1
        elif ch in ")]}":
            d -= 1
        elif ch == "," and d == 0:
            out.append(full[start:k].strip()); start = k + 1
    last = full[start:j].strip()
    if last or out:
        out.append(last)
    return out


def internal_error_sites(scans, ietab):
    """(emitters, problems) of `InternalError(...)` constructions found by the text layer"""
    ems, probs = [], []
    for sc in scans.values():
        for c in sc["cands"]:
            if c["kind"] != "InternalError" or c["fn"] is None:
                continue
            m = re.compile(r"InternalError\s*[({]").match(sc["code"], c["off"])
            args = text_args(sc["code"], sc["full"], m.end() - 1)
            where = "%s:%d" % (os.path.relpath(sc["path"], REPO), c["line"])
            if args is None or len(args) < 2:
                probs.append("%s: cannot parse InternalError(...) arguments: %s" % (where, c["text"][:100]))
                continue
            last = re.sub(r"\s+", "", args[-1])
            mt = re.match(r"^InternalError::(?:Type::)?(\w+)$", last)
            if mt:
                ty = [mt.group(1)]
            elif len(args) == 2 or (len(args) == 3 and (last.startswith('"') or not re.match(r"^\w+$", last))):
                ty = [ietab["default"]]
            elif c["fn"].cls == "InternalError":
                continue        # delegating constructor inside InternalError itself
            else:
                ty = None
                # `for (const InternalError::Type t : {InternalError::A, InternalError::B}) ... InternalError(tok, msg, t)`
                if re.match(r"^\w+$", last):
                    body = sc["code"][c["fn"].body_start:c["off"]]
                    loops = list(re.finditer(r"for\s*\(\s*(?:const\s+)?InternalError::Type\s+%s\s*:\s*\{([^{}]*)\}\s*\)" % re.escape(last), body))
                    if loops:
                        items = [re.sub(r"\s+", "", x) for x in loops[-1].group(1).split(",") if x.strip()]
                        ms = [re.match(r"^InternalError::(?:Type::)?(\w+)$", x) for x in items]
                        if items and all(ms):
                            ty = [m_.group(1) for m_ in ms]
            if ty is None or any(t not in ietab["table"] for t in ty):
                probs.append("%s: InternalError type argument %r is not a literal enumerator: %s" % (where, args[-1][:40], c["text"][:100]))
                continue
            for t in ty:
                ems.append(dict(fn=c["fn"].qual, site=c["fn"].qual, id=ietab["table"][t], sev="error", file=sc["path"], line=c["line"], via="InternalError::" + t))
    return ems, probs


def registered_checks():
    """classes instantiated by CheckInstancesImpl in lib/checks.cpp (active configuration)"""
    txt = open(os.path.join(REPO, "lib", "checks.cpp"), encoding="utf-8", errors="replace").read()
    code, full = lex(txt)
    upi = re.findall(r"\bUPI\(\s*(\w+)\s*\)\s*;", code)
    got = re.findall(r"\bm(\w+)\.get\(\)", code)
    if not upi or sorted(upi) != sorted(got):
        return None, "lib/checks.cpp: UPI(...) members %s and s_checks entries %s differ / unrecognised shape" % (sorted(upi), sorted(got))
    return upi, None


# closed table of id expressions that are dynamic by design: (function, regex over the rendered alternative) -> rule kind
DYNAMIC_RULES = [
    ("ErrorMessage::ErrorMessage", r'^<\?call errmsg->Attribute\("id"\)>$', "replay-xml"),
    ("ErrorMessage::deserialize", r"^<\?.*results\[0\].*>$", "replay-pipe"),
    ("CppCheck::executeAddons", r'^<\?.*obj\["addon"\].*> \+ "-" \+ <\?.*obj\["errorId"\].*>$', "addon"),
    ("CppCheck::analyseClangTidy", r'^"clang-tidy-" \+ <\?.*>$', "clang-tidy"),
    ("CppCheck::executeRules", r"^<rule\.id>$", "rule-file"),
    ("CheckFunctions::checkProhibitedFunctions", r'^(?:"prohibited" \+ )?<\?call tok->str\(\)> \+ "Called"$', "library-function"),
    ("CheckFunctions::getErrorMessages", r'^<.*first> \+ "Called"$', "library-function"),
]


class Resolver:
    def __init__(self, funcs, scans):
        self.funcs = funcs
        self.list = list(funcs.values())
        self.byq = {}
        self.bydef = {}
        for f in self.list:
            f["cq"] = cleanq(f["qual"])
            self.byq.setdefault(f["cq"], []).append(f)
            self.bydef[(f["file"], f["line"])] = f
        # unique node names
        cnt = {}
        for f in self.list:
            cnt[(f["cq"], f["nparams"])] = cnt.get((f["cq"], f["nparams"]), 0) + 1
        for f in self.list:
            f["node"] = "%s/%d" % (f["cq"], f["nparams"]) + ("@%s:%d" % (os.path.basename(f["file"]), f["line"]) if cnt[(f["cq"], f["nparams"])] > 1 else "")
        self.problems = []
        self.templates = {}      # node -> list of dict(id=frozenset alts, sev=frozenset alts, site=(file,line), sitefn=node)
        self.emitters = []
        self.dynamic = []
        self.unresolved = []
        self.edges = set()
        self.need = set()        # (file, function name) whose return summary is needed but was not extracted

    # ---- callee lookup
    def callees(self, f, ev):
        if ev.get("calleedef"):
            k = (normfile(ev["calleedef"][0]), ev["calleedef"][1])
            g = self.bydef.get(k)
            if g is not None:
                return [g]
        names = []
        if ev.get("calleeq"):
            names.append(cleanq(ev["calleeq"]))
        elif ev.get("objcls"):
            names.append(cleanq(ev["objcls"]) + "::" + (ev.get("name") or ""))
        if ev.get("ctext"):
            t = ev["ctext"]
            if re.match(r"^[\w:]+$", t):
                names.append(t)
                # unqualified / partially qualified name used inside a class or namespace
                parts = f["cq"].split("::")
                for i in range(len(parts) - 1, 0, -1):
                    names.append("::".join(parts[:i]) + "::" + t)
        if not ev.get("objcls") and ev.get("name") and re.match(r"^\w+$", ev["name"]) and ev["name"] not in names:
            # call that comes out of a macro expansion: the source text is the macro's, the referenced declaration's name is right
            names.append(ev["name"])
            parts = f["cq"].split("::")
            for i in range(len(parts) - 1, 0, -1):
                names.append("::".join(parts[:i]) + "::" + ev["name"])
        nargs = len(ev.get("args", []))
        out = []
        for nm in names:
            for g in self.byq.get(nm, []):
                if g["nparams"] == nargs and g not in out:
                    out.append(g)
            if out:
                break
        return out

    def expand(self, v, depth=0):
        """expand CALL parts through return summaries"""
        res = frozenset()
        for alt in v:
            cur = frozenset([()])
            for p in alt:
                if not isinstance(p, str) and p[0] == "CALL" and depth < 4:
                    gs = [g for g in self.byq.get(cleanq(p[1]), []) if g["nparams"] == len(p[3]) and g.get("rets")]
                    if not gs:
                        # try by unqualified name suffix
                        gs = [g for q, l in self.byq.items() if q.endswith("::" + p[2]) or q == p[2] for g in l if g["nparams"] == len(p[3]) and g.get("rets")]
                        if len(gs) > 1:
                            gs = []
                    if gs:
                        rv = frozenset()
                        for g in gs:
                            rv = union(rv, self.subst(de_val(g["rets"]), list(p[3])))
                        cur = concat(cur, self.expand(rv, depth + 1))
                        continue
                cur = concat(cur, frozenset([(p,)]))
            res = union(res, cur)
        return res

    def subst(self, v, argvals):
        """replace ('P',i) by argvals[i] (a value or None)"""
        res = frozenset()
        for alt in v:
            cur = frozenset([()])
            for p in alt:
                if not isinstance(p, str) and p[0] == "P":
                    a = argvals[p[1]] if p[1] < len(argvals) else None
                    cur = concat(cur, a if a is not None and len(a) > 0 else U("argument %d is not a string expression" % p[1]))
                elif not isinstance(p, str) and p[0] == "CAP" and not isinstance(p[1], str) and p[1][0] == "P":
                    a = argvals[p[1][1]] if p[1][1] < len(argvals) else None
                    cur = concat(cur, cap_value(a) if a is not None and len(a) > 0 else U("argument %d is not a string expression" % p[1][1]))
                elif not isinstance(p, str) and p[0] == "CALL":
                    cur = concat(cur, frozenset([(("CALL", p[1], p[2], tuple(self.subst(a, argvals) for a in p[3])),)]))
                else:
                    cur = concat(cur, frozenset([(p,)]))
            res = union(res, cur)
        return res

    def argval(self, a, key):
        if key in a:
            return de_val(a[key])
        return None

    def run(self):
        # direct sites
        for f in self.list:
            ts = []
            for ev in f["events"]:
                if ev["k"] == "em":
                    idx = em_indices(ev.get("ctor"))
                    if idx is None:
                        c = ev.get("ctor") or ""
                        if "XMLElement" in c:
                            self.dynamic.append(dict(kind="replay-xml", fn=f["node"], file=ev["file"], line=ev["line"], expr="ErrorMessage(const tinyxml2::XMLElement*)"))
                        continue
                    a = ev["args"]
                    idv = self.argval(a[idx[0]], "val")
                    sv = self.argval(a[idx[1]], "sev")
                    if idv is None:
                        idv = U("id argument is not a string expression: " + a[idx[0]].get("text", "?")[:60])
                    ts.append(dict(id=idv, sev=sv if sv is not None else lit("?"), site=(ev["file"], ev["line"]), sitefn=f["node"]))
                elif ev["k"] == "idassign" and ev.get("objcls") == "ErrorMessage":
                    idv = self.argval(ev["args"][0], "val")
                    if idv is None:
                        idv = U("assigned value is not a string expression: " + ev["args"][0].get("text", "?")[:60])
                    sv = lit("?")
                    best = None
                    for e2 in f["events"]:
                        if e2["k"] == "sevassign" and e2.get("objcls") == "ErrorMessage" and e2.get("line") is not None and ev.get("line") is not None \
                           and abs(e2["line"] - ev["line"]) <= 3 and (best is None or abs(e2["line"] - ev["line"]) < abs(best["line"] - ev["line"])):
                            best = e2
                    if best is not None and "sev" in best["args"][0]:
                        sv = de_val(best["args"][0]["sev"])
                    ts.append(dict(id=idv, sev=sv, site=(ev["file"], ev["line"]), sitefn=f["node"]))
            self.templates[f["node"]] = ts
        # call edges + wrapper propagation (fixpoint)
        calls = []
        for f in self.list:
            for ev in f["events"]:
                if ev["k"] != "call":
                    continue
                for g in self.callees(f, ev):
                    calls.append((f, ev, g))
                    self.edges.add((f["node"], g["node"]))
        for _ in range(8):
            changed = False
            for (f, ev, g) in calls:
                for t in self.templates.get(g["node"], []):
                    if not any(has_sym(alt, ("P", "CAP")) and self._mentions_param(alt) for alt in t["id"]) and \
                       not any(self._mentions_param(alt) for alt in t["sev"]):
                        continue
                    argv = [self.argval(a, "val") for a in ev["args"]]
                    args = [self.argval(a, "sev") for a in ev["args"]]
                    pid = frozenset(alt for alt in t["id"] if self._mentions_param(alt))
                    need = set(i for alt in pid for i in self._params_of(alt))
                    if any(i >= len(argv) or argv[i] is None for i in need):
                        # the argument at an id position is not a string expression: with C++'s typing this call targets another
                        # overload of the same name and arity (only reached when the callee was not identified exactly)
                        continue
                    nid = self.subst(pid, argv) if pid else frozenset()
                    if not pid:
                        # only the severity depends on the caller: ids stay with the callee
                        continue
                    nsev = self.subst(t["sev"], args) if any(self._mentions_param(a) for a in t["sev"]) else t["sev"]
                    nt = dict(id=nid, sev=nsev, site=t["site"], sitefn=t["sitefn"], via=(ev["file"], ev["line"]))
                    lst = self.templates.setdefault(f["node"], [])
                    if not any(x["id"] == nt["id"] and x["sev"] == nt["sev"] and x["site"] == nt["site"] and x.get("via") == nt["via"] for x in lst):
                        lst.append(nt)
                        changed = True
            if not changed:
                break
        # classify
        seen = set()
        for f in self.list:
            for t in self.templates.get(f["node"], []):
                idv = self.expand(t["id"])
                for alt in idv:
                    if self._mentions_param(alt):
                        continue        # wrapper: resolved at the call sites
                    sevs = sorted(set(alt_str(s) if is_literal(s) else "?" for s in t["sev"] if not self._mentions_param(s))) or ["?"]
                    w = t.get("via") or t["site"]
                    if is_literal(alt):
                        for sv in sevs:
                            k = (f["node"], alt_str(alt), sv, t["site"], w)
                            if k not in seen:
                                seen.add(k)
                                self.emitters.append(dict(fn=f["node"], site=t["sitefn"], id=alt_str(alt), sev=sv, file=w[0], line=w[1],
                                                          sitefile=t["site"][0], siteline=t["site"][1]))
                        continue
                    r = show_alt(alt)
                    kind = None
                    for (fq, rx, kd) in DYNAMIC_RULES:
                        if f["cq"] == fq and re.match(rx, r):
                            kind = kd
                    if len(alt) == 1 and alt[0][0] == "FIELD" and alt[0][1] == "internalError.id" and f["cq"] == "ErrorMessage::fromInternalError":
                        kind = "internal-error-id"
                    k = (f["node"], r, w)
                    if k in seen:
                        continue
                    seen.add(k)
                    if kind:
                        self.dynamic.append(dict(kind=kind, fn=f["node"], file=w[0], line=w[1], expr=r))
                    else:
                        for p in alt:
                            if not isinstance(p, str) and p[0] == "CALL":
                                self.need.add((t["site"][0], p[2]))
                        self.unresolved.append("%s:%s in %s: id expression not resolved to a literal or a known rule: %s" %
                                               (os.path.relpath(w[0], REPO) if w[0] else "?", w[1], f["node"], r[:160]))
        return self

    @staticmethod
    def _params_of(alt):
        out = []
        for p in alt:
            if isinstance(p, str):
                continue
            if p[0] == "P":
                out.append(p[1])
            elif p[0] == "CAP" and not isinstance(p[1], str) and p[1][0] == "P":
                out.append(p[1][1])
            elif p[0] == "CALL":
                for a in p[3]:
                    for al in a:
                        out += Resolver._params_of(al)
        return out

    @staticmethod
    def _mentions_param(alt):
        for p in alt:
            if isinstance(p, str):
                continue
            if p[0] == "P":
                return True
            if p[0] == "CAP" and not isinstance(p[1], str) and p[1][0] == "P":
                return True
            if p[0] == "CALL":
                for a in p[3]:
                    for al in a:
                        if Resolver._mentions_param(al):
                            return True
        return False


def text_wrapper_calls(scans, R):
    """calls of id-forwarding wrappers (directly or through function-like macros) from functions the AST layer did not dump:
    resolved from the text when the id argument is a string literal, otherwise reported (fail closed)"""
    wrappers = {}
    for f in R.list:
        for t in R.templates.get(f["node"], []):
            for alt in t["id"]:
                if len(alt) == 1 and not isinstance(alt[0], str) and alt[0][0] == "P":
                    sv = sorted(set(alt_str(a) for a in t["sev"] if is_literal(a)))
                    wrappers.setdefault(f["name"], {})[(f["nparams"], alt[0][1])] = sv[0] if len(sv) == 1 else "?"
    for n in ("reportError", "reportErr"):      # candidate tokens of the text layer: always inside dumped functions
        wrappers.pop(n, None)
    # function-like macros that expand to a wrapper call
    macros = {}
    for sc in scans.values():
        for m in re.finditer(r"^[ \t]*#[ \t]*define[ \t]+(\w+)\(([^)\n]*)\)((?:[^\n]*\\\n)*[^\n]*)", sc["src"], re.M):
            macros[m.group(1)] = ([p.strip() for p in m.group(2).split(",")], m.group(3).replace("\\\n", " "))
    mw = {}     # macro -> ("lit", id, sev) | ("idx", j, sev)
    for _ in range(4):
        for M, (params, body) in macros.items():
            if M in mw:
                continue
            code, full = lex(body)
            for name in list(wrappers) + list(mw):
                mm = re.search(r"\b%s\s*\(" % re.escape(name), code)
                if not mm:
                    continue
                args = text_args(code, full, mm.end() - 1)
                if args is None:
                    continue
                if name in wrappers:
                    cands = [(idx, sv) for (np, idx), sv in wrappers[name].items() if np == len(args)]
                else:
                    cands = [(mw[name][1], mw[name][2])] if mw[name][0] == "idx" else []
                    if mw[name][0] == "lit":
                        mw[M] = mw[name]
                for idx, sv in cands:
                    a = re.sub(r"^\((.*)\)$", r"\1", args[idx].strip()).strip()
                    if re.fullmatch(r'"[^"\\]*"', a):
                        mw[M] = ("lit", a[1:-1], sv)
                    elif a in params:
                        mw[M] = ("idx", params.index(a), sv)
    byfile = {}
    for f in R.list:
        byfile.setdefault(f["file"], []).append(f)
    ems, probs = [], []
    names = dict((n, None) for n in wrappers)
    names.update((m, None) for m in mw)
    if not names:
        return ems, probs
    rx = re.compile(r"\b(%s)\s*\(" % "|".join(re.escape(n) for n in names))
    for sc in scans.values():
        for m in rx.finditer(sc["code"]):
            off = m.start()
            line = sc["code"].count("\n", 0, off) + 1
            fn = None
            for f in sc["fns"]:
                if f.body_start <= off <= f.body_end and (fn is None or f.body_start >= fn.body_start):
                    fn = f
            if fn is None:
                continue        # declaration / definition header
            if any(g["line"] is not None and g["endline"] is not None and g["line"] <= line <= g["endline"] for g in byfile.get(sc["path"], [])):
                continue        # inside a dumped function: the AST layer sees the (expanded) call
            name = m.group(1)
            args = text_args(sc["code"], sc["full"], m.end() - 1)
            where = "%s:%d" % (os.path.relpath(sc["path"], REPO), line)
            if args is None:
                probs.append("%s: cannot parse the arguments of %s(...)" % (where, name))
                continue
            if name in mw:
                kind, v, sv = mw[name]
                if kind == "lit":
                    ems.append(dict(fn=fn.qual + "/text", site=fn.qual + "/text", id=v, sev=sv, file=sc["path"], line=line, sitefile=sc["path"], siteline=line))
                    continue
                idxs = [(v, sv)]
            else:
                idxs = [(idx, sv) for (np, idx), sv in wrappers[name].items() if np == len(args)]
                if not idxs:
                    continue    # another overload / unrelated function of the same name
            for idx, sv in idxs:
                a = args[idx].strip() if idx < len(args) else ""
                if re.fullmatch(r'"[^"\\]*"', a):
                    ems.append(dict(fn=fn.qual + "/text", site=fn.qual + "/text", id=a[1:-1], sev=sv, file=sc["path"], line=line, sitefile=sc["path"], siteline=line))
                else:
                    probs.append("%s: call of the id-forwarding function %s in %s (not dumped) with a non-literal id argument %r" % (where, name, fn.qual, a[:40]))
    return ems, probs


def extract_all(fresh=False, verbose=False):
    """run the whole translator; returns dict with tables and the list of fail-closed problems"""
    t0 = time.time()
    files = source_files()
    scans = {p: text_scan(p) for p in files}
    problems = []
    for s in scans.values():
        for pr in s["problems"]:
            problems.append("text layer: %s: %s" % (os.path.relpath(s["path"], REPO), pr))
    t1 = time.time()
    jobs, unplaced = plan_dumps(scans, files)
    for u in unplaced:
        problems.append("no translation unit found for candidate at %s" % u)
    results, stats = run_dumps(jobs, fresh)
    funcs, errors = merge_funcs(results)
    for _ in range(2):
        # helper functions whose return value feeds an id (e.g. a static `...ToId(type)` switch): dump them as well
        R0 = Resolver(dict(funcs), scans).run()
        extra = sorted(set((cpp_for(f, files), nm) for (f, nm) in R0.need if f and nm and cpp_for(f, files)) - set(jobs))
        if not extra:
            break
        r2, s2 = run_dumps(extra, fresh)
        results.update(r2)
        jobs = jobs + extra
        for k in s2:
            stats[k] += s2[k]
        funcs, errors = merge_funcs(results)
    problems += errors
    t2 = time.time()
    xp, explained = cross_check(scans, funcs)
    problems += ["cross-check: " + p for p in xp]
    n, bad = check_em_header()
    if bad or n < 5:
        problems.append("lib/errorlogger.h: ErrorMessage constructors do not follow the positional rule (id/severity): %s (found %d)" % (bad, n))
    ietab, err = internal_error_table()
    ie_ems = []
    if err:
        problems.append("InternalError table: " + err)
    else:
        ie_ems, ip = internal_error_sites(scans, ietab)
        problems += ip
    reg, err = registered_checks()
    if err:
        problems.append(err)
        reg = []
    R = Resolver(funcs, scans).run()
    problems += R.unresolved
    tw_ems, tw_probs = text_wrapper_calls(scans, R)
    problems += tw_probs
    # virtual dispatch of Check::getErrorMessages to every registered check
    edges = set(R.edges)
    nodes = {f["node"]: f for f in R.list}
    gem_callers = [a for (a, b) in edges if b.startswith("Check::getErrorMessages/")]
    virt = []
    for cls in reg:
        tgt = [f["node"] for f in R.byq.get(cls + "::getErrorMessages", [])]
        if not tgt:
            problems.append("registered check %s has no getErrorMessages definition in the extracted functions" % cls)
        virt += tgt
    root = [f["node"] for f in R.byq.get("CppCheck::getErrorMessages", [])]
    if len(root) != 1:
        problems.append("CppCheck::getErrorMessages not found exactly once (%d)" % len(root))
    for r in root:
        # `for (const Check * const c : CheckInstances::get()) c->getErrorMessages(...)`: the pure virtual call is an edge to every override
        f = nodes[r]
        if not any(ev["k"] == "call" and ev.get("name") == "getErrorMessages" and cleanq(ev.get("objcls") or "") == "Check" for ev in f["events"]):
            problems.append("CppCheck::getErrorMessages no longer calls Check::getErrorMessages on the registered instances")
        else:
            for v in virt:
                edges.add((r, v))
    # InternalError emitters use text-layer function names: map them onto AST nodes where possible
    for e in ie_ems:
        cands = [f for f in R.list if f["file"] == e["file"] and f["line"] is not None and f["endline"] is not None and f["line"] <= e["line"] <= f["endline"]]
        if cands:
            e["fn"] = e["site"] = cands[0]["node"]
        else:
            e["fn"] = e["site"] = re.sub(r"^[\w.]+\.(?:cpp|h):", "", e["fn"]) + "/text"
        e["sitefile"], e["siteline"] = e["file"], e["line"]
    for e in tw_ems:
        e["fn"] = e["site"] = re.sub(r"^[\w.]+\.(?:cpp|h):", "", e["fn"])
    return dict(emitters=R.emitters + ie_ems + tw_ems, dynamic=R.dynamic, edges=sorted(edges), roots=root, problems=problems, registered=reg,
                nfuncs=len(R.list), ncands=sum(len(s["cands"]) for s in scans.values()), explained=explained, dump_stats=stats,
                njobs=len(jobs), times=dict(text=round(t1 - t0, 1), ast=round(t2 - t1, 1), resolve=round(time.time() - t2, 1)),
                ietab=ietab, resolver=R, scans=scans)


if __name__ == "__main__" and len(sys.argv) > 1 and sys.argv[1] == "extract":
    X = extract_all(fresh="fresh" in sys.argv)
    print("times", X["times"], "dumps", X["dump_stats"], "funcs", X["nfuncs"], "cands", X["ncands"], "explained", X["explained"])
    print("emitters", len(X["emitters"]), "distinct ids", len(set(e["id"] for e in X["emitters"])), "dynamic", len(X["dynamic"]), "edges", len(X["edges"]))
    for p in X["problems"]:
        print("PROBLEM", p)
    for d in X["dynamic"]:
        print("DYN", d)
    json.dump(dict(emitters=X["emitters"], dynamic=X["dynamic"], edges=X["edges"], roots=X["roots"]), open("/tmp/c28/extract.json", "w"), indent=1)


# =================================================================================================================
# tables -> Lean
# =================================================================================================================
def enc(s):
    n = 0
    for b in s.encode("utf-8"):
        n = n * 256 + b
    return n


COVERAGE_FLOOR = 0.85    # thorough tier: fraction of the non-exempt table ids some run must report (measured: see docs)
PASSES = 2      # must equal `passes` in lean/Cppcheck/Props/C28.lean
SEVS = ("none", "error", "warning", "style", "performance", "portability", "information", "debug", "internal")
KIND_LEAN = {"library-function": "libraryFunction", "addon": "addon", "clang-tidy": "clangTidy", "rule-file": "ruleFile",
             "replay-xml": "replayXml", "replay-pipe": "replayPipe", "internal-error-id": "internalErrorId"}
PROPS_FILE = os.path.join(core.LEAN, "Cppcheck", "Props", "C28.lean")


def props_lists():
    """the hand-written lists of lean/Cppcheck/Props/C28.lean (single source of truth), as name lists; also checks the codes"""
    txt = open(PROPS_FILE, encoding="utf-8").read()
    out, bad = {}, []
    for name in ("exemptIds", "knownUnlisted", "infeasibleIds"):
        m = re.search(r"def %s : List \(String × Nat\) :=\s*\[(.*?)\n\s*\]" % name, txt, re.S)
        if not m:
            bad.append("list %s not found in Props/C28.lean" % name)
            out[name] = []
            continue
        items = re.findall(r'\("((?:[^"\\]|\\.)*)",\s*(0x[0-9a-fA-F]+|\d+)\)', m.group(1))
        out[name] = [s for s, _ in items]
        for s, h in items:
            if enc(s) != int(h, 0):
                bad.append("%s: code of %r is %s, should be 0x%x" % (name, s, h, enc(s)))
    return out, bad


def errorlist_ids(ctx):
    for attempt in range(20):
        try:
            rc, out, err = core.sh([ctx.cppcheck, "--errorlist"], timeout=120)
            break
        except OSError:
            time.sleep(3)
    else:
        return None, "cannot execute %s" % ctx.cppcheck
    if rc != 0:
        return None, "cppcheck --errorlist exited with %s: %s" % (rc, err[-300:])
    try:
        root = ET.fromstring(out)
    except ET.ParseError as e:
        return None, "--errorlist output is not well-formed XML: %s" % e
    ids = [(e.get("id"), e.get("severity")) for e in root.iter("error")]
    if len(ids) < 50:
        return None, "--errorlist printed only %d entries" % len(ids)
    return ids, None


def build_tables(X, elist):
    """deterministic tables (python level) from the extraction result and the errorlist"""
    names = set()
    for e in X["emitters"]:
        names.add(e["fn"])
    for d in X["dynamic"]:
        names.add(d["fn"])
    for a, b in X["edges"]:
        names.add(a); names.add(b)
    for r in X["roots"]:
        names.add(r)
    fn_names = sorted(names)
    fn_ix = {n: i for i, n in enumerate(fn_names)}
    rows = set()
    for e in X["emitters"]:
        sev = e["sev"] if e["sev"] in SEVS else "unknown"
        origin = "cli" if (e.get("sitefile") or e["file"] or "").startswith(os.path.join(REPO, "cli") + "/") or \
            (e.get("sitefile") or e["file"] or "").startswith(os.path.join(REPO, "frontend") + "/") else "lib"
        rows.add((enc(e["id"]), fn_ix[e["fn"]], sev, origin, e["line"] or 0, e["id"], e["fn"], os.path.relpath(e["file"], REPO) if e["file"] else "?"))
    rows = sorted(rows)
    edges = sorted(set((fn_ix[a], fn_ix[b]) for a, b in X["edges"]))
    roots = sorted(fn_ix[r] for r in X["roots"])
    # order the edges by breadth-first level of the caller: one pass of the Lean `stepBits` then reaches everything reachable
    level = {r: 0 for r in roots}
    frontier = list(roots)
    succ = {}
    for a, b in edges:
        succ.setdefault(a, []).append(b)
    while frontier:
        nxt = []
        for a in frontier:
            for b in succ.get(a, []):
                if b not in level:
                    level[b] = level[a] + 1
                    nxt.append(b)
        frontier = nxt
    edges.sort(key=lambda e: (level.get(e[0], 1 << 30), e[0], e[1]))
    bits = 0
    for r in roots:
        bits |= 1 << r
    for _ in range(PASSES):
        for a, b in edges:
            if (bits >> a) & 1:
                bits |= 1 << b
    dyn = sorted(set((fn_ix[d["fn"]], KIND_LEAN[d["kind"]], d["line"] or 0, d["expr"], os.path.relpath(d["file"], REPO) if d["file"] else "?") for d in X["dynamic"]))
    el = sorted(set(enc(i) for i, _ in elist))
    idnames = sorted(set(r[5] for r in rows) | set(i for i, _ in elist))
    return dict(fn_names=fn_names, rows=rows, edges=edges, roots=roots, dyn=dyn, errorlist=el, idnames=idnames, reached=bits,
                errorlist_names=sorted(set(i for i, _ in elist)))


def lean_str(s):
    return '"' + s.replace("\\", "\\\\").replace('"', '\\"').replace("\n", "\\n") + '"'


def chunked(name, ty, items, per=400):
    """a long list as several definitions (keeps the elaborator's recursion shallow)"""
    out = []
    parts = []
    for k in range(0, max(1, len(items)), per):
        pn = "%s_%d" % (name, k // per)
        parts.append(pn)
        out.append("def %s : List %s := [\n  %s\n]" % (pn, ty, ",\n  ".join(items[k:k + per])))
    out.append("def %s : List %s := %s" % (name, ty, " ++ ".join(parts)))
    return "\n".join(out)


def gen_lean(T, witness):
    L = []
    L.append("import Cppcheck.Model.ErrorIds")
    L.append("/- GENERATED by vlib/props/c28.py from /repo's working tree (lib/*.cpp lib/*.h cli/* frontend/*: text scanner + clang JSON AST)")
    L.append("   and from the output of the built binary's --errorlist — do not edit.  Ids are `enc id` (base-256), functions are indices into fnNames. -/")
    L.append("namespace Cppcheck.Gen.ErrorIds")
    L.append("open Cppcheck.ErrorIds")
    L.append("")
    L.append("/-- nodes of the extracted call graph: qualified name / number of parameters -/")
    L.append(chunked("fnNames", "String", [lean_str(n) for n in T["fn_names"]]))
    L.append("")
    L.append("/-- every id of the tables with its code (display; `enc` of the name is checked by evaluation on every run) -/")
    L.append(chunked("idNames", "(String × Nat)", ["(%s, 0x%x)" % (lean_str(n), enc(n)) for n in T["idnames"]]))
    L.append("")
    L.append("/-- (a) emitters, ascending by id code:  fn, id, severity, origin, line -/")
    L.append(chunked("emitters", "Emitter", ["⟨%d, 0x%x, .%s, .%s, %d⟩ /- %s  %s  %s -/" % (r[1], r[0], r[2], r[3], r[4], r[5].replace("-/", "- /"), r[6], r[7]) for r in T["rows"]]))
    L.append("")
    L.append("/-- (b) call edges (caller, callee) between the extracted functions, incl. the virtual dispatch of Check::getErrorMessages -/")
    L.append(chunked("calls", "(Nat × Nat)", ["(%d, %d)" % e for e in T["edges"]], per=1000))
    L.append("")
    L.append("/-- CppCheck::getErrorMessages -/")
    L.append("def roots : List Nat := [%s]" % ", ".join(str(r) for r in T["roots"]))
    L.append("")
    L.append("/-- bit set of the functions reached from the roots (computed by the translator; Props/C28.lean proves it equals `reachBits calls roots passes`) -/")
    L.append("def reachedLit : Nat := 0x%x" % T["reached"])
    L.append("")
    L.append("/-- (c) id expressions that are dynamic by design -/")
    L.append("def dynRules : List DynRule := [\n  %s\n]" % ",\n  ".join("⟨%d, .%s, %d⟩ /- %s  %s -/" % (d[0], d[1], d[2], d[4], d[3].replace("-/", "- /")) for d in T["dyn"]))
    L.append("")
    L.append("/-- (d) ids printed by the built binary's --errorlist, ascending -/")
    L.append(chunked("errorlistIds", "Nat", ["0x%x /- %s -/" % (enc(n), n) for n in sorted(T["errorlist_names"], key=enc)]))
    L.append("")
    L.append("/-- an id of the emitter table that is neither printed nor exempt (chosen by the translator; `none` when there is none) -/")
    L.append("def witnessUnlisted : Option Nat := %s" % ("none" if witness is None else "some 0x%x /- %s -/" % (enc(witness), witness)))
    L.append("")
    L.append("end Cppcheck.Gen.ErrorIds")
    return "\n".join(L) + "\n"


# =================================================================================================================
# the check
# =================================================================================================================
def row_exempt(r, lists):
    return r[2] in ("debug", "internal") or r[3] == "cli" or r[5] in lists["exemptIds"] or r[5] in lists["infeasibleIds"]


def make_tables(ctx, fresh=False):
    """translator: (tables, extraction result, list of fail-closed problems)"""
    X = extract_all(fresh=fresh)
    problems = list(X["problems"])
    elist, err = errorlist_ids(ctx)
    if err:
        problems.append(err)
        elist = []
    lists, bad = props_lists()
    problems += bad
    T = build_tables(X, elist)
    unl = sorted(set(r[5] for r in T["rows"] if not row_exempt(r, lists) and r[5] not in T["errorlist_names"]), key=enc)
    T["unlisted"] = unl
    T["lists"] = lists
    T["witness"] = unl[0] if unl else None
    return T, X, problems


def translate(ctx):
    """write lean/Cppcheck/Gen/ErrorIds.lean from the current working tree + built binary (also used by --setup)"""
    if not os.path.exists(ctx.cppcheck):
        ctx.build_repo()
    T, X, problems = make_tables(ctx, fresh=False)
    ctx.write_gen("ErrorIds", gen_lean(T, T["witness"]))
    return T, X, problems


BASE_ARGS = ["--enable=all", "--inconclusive", "--xml", "--quiet"]
OPTION_SETS = [
    [],
    ["--std=c89", "--std=c++03"],
    ["--platform=win64"],
    ["--platform=unix32", "--library=posix"],
    ["--library=gnu", "--library=posix"],
    ["--check-level=exhaustive"],
    ["--check-library", "--debug-warnings"],
    ["--library=windows", "--platform=win32A"],
]
ALWAYS = {"checkersReport", "missingInclude", "missingIncludeSystem", "unusedFunction", "unmatchedSuppression", "normalCheckLevelMaxBranches"}


def run_cppcheck(ctx, workdir, args, timeout=120):
    """-> (list of (id, severity), rc, stderr tail)"""
    for attempt in range(20):
        try:
            rc, out, err = core.sh([ctx.cppcheck] + BASE_ARGS + list(args), cwd=workdir, timeout=timeout)
            break
        except OSError:         # the binary is being relinked by a concurrent check of another property
            time.sleep(3)
    else:
        raise core.CheckBroken("cannot execute %s" % ctx.cppcheck)
    ids = []
    for m in re.finditer(r'<error id="([^"]*)" severity="([^"]*)"', err):
        ids.append((m.group(1).replace("&lt;", "<").replace("&gt;", ">").replace("&amp;", "&"), m.group(2)))
    wellformed = "</results>" in err or rc == -999
    return ids, rc, ("" if wellformed else "XML output incomplete: " + err[-200:])


def load_witnesses():
    p = os.path.join(core.VERIF, "corpus", "C28", "witnesses.json")
    return json.load(open(p)) if os.path.exists(p) else []


def materialise(ctx, files, tag):
    d = os.path.join(ctx.tmp, tag)
    os.makedirs(d, exist_ok=True)
    for name, content in files.items():
        open(os.path.join(d, name), "w").write(content)
    return d


def dynamic_match(i):
    """observed ids that belong to a dynamic rule the property exempts"""
    if i.endswith("Called"):
        return "library-function"
    if i.startswith("clang-tidy-"):
        return "clang-tidy"
    if re.match(r"^(misra|cert|y2038|threadsafety|naming|premium)[-A-Za-z0-9_.]*-", i) or re.match(r"^[a-z0-9_]+-[\w.-]+$", i):
        return "addon"
    return None


def snippets(rng, n):
    """small generated programs around constructs that trigger many different emitters (validates the table, searches for unlisted ids)"""
    stmts_c = [
        "int a[5]; a[%d] = 0;", "int *p = 0; *p = %d;", "int x; x = x + %d;", "char *s = malloc(%d); s[0] = 0;", "int y = %d / 0;",
        "unsigned u = %d; if (u < 0) {}", "int z = %d; z = z;", "char b[4]; strcpy(b, \"%dabcdef\");", "FILE *f = fopen(\"%d\", \"r\"); fgetc(f);",
        "int i; for (i = 0; i < %d; i++) { if (i == 1) {} } ", "int k = %d; if (k == 1 && k == 2) {}", "int q = 1 << %d;", "char c = %d; int arr[256]; arr[c] = 0;",
        "int m = %d; switch (m) { case 1: m = 2; case 2: m = 3; break; }", "int *r = malloc(%d * sizeof(int)); r = 0;", "printf(\"%%s %%d\", %d);",
        "int w = %d; if (w = 3) {}", "double d = %d; if (d == 0.1) {}", "int v = %d; return v; v++;", "int t = sizeof(%d);", "memset(a2, 0, sizeof(a2) * %d);",
    ]
    stmts_cpp = [
        "std::vector<int> v(%d); v[%d] = 1;", "std::string s; s.c_str(); if (s.size() == %d) {}", "int *p = new int[%d]; delete p;",
        "std::vector<int> v; for (auto it = v.begin(); it != v.end(); ++it) { v.push_back(%d); }", "auto x = %d; std::string t = std::string(\"a\").substr(%d);",
        "class C%d { public: int m; C%d() {} };", "std::list<int> l; if (l.size() == %d) {}", "int a = %d; int b = std::move(a); (void)a;",
        "struct B%d { virtual void f(); ~B%d() {} };", "char *p = (char*)malloc(%d); delete p;", "throw new int(%d);", "std::map<int,int> m; m[%d]; if (m.find(1) != m.end()) m[1];",
    ]
    out = []
    for k in range(n):
        cpp = rng.random() < 0.5
        pool = stmts_cpp + stmts_c if cpp else stmts_c
        body = []
        for _ in range(rng.randrange(2, 7)):
            st = rng.choice(pool)
            cnt = st.count("%d")
            vals = tuple(rng.choice([0, 1, 2, 5, 10, 31, 32, 64, 100, 255, 300, -1]) for _ in range(cnt))
            try:
                body.append(st % vals)
            except (TypeError, ValueError):
                continue
        hdr = "#include <stdio.h>\n#include <stdlib.h>\n#include <string.h>\n" + ("#include <vector>\n#include <string>\n#include <list>\n#include <map>\n" if cpp else "")
        src = hdr + "int a2[10];\nint f%d(void) {\n  %s\n  return 0;\n}\n" % (k, "\n  ".join(body))
        out.append(("gen%d.%s" % (k, "cpp" if cpp else "c"), src))
    return out


def body_text(scans, qual):
    """whitespace-free text of the (first) function the text layer calls `qual`"""
    for sc in scans.values():
        for f in sc["fns"]:
            if f.qual == qual and f.kind == "fn":
                return re.sub(r"\s+", "", sc["full"][f.body_start:f.body_end + 1])
    return None


def infeasible_guards(X, scans, lists):
    """one structural guard per entry of infeasibleIds: the code shape the infeasibility argument of docs/C28.md relies on"""
    probs = []
    R = X["resolver"]
    want = set(lists["infeasibleIds"])
    known = {"constVariableCallback", "iterateByValueCallback", "uninitDerivedMemberVarNoCtor", "uninitDerivedMemberVarPrivateNoCtor",
             "uninitMemberVarPrivateNoCtor"}
    for i in sorted(want - known):
        probs.append("infeasibleIds entry %s has no guard in vlib/props/c28.py" % i)
    if "constVariableCallback" in want:
        b = body_text(scans, "CheckOther::constVariableError")
        need = ['conststd::stringvartype(var->isArgument()?"Parameter":"Variable");', 'std::stringid="const"+vartype;',
                'if(var->isArgument()&&function&&function->functionPointerUsage){']
        if b is None or any(n not in b for n in need) or b.count('"Callback"') != 1 or \
           not re.search(r'if\(var->isArgument\(\)&&function&&function->functionPointerUsage\)\{[^{}]*id\+="Callback";', b):
            probs.append("constVariableCallback: CheckOther::constVariableError no longer appends \"Callback\" only under var->isArgument() "
                         "(which also selects \"Parameter\")")
    if "iterateByValueCallback" in want:
        b = body_text(scans, "CheckOther::passedByValueError")
        c = body_text(scans, "CheckOther::checkPassByReference")
        if b is None or 'std::stringid=isRangeBasedFor?"iterateByValue":"passedByValue";' not in b or b.count('"Callback"') != 1 or \
           'if(var&&var->scope()&&var->scope()->function&&var->scope()->function->functionPointerUsage){id+="Callback";' not in b:
            probs.append("iterateByValueCallback: CheckOther::passedByValueError no longer appends \"Callback\" only under var->scope()->function")
        if c is None or "constboolisRangeBasedFor=astIsRangeBasedForDecl(var->nameToken());" not in c or \
           len(re.findall(r"passedByValueError\(var,inconclusive,isRangeBasedFor\);", c)) != c.count("passedByValueError("):
            probs.append("iterateByValueCallback: isRangeBasedFor is no longer astIsRangeBasedForDecl(var->nameToken()) at every call of passedByValueError")
    noctor = want & {"uninitDerivedMemberVarNoCtor", "uninitDerivedMemberVarPrivateNoCtor", "uninitMemberVarPrivateNoCtor"}
    if noctor:
        ncalls = 0
        for f in R.list:
            for ev in f["events"]:
                if ev["k"] == "call" and ev.get("name") == "uninitVarError" and len(ev.get("args", [])) == 8:
                    ncalls += 1
                    a = [re.sub(r"\s+", "", x.get("text", "")) for x in ev["args"]]
                    last = "false" if ev["args"][7].get("default") else a[7]
                    if last == "false":
                        continue
                    if last != "true" or a[1] != "false" or a[5] != "false":
                        probs.append("%s: %s:%s calls uninitVarError(noCtor=%s) with isprivate=%s derived=%s" %
                                     ("/".join(sorted(noctor)), os.path.relpath(ev["file"], REPO) if ev.get("file") else "?", ev.get("line"), last, a[1], a[5]))
        if ncalls < 3:
            probs.append("uninit*NoCtor guard: only %d calls of CheckClass::uninitVarError/8 found" % ncalls)
    return probs


def test_suite_ids():
    """ids the repository's own tests expect in messages: `... [someId]\n"` in test/test*.cpp (an independent list of reportable ids)"""
    ids = {}
    for p in sorted(glob.glob(os.path.join(REPO, "test", "test*.cpp"))):
        t = open(p, encoding="utf-8", errors="replace").read()
        for m in re.finditer(r' \[([A-Za-z][A-Za-z0-9_-]*)\](?:\\n)?"', t):
            ids.setdefault(m.group(1), os.path.basename(p))
    return ids


def parse_errors(xml):
    """(id, severity, first file) triples of a cppcheck --xml stream (tolerant: also works on a truncated stream)"""
    out = []
    for m in re.finditer(r'<error id="([^"]*)" severity="([^"]*)"([^>]*)>(.*?)(?=<error |</errors>|\Z)', xml, re.S):
        f0 = re.search(r'file0="([^"]*)"', m.group(3))
        loc = re.search(r'<location file="([^"]*)"', m.group(4))
        fn = (f0.group(1) if f0 else (loc.group(1) if loc else ""))
        out.append((m.group(1).replace("&lt;", "<").replace("&gt;", ">").replace("&amp;", "&"), m.group(2), os.path.basename(fn)))
    return out


def classify(i, T):
    """known-finding classes: the id is one of knownUnlisted of Props/C28.lean AND has a witness in the corpus; the class is the
    emitting class recorded with the witness (one known-finding key per class)"""
    if i not in T["lists"]["knownUnlisted"]:
        return None
    for w in load_witnesses():
        if w["id"] == i and not w.get("fixed"):
            return "unlisted-id:" + w["cls"]
    return None


def run(ctx, res):
    rng = ctx.rng
    thorough = ctx.tier == "thorough"
    t0 = time.time()
    # ---- translator ---------------------------------------------------------------------------------------------
    X = extract_all(fresh=thorough)
    problems = list(X["problems"])
    elist, err = errorlist_ids(ctx)
    if err:
        problems.append(err)
        elist = []
    lists, bad = props_lists()
    problems += bad
    T = build_tables(X, elist)
    T["lists"] = lists
    T["unlisted"] = sorted(set(r[5] for r in T["rows"] if not row_exempt(r, lists) and r[5] not in T["errorlist_names"]), key=enc)
    T["witness"] = T["unlisted"][0] if T["unlisted"] else None
    ctx.write_gen("ErrorIds", gen_lean(T, T["witness"]))
    res.extra["translator"] = dict(functions=X["nfuncs"], candidates=X["ncands"], explained_by_ast=X["explained"], dumps=X["njobs"], dump_cache=X["dump_stats"],
                                   emitters=len(T["rows"]), distinct_ids=len(set(r[5] for r in T["rows"])), call_edges=len(T["edges"]),
                                   errorlist_ids=len(T["errorlist"]), dynamic_rules=len(T["dyn"]), times=X["times"], unlisted_not_exempt=T["unlisted"])
    res.oblig("T:extraction-complete", not problems, "translation",
              "" if not problems else "%d emitting sites / shapes not resolved (fail closed):\n%s" % (len(problems), "\n".join(problems[:40])))
    res.oblig("T:tables-plausible", len(T["rows"]) >= 500 and len(T["errorlist"]) >= 300 and len(T["roots"]) == 1 and len(T["edges"]) >= 1500,
              "translation", "emitters=%d errorlist=%d roots=%d edges=%d" % (len(T["rows"]), len(T["errorlist"]), len(T["roots"]), len(T["edges"])))
    res.assumptions = list(ASSUMPTIONS)
    gp = infeasible_guards(X, X["scans"], lists)
    res.oblig("T:infeasible-ids-guards", not gp, "translation", "\n".join(gp))
    # independent list of reportable ids: what the repository's own tests expect in messages
    table_ids0 = set(r[5] for r in T["rows"])
    active_text = "\n".join(sc["full"] for sc in X["scans"].values())
    raw_text = "\n".join(sc["src"] for sc in X["scans"].values())
    tids = test_suite_ids()
    tmiss, tinactive, tonly = [], [], []
    for i, where in sorted(tids.items()):
        if i in table_ids0 or dynamic_match(i):
            continue
        if re.search(r'(?<![\[\w])\s*"%s"' % re.escape(i), active_text) and re.search(r'[^\[]"%s"' % re.escape(i), active_text):   # not just a JSON / map key `x["..."]`
            tmiss.append("%s (expected by test/%s)" % (i, where))
        elif ('"%s"' % i) in raw_text:
            tinactive.append(i)       # only in code the build configuration compiles out (CHECK_INTERNAL, HAVE_RULES)
        else:
            tonly.append(i)           # test fixture ids that no lib/cli source mentions
    res.extra["test_suite_probe"] = dict(ids_expected_by_tests=len(tids), in_inactive_configuration=tinactive, test_only=tonly)
    res.oblig("T:test-suite-ids-in-emitter-table", not tmiss and len(tids) >= 300, "translation",
              "ids the test-suite expects cppcheck to report, that occur as literals in active lib/cli code, but have no emitter: %s" % tmiss)
    res.oblig("status:full-statement-" + ("refuted-by-witness-" + T["witness"] if T["witness"] else "not-refuted-counterexample-theorem-is-vacuous"),
              True, "translation", "")
    res.extra["translate_s"] = round(time.time() - t0, 1)
    # ---- theorems ------------------------------------------------------------------------------------------------
    core.prove(ctx, res, MODULES, THEOREMS)
    # the codes in the tables are `enc` of the names next to them (evaluated by Lean, not by the kernel)
    rc, out = ctx.lean_run("import Cppcheck.Props.C28\nopen Cppcheck.ErrorIds Cppcheck.Gen.ErrorIds\n"
                           "#eval (idNames ++ exemptIds ++ infeasibleIds ++ knownUnlisted).all (fun p => enc p.1 == p.2)\n"
                           "#eval (emitters.all fun e => idNames.any fun p => p.2 == e.id) && (errorlistIds.all fun i => idNames.any fun p => p.2 == i)\n"
                           "#eval Cppcheck.ErrorIds.passes\n")
    vals = [l.strip() for l in out.split("\n") if l.strip()]
    res.oblig("T:id-codes-are-enc-of-names", rc == 0 and vals[:3] == ["true", "true", str(PASSES)], "translation", out[-400:])
    # knownUnlisted must not exclude more than necessary: every entry is an id of the emitter table
    stale = [i for i in lists["knownUnlisted"] + lists["infeasibleIds"] if i not in set(r[5] for r in T["rows"])]
    # (a note, not an obligation: an emitter that upstream removed must not raise an alarm)
    res.extra["exclusion_list_entries_without_emitter"] = stale

    # ---- correspondence: observed ids of real runs ---------------------------------------------------------------------
    table_ids = set(r[5] for r in T["rows"])
    table_pairs = {}
    for r in T["rows"]:
        table_pairs.setdefault(r[5], set()).add(r[2])
    elset = set(T["errorlist_names"])
    exempt_ids = set(lists["exemptIds"])
    cli_only = set(i for i in table_ids if all(r[3] == "cli" for r in T["rows"] if r[5] == i))
    cases = []
    for w in load_witnesses():
        if w.get("probe"):
            cases.append(dict(tag="p_" + re.sub(r"\W+", "_", w["id"]), files=w["files"], args=w["args"] + w.get("analyse", []), origin="corpus"))
        elif w.get("absent"):
            cases.append(dict(tag="n_" + w["id"], files=w["files"], args=w["args"] + w.get("analyse", []), absent=w["id"], origin="corpus"))
        else:
            cases.append(dict(tag="w_" + w["id"], files=w["files"], args=w["args"] + w.get("analyse", []), expect=w["id"], origin="corpus"))
    samples = sorted(glob.glob(os.path.join(REPO, "samples", "*", "*.c*")))
    cfgs = sorted(glob.glob(os.path.join(REPO, "test", "cfg", "*.c")) + glob.glob(os.path.join(REPO, "test", "cfg", "*.cpp")))
    pick = samples if thorough else rng.sample(samples, min(14, len(samples)))
    for k, p in enumerate(pick):
        opts = OPTION_SETS[k % len(OPTION_SETS)] if not thorough else None
        for oi, o in enumerate(OPTION_SETS if thorough else [opts]):
            cases.append(dict(tag="s%d_%d" % (k, oi), files={os.path.basename(p): open(p, errors="replace").read()}, args=o + [os.path.basename(p)], origin="samples"))
    small_cfg = [p for p in cfgs if os.path.getsize(p) < (400000 if thorough else 30000)]
    for k, p in enumerate(small_cfg if thorough else rng.sample(small_cfg, min(5, len(small_cfg)))):
        lib = os.path.basename(p).split(".")[0]
        o = ["--library=" + lib] if os.path.exists(os.path.join(REPO, "cfg", lib + ".cfg")) else []
        cases.append(dict(tag="c%d" % k, files={os.path.basename(p): open(p, errors="replace").read()}, args=o + ["--check-library", "--debug-warnings", os.path.basename(p)], origin="test/cfg"))
    for k, (name, src) in enumerate(snippets(rng, 120 if thorough else 24)):
        cases.append(dict(tag="g%d" % k, files={name: src}, args=OPTION_SETS[k % len(OPTION_SETS)] + [name], origin="generated"))

    def one(c):
        d = materialise(ctx, c["files"], c["tag"])
        ids, rc, bad = run_cppcheck(ctx, d, c["args"], timeout=300 if thorough else 90)
        return c, ids, rc, bad

    missed, sev_mism, broken, feasible = {}, {}, [], []
    viol = {}
    seen_ids = set()
    with concurrent.futures.ThreadPoolExecutor(max_workers=3) as ex:
        for c, ids, rc, bad in ex.map(one, cases):
            canon = hashlib.sha1(json.dumps([c["files"], c["args"]], sort_keys=True).encode()).hexdigest()
            idset = sorted(set(ids))
            nontriv = any(i not in ALWAYS for i, _ in idset)
            res.case(canon, nontriv, dict(case=c["tag"], origin=c["origin"], args=c["args"], reported=[i for i, _ in idset][:12]) if nontriv and c["origin"] != "corpus" else None)
            res.count("origin:" + c["origin"])
            res.count("ids-per-run:%s" % min(len(idset), 8))
            if bad or rc == -999:
                broken.append("%s: %s" % (c["tag"], bad or "timeout"))
            if c.get("absent") and c["absent"] in [i for i, _ in idset]:
                feasible.append("%s is reported for %s" % (c["absent"], c["tag"]))
            if c.get("expect") and c["expect"] not in [i for i, _ in idset]:
                res.count("witness-no-longer-reports-its-id")
                res.notes.append("witness %s no longer makes cppcheck report %s" % (c["tag"], c["expect"]))
            for (i, sv) in idset:
                seen_ids.add(i)
                dyn = dynamic_match(i) if i not in table_ids else None
                if i not in table_ids and not dyn:
                    missed.setdefault(i, c["tag"])
                if i in table_ids and sv not in table_pairs[i] and "unknown" not in table_pairs[i]:
                    sev_mism.setdefault((i, sv), c["tag"])
                # P_impl: the reported id can be looked up in --errorlist, or is exempt
                ok = i in elset or sv in ("debug", "internal") or i in exempt_ids or i in cli_only or dyn is not None
                if not ok and i not in viol:
                    viol[i] = (c, sv)
            res.traces_validated += 1
    # ---- code literals of /repo/test/test*.cpp (the inputs of the repository's unit tests), in batches through one process each
    from . import c27
    mined = c27.mined_snippets()
    pick = mined if thorough else rng.sample(mined, min(260, len(mined)))
    nb = 0
    for k in range(0, len(pick), 400):
        batch = pick[k:k + 400]
        d = os.path.join(ctx.tmp, "mined%d" % (k // 400))
        os.makedirs(d, exist_ok=True)
        srcs = {}
        for name, base, code in batch:
            open(os.path.join(d, name), "w", encoding="utf-8", errors="replace").write(code)
            srcs[name] = code
        for attempt in range(20):
            try:
                rc, out, err = core.sh([ctx.cppcheck] + BASE_ARGS + ["--check-library", "--debug-warnings", "-j", "4", "."], cwd=d, timeout=1200)
                break
            except OSError:
                time.sleep(3)
        else:
            raise core.CheckBroken("cannot execute %s" % ctx.cppcheck)
        nb += 1
        if rc == -999:
            res.count("mined-batch-timeout")
        per_file = {}
        for (i, sv, fn) in parse_errors(err):
            per_file.setdefault(fn, set()).add((i, sv))
            seen_ids.add(i)
            dyn = dynamic_match(i) if i not in table_ids else None
            c = dict(tag="m_" + fn, files={fn: srcs.get(fn, "")} if fn in srcs else dict(list(srcs.items())[:1]), args=["--check-library", "--debug-warnings", fn or "."], origin="mined")
            if i not in table_ids and not dyn:
                missed.setdefault(i, c["tag"])
            if i in table_ids and sv not in table_pairs[i] and "unknown" not in table_pairs[i]:
                sev_mism.setdefault((i, sv), c["tag"])
            ok = i in elset or sv in ("debug", "internal") or i in exempt_ids or i in cli_only or dyn is not None
            if not ok and i not in viol:
                viol[i] = (c, sv)
            if i in lists["infeasibleIds"]:
                feasible.append("%s is reported for mined snippet %s" % (i, fn))
        for name, base, code in batch:
            got = sorted(per_file.get(name, ()))
            nontriv = any(i not in ALWAYS for i, _ in got)
            res.case("mined|" + name, nontriv, dict(case=name, origin="test/test%s.cpp" % base, reported=[i for i, _ in got][:10]) if nontriv and len(res.samples) < 10 else None)
            res.count("origin:mined")
        res.traces_validated += len(batch)
    res.oblig("T:infeasible-ids-stay-unreported", not feasible, "correspondence", "; ".join(feasible[:5]))
    # how much of the table the runs exercised (the tie is one-directional: only reported ids are compared)
    nonexempt = sorted(set(r[5] for r in T["rows"] if not row_exempt(r, lists)))
    never = [i for i in nonexempt if i not in seen_ids]
    frac = 1.0 - len(never) / max(1, len(nonexempt))
    res.extra["non_exempt_ids"] = len(nonexempt)
    res.extra["non_exempt_ids_observed_fraction"] = round(frac, 3)
    res.extra["non_exempt_ids_never_observed"] = never
    if thorough:
        res.oblig("C:thorough-corpus-exercises-the-table", frac >= COVERAGE_FLOOR, "correspondence",
                  "only %.0f%% of the %d non-exempt table ids were reported by some run (floor %.0f%%); never observed: %s" %
                  (100 * frac, len(nonexempt), 100 * COVERAGE_FLOOR, never[:40]))
    res.extra["distinct_ids_observed"] = len(seen_ids)
    res.extra["runs"] = len(cases) + nb
    res.extra["mined_snippets_run"] = len(pick)
    res.oblig("C:observed-ids-in-emitter-table", not missed, "correspondence",
              "" if not missed else "cppcheck reported ids the translator has no emitter for (a site was missed): %s" % sorted(missed.items())[:8])
    res.oblig("C:observed-severities-in-emitter-table", not sev_mism, "correspondence",
              "" if not sev_mism else "reported (id, severity) pairs that no emitter of the table has: %s" % sorted((k, v) for k, v in sev_mism.items())[:8])
    res.oblig("C:runs-wellformed", not broken, "correspondence", "; ".join(broken[:5]))
    for i, (c, sv) in sorted(viol.items()):
        key = classify(i, T)
        res.violation("cppcheck reports id '%s' (severity %s) for %s but --errorlist does not print it" % (i, sv, c["tag"]),
                      dict(id=i, severity=sv, files=c["files"], args=c["args"],
                           replay_cmd="./check.py C28 --replay <this file>"), concrete=True, key=key)
    # ---- search when an obligation broke and nothing concrete is known yet: target the unlisted ids ---------------------------
    if any(not o["ok"] for o in res.obligations) and not any(v["key"] is None for v in res.violations):
        new = [i for i in T["unlisted"] if i not in lists["knownUnlisted"]]
        res.extra["search_unlisted_without_witness"] = new
        # the corpus / sample runs above are the search; name the emitters so that a witness can be written
        for i in new[:10]:
            sites = sorted(set("%s:%d (%s)" % (r[7], r[4], r[6]) for r in T["rows"] if r[5] == i))
            res.notes.append("unlisted id %s emitted at %s" % (i, "; ".join(sites[:3])))
        res.extra["notes"] = res.notes[-20:]


def replay(ctx, res, rp):
    elist, err = errorlist_ids(ctx)
    elset = set(i for i, _ in (elist or []))
    d = materialise(ctx, rp["files"], "replay")
    ids, rc, bad = run_cppcheck(ctx, d, rp["args"])
    got = [i for i, _ in ids]
    still = rp["id"] in got and rp["id"] not in elset
    print("replay: cppcheck %s -> ids %s; '%s' in --errorlist: %s" % (" ".join(rp["args"]), sorted(set(got)), rp["id"], rp["id"] in elset))
    if still:
        print("VIOLATION property=C28 replay=(replayed) id '%s' is reported but not printed by --errorlist" % rp["id"])
    return 1 if still else 0

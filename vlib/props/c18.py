"""C18 — incremental analysis is transparent across edit histories.

Obligations
  theorems     Cppcheck.Cache.* in Props/C18.lean (for every hash / analysis / whole-program function); current_encoding_fixed,
               current_lookup_exact, current_toolinfo_path_first tie the main theorem to the translated code
  T1           translator: CppCheck::calculateHash (toolinfo chain) and Preprocessor::calculateHash (per-token fields, header
               fields, start of hashData) -> Gen/HashInput.lean; closed grammar, fails closed; getAnalyzerInfoFileFromFilesTxt
               classified as one of the two modelled lookups
  C1           in-process: real CppCheck::calculateHash on lexed files == std::hash(model preimage) (harness hashes the model's bytes)
  C2           in-process: getFilesTxt / getAnalyzerInfoFile / skipAnalysis == model
  C3           CLI histories: the model's reuse decision per file and run == what --debug-analyzerinfo prints
P_impl         every run of a history with --cppcheck-build-dir reports what a run without build dir reports on the same tree
"""
import json, os, re, shutil, hashlib
from .. import core, build_repo

ID = "C18"
LEVEL = "proof"
RULE = ("in-process cases = (settings, suppressions, source + headers) -> cache key; CLI cases = one run of an edit history "
        "(token edits, line/column shifts of 1/255/256/257/512, comment-only edits, inline suppressions, header edits, "
        "add/remove/rename/touch, -j1/-j2); non-trivial = the file has >= 3 code tokens resp. the run follows an edit and a file is reused or re-analysed")
EXPLANATION = ("Lean: for every hash function, per-file analysis, summaries and whole-program analysis, every run of every edit history over "
               "one build directory reports what a run without build directory reports (history_transparent_partial), given that no two hash inputs "
               "OF THE HISTORY collide (HashInjOn - satisfiable by a lossy hash, shown by example, and necessary, shown by counterexample), no path "
               "listed twice, and excluding two defects that remain in the code and are proved and replayed as counterexamples: macro-scoped "
               "suppressions are not re-applied to replayed findings, function-return summaries (*.sN) are not part of the key. The hash data the code "
               "composes (translated on every run from the two calculateHash functions) is proved uniquely decodable; the files.txt mapping is proved "
               "injective; a run is proved independent of the order in which the workers finish the files (run_any_worker_order: one file = one atomic "
               "step on its own cache file) - two workers inside one cache file and the extra in-memory whole-program pass of -j1 are not modelled "
               "(P_impl runs half of the CLI runs with -j2). The pre-repair composition / lookup are kept as counterexample theorems (72c97eb, 249f096). "
               "Tie: translation + in-process hashing of the model's bytes against the real functions + reuse decisions of CLI histories. The analysis "
               "itself (that it is a function of path, non-comment tokens, header names and options - see assumptions) is a parameter of the theorems, "
               "not verified; the contents of library files named by --library are outside that input (known finding library-file-contents-not-in-key).")
ASSUMPTIONS = [
    "the per-file analysis is a function of: file path, non-comment raw tokens with line/column of the file and of every loaded header, header names, "
    "the option values, Settings::summaryReturn (World.analyze : SummRet -> View -> findings); anything else it reads is outside the theorems",
    "not in View and therefore not in the key: which headers are ABSENT (include search misses, __has_include), contents of library .cfg files "
    "(demonstrated: known finding library-file-contents-not-in-key), of platform files, addon scripts, --rule-file, the environment, time limits",
    "no two hash inputs that occur in one history collide under std::hash<std::string> (HashInjOn)",
    "the build directory starts empty or holds only files written by this binary (toolinfo contains the version string / product name)",
    "paths are simplified (Path::simplifyPath is the identity on them); command line files only (cfg and fsFileId columns of files.txt empty)",
    "each file is one atomic step of a worker; two workers writing one cache file concurrently are not modelled",
]
THEOREMS = ["Cppcheck.Cache." + t for t in (
    "history_transparent_partial", "history_transparent_generic", "history_transparent_perFile_generic",
    "fixed_key_faithful", "render_pathPrefixed", "files_txt_mapping_injective", "files_txt_mapping_injective_partial",
    "encoding_not_injective", "linecol_mod_256_counterexample", "file_boundary_counterexample", "suffix_lookup_shares_cache_file",
    "suffix_lookup_counterexample", "removed_file_counterexample", "macro_suppression_counterexample", "summaries_counterexample",
    "current_encoding_fixed", "current_lookup_exact", "current_reader_all", "cachedErrors_all", "cachedErrors_any_interleaving",
    "errorPrefix_reader_counterexample", "entry_findings_from_document", "current_toolinfo_path_first", "current_toolinfo_fields_known",
    "hashInput_fixed_unique", "ofSettings_pathPrefixed", "run_any_worker_order", "hash_collision_counterexample")]
MODULES = ["Cppcheck.Props.C18"]


class Unrecognised(Exception):
    pass


# ---- translator ------------------------------------------------------------------------------------------------------

def strip_comments(s):
    out, i = "", 0
    while i < len(s):
        if s.startswith("//", i):
            j = s.find("\n", i)
            i = len(s) if j < 0 else j
        elif s.startswith("/*", i):
            j = s.find("*/", i + 2)
            if j < 0:
                raise Unrecognised("unterminated comment")
            i = j + 2
        elif s[i] == '"' or s[i] == "'":
            q = s[i]; j = i + 1
            while j < len(s) and s[j] != q:
                j += 2 if s[j] == "\\" else 1
            out += s[i:j + 1]; i = j + 1
        else:
            out += s[i]; i += 1
    return out


def function_body(src, header_re):
    m = re.search(header_re, src)
    if not m:
        raise Unrecognised("function not found: " + header_re)
    i = src.index("{", m.end() - 1)
    depth, j = 0, i
    while j < len(src):
        c = src[j]
        if c == '"' or c == "'":
            k = j + 1
            while src[k] != c:
                k += 2 if src[k] == "\\" else 1
            j = k
        elif c == "{":
            depth += 1
        elif c == "}":
            depth -= 1
            if depth == 0:
                return src[i + 1:j]
        j += 1
    raise Unrecognised("unbalanced braces")


def norm(s):
    s = re.sub(r"\s+", " ", s).strip()
    return s


def statements(body):
    """split a body into top level statements: simple `…;` or (`for (…)` | `if (…)`) + block/statement"""
    res, i, n = [], 0, len(body)
    while i < n:
        while i < n and body[i].isspace():
            i += 1
        if i >= n:
            break
        m = re.match(r"(for|if)\s*\(", body[i:])
        if m:
            j = i + m.end() - 1
            depth = 0
            while True:
                if body[j] == "(":
                    depth += 1
                elif body[j] == ")":
                    depth -= 1
                    if depth == 0:
                        break
                j += 1
            head = norm(body[i:j + 1])
            k = j + 1
            while body[k].isspace():
                k += 1
            if body[k] == "{":
                depth, e = 0, k
                while True:
                    if body[e] == "{":
                        depth += 1
                    elif body[e] == "}":
                        depth -= 1
                        if depth == 0:
                            break
                    e += 1
                res.append((head, statements(body[k + 1:e])))
                i = e + 1
            else:
                e = k
                while body[e] != ";":
                    if body[e] in "\"'":
                        q = body[e]; e += 1
                        while body[e] != q:
                            e += 2 if body[e] == "\\" else 1
                    e += 1
                res.append((head, statements(body[k:e + 1])))
                i = e + 1
        else:
            depth, e = 0, i
            while True:
                if e >= n:
                    raise Unrecognised("statement without ';': " + body[i:i + 60])
                c = body[e]
                if c in "\"'":
                    k = e + 1
                    while body[k] != c:
                        k += 2 if body[k] == "\\" else 1
                    e = k
                elif c in "({":
                    depth += 1
                elif c in ")}":
                    depth -= 1
                elif c == ";" and depth == 0:
                    break
                e += 1
            res.append(norm(body[i:e]))
            i = e + 1
    return res


def split_top(s, sep):
    parts, depth, cur, i = [], 0, "", 0
    while i < len(s):
        c = s[i]
        if c in "\"'":
            k = i + 1
            while s[k] != c:
                k += 2 if s[k] == "\\" else 1
            cur += s[i:k + 1]; i = k + 1; continue
        if c in "(":
            depth += 1
        elif c in ")":
            depth -= 1
        if depth == 0 and s.startswith(sep, i):
            parts.append(cur.strip()); cur = ""; i += len(sep); continue
        cur += c; i += 1
    parts.append(cur.strip())
    return parts


def settings_field_types(repo):
    """`name -> declared type` for the plain data members of class Settings (lib/settings.h)"""
    src = strip_comments(open(os.path.join(repo, "lib", "settings.h")).read())
    types = {}
    for m in re.finditer(r"^\s*((?:std::)?[A-Za-z_][\w:<>, ]*?)\s+(\w+)\s*(?:\{[^}]*\}|=[^;]*)?;", src, re.M):
        types.setdefault(m.group(2), norm(m.group(1)))
    return types


def char_lit(s):
    m = re.match(r"^'(\\.|[^'\\])'$", s)
    if not m:
        return None
    c = m.group(1)
    if len(c) == 2:
        c = {"\\n": "\n", "\\t": "\t", "\\\\": "\\", "\\'": "'", "\\0": "\0"}.get(c)
    return c


def lean_char(c):
    return "Char.ofNat %d" % ord(c)


def lean_str(s):
    return '"%s"' % s.replace("\\", "\\\\").replace('"', '\\"')


def toolinfo_atom(e, types):
    e = e.strip()
    if e == "(mSettings.cppcheckCfgProductName.empty() ? CPPCHECK_VERSION_STRING : mSettings.cppcheckCfgProductName)":
        return [("productOrVersion",)]
    m = re.match(r"^\(mSettings\.severity\.isEnabled\(Severity::(\w+)\) \? ('.'|'\\.') : ' '\)$", e)
    if m:
        return [("sevFlag", m.group(1), char_lit(m.group(2)))]
    m = re.match(r"^\(mSettings\.(certainty|checks)\.isEnabled\((Certainty|Checks)::(\w+)\) \? ('.'|'\\.') : ' '\)$", e)
    if m and (m.group(1), m.group(2)) in (("certainty", "Certainty"), ("checks", "Checks")):
        return [("groupFlag", m.group(1), m.group(3), char_lit(m.group(4)))]
    m = re.match(r"^mSettings\.(\w+)\.(\w+)\(\)$", e)
    if m:
        if (m.group(1), m.group(2)) not in (("standards", "getC"), ("standards", "getCPP"), ("platform", "toString")):
            raise Unrecognised("call streamed into toolinfo: " + e)
        return [("callField", m.group(1), m.group(2))]
    m = re.match(r"^\(mSettings\.(\w+) \? ('.'|'\\.') : ' '\)$", e)
    if m:
        if types.get(m.group(1)) != "bool":
            raise Unrecognised("flag on a non-bool Settings member: " + e)
        return [("boolFlag", m.group(1), char_lit(m.group(2)))]
    m = re.match(r"^mSettings\.(\w+)$", e)
    if m:
        t = types.get(m.group(1))
        if t == "std::string":
            return [("strField", m.group(1))]
        if t == "int":
            return [("intField", m.group(1))]
        raise Unrecognised("Settings member %s of type %r streamed into toolinfo" % (m.group(1), t))
    m = re.match(r"^std::to_string\(static_cast<std::uint8_t>\(mSettings\.(\w+)\)\)$", e)
    if m:
        return [("enumField", m.group(1))]
    if e == "filePath.size()":
        return [("filePathLen",)]
    if e == "filePath":
        return [("filePath",)]
    c = char_lit(e)
    if c is not None:
        return [("lit", c)]
    raise Unrecognised("toolinfo operand: " + e)


def translate_toolinfo(repo):
    src = strip_comments(open(os.path.join(repo, "lib", "cppcheck.cpp")).read())
    body = function_body(src, r"std::size_t\s+CppCheck::calculateHash\s*\(\s*const\s+Preprocessor\s*&\s*preprocessor\s*,\s*const\s+std::string\s*&\s*filePath\s*\)\s*const\s*\{")
    types = settings_field_types(repo)
    st = statements(body)
    if not st or st[0] != "std::ostringstream toolinfo":
        raise Unrecognised("first statement: %r" % (st[:1],))
    if st[-1] != "return preprocessor.calculateHash(toolinfo.str())":
        raise Unrecognised("last statement: %r" % (st[-1],))
    items = []
    for s in st[1:-1]:
        if isinstance(s, tuple):
            head, inner = s
            m = re.match(r"^for \(const std::string &(\w+) : mSettings\.(\w+)\)$", head)
            if m:
                t = types.get(m.group(2), "")
                mm = len(inner) == 1 and isinstance(inner[0], str) and re.match(r"^toolinfo << %s << ('.'|'\\.')$" % m.group(1), inner[0])
                if not mm or not re.match(r"^std::(set|vector|list)<std::string>$", t):
                    raise Unrecognised("string collection loop: %s { %r } over a member of type %r" % (head, inner, t))
                items.append(("strSetField", m.group(2), char_lit(mm.group(1))))
                continue
            if head != "for (const auto &a : mSettings.addonInfos)":
                raise Unrecognised("block: " + head)
            fields = []
            for t in inner:
                m = isinstance(t, str) and re.match(r"^toolinfo << a\.(\w+)$", t)
                if not m:
                    raise Unrecognised("addon loop statement: %r" % (t,))
                fields.append(m.group(1))
            items.append(("addonInfos", fields))
        elif s == "mSuppressions.nomsg.dump(toolinfo, filePath)":
            items.append(("supprDump",))
        elif s.startswith("toolinfo << "):
            for part in split_top(s[len("toolinfo << "):], "<<"):
                items += toolinfo_atom(part, types)
        else:
            raise Unrecognised("statement: " + s)
    return items


TOK_APPEND = {
    "tok->str()": "str", "std::to_string(tok->str().size())": "strLen",
    "static_cast<char>(tok->location.line)": "lineChar", "static_cast<char>(tok->location.col)": "colChar",
    "std::to_string(tok->location.line)": "lineDec", "std::to_string(tok->location.col)": "colDec",
}
HDR_APPEND = {"filedata->filename": "name", "std::to_string(filedata->filename.size())": "nameLen"}


def appends(stmts, table, what):
    out = []
    for s in stmts:
        m = isinstance(s, str) and re.match(r"^hashData \+= (.*)$", s)
        if not m:
            raise Unrecognised("%s statement: %r" % (what, s))
        e = m.group(1).strip()
        if e in table:
            out.append((table[e],))
        elif char_lit(e) is not None:
            out.append(("lit", char_lit(e)))
        else:
            raise Unrecognised("%s operand: %s" % (what, e))
    return out


def token_loop(s, head):
    if not isinstance(s, tuple) or s[0] != head:
        raise Unrecognised("expected loop %r, got %r" % (head, s if isinstance(s, str) else s[0]))
    inner = s[1]
    if len(inner) != 1 or not isinstance(inner[0], tuple) or inner[0][0] != "if (!tok->comment)":
        raise Unrecognised("token loop body of %r is not a single `if (!tok->comment)`" % head)
    return appends(inner[0][1], TOK_APPEND, "token")


def translate_preimage(repo):
    src = strip_comments(open(os.path.join(repo, "lib", "preprocessor.cpp")).read())
    body = function_body(src, r"std::size_t\s+Preprocessor::calculateHash\s*\(\s*const\s+std::string\s*&\s*toolinfo\s*\)\s*const\s*\{")
    st = statements(body)
    if len(st) != 4:
        raise Unrecognised("Preprocessor::calculateHash has %d top level statements, expected 4" % len(st))
    m = isinstance(st[0], str) and re.match(r"^std::string hashData = (.*)$", st[0])
    if not m:
        raise Unrecognised("first statement: %r" % (st[0],))
    pre = []
    for part in split_top(m.group(1), "+"):
        if part == "toolinfo":
            pre.append(("toolinfo",))
        elif part == "std::to_string(toolinfo.size())":
            pre.append(("toolinfoLen",))
        elif char_lit(part) is not None:
            pre.append(("lit", char_lit(part)))
        else:
            raise Unrecognised("hashData initialiser operand: " + part)
    tok_main = token_loop(st[1], "for (const simplecpp::Token *tok = mTokens.cfront(); tok; tok = tok->next)")
    if not isinstance(st[2], tuple) or st[2][0] != "for (const auto &filedata : mFileCache)":
        raise Unrecognised("third statement is not the mFileCache loop")
    inner = st[2][1]
    if not inner:
        raise Unrecognised("empty mFileCache loop")
    hdr = appends(inner[:-1], HDR_APPEND, "header")
    tok_hdr = token_loop(inner[-1], "for (const simplecpp::Token *tok = filedata->tokens.cfront(); tok; tok = tok->next)")
    if tok_hdr != tok_main:
        raise Unrecognised("the token fields of the source file %r and of the headers %r differ" % (tok_main, tok_hdr))
    if st[3] != "return (std::hash<std::string>{})(hashData)":
        raise Unrecognised("last statement: %r" % (st[3],))
    return pre, tok_main, hdr


LOOKUP_SHAPES = {
    # pinned commit
    "std::string line; while (std::getline(filesTxt,line)) { AnalyzerInformation::Info filesTxtInfo; if (!filesTxtInfo.parse(line)) continue; "
    "if (endsWith(sourcefile, filesTxtInfo.sourceFile) && filesTxtInfo.cfg == cfg && filesTxtInfo.fsFileId == fsFileId) return filesTxtInfo.afile; } return \"\";": "suffixFirst",
    # /verif/proposed/C18-filestxt-exact.diff
    "std::string fallback; std::string line; while (std::getline(filesTxt,line)) { AnalyzerInformation::Info filesTxtInfo; if (!filesTxtInfo.parse(line)) continue; "
    "if (filesTxtInfo.cfg != cfg || filesTxtInfo.fsFileId != fsFileId) continue; if (sourcefile == filesTxtInfo.sourceFile) return filesTxtInfo.afile; "
    "if (fallback.empty() && endsWith(sourcefile, '/' + filesTxtInfo.sourceFile)) fallback = filesTxtInfo.afile; } return fallback;": "exactFirst",
}


def translate_lookup(repo):
    src = strip_comments(open(os.path.join(repo, "lib", "analyzerinfo.cpp")).read())
    body = norm(function_body(src, r"std::string\s+AnalyzerInformation::getAnalyzerInfoFileFromFilesTxt\s*\([^)]*\)\s*\{"))
    if body not in LOOKUP_SHAPES:
        raise Unrecognised("getAnalyzerInfoFileFromFilesTxt has neither of the two modelled shapes: " + body[:300])
    return LOOKUP_SHAPES[body]


def translate_reader(repo):
    """AnalyzerInformation::skipAnalysis: the loop over the children of the root must visit every child and skip (not stop at) the ones
    that are not <error>"""
    src = strip_comments(open(os.path.join(repo, "lib", "analyzerinfo.cpp")).read())
    body = function_body(src, r"std::string\s+AnalyzerInformation::skipAnalysis\s*\([^)]*\)\s*\{")
    loops = [st for st in statements(body) if isinstance(st, tuple) and st[0].startswith("for ")]
    if len(loops) != 1:
        raise Unrecognised("skipAnalysis has %d top level loops, expected the one over the children of the root" % len(loops))
    head, inner = loops[0]
    if head != "for (const tinyxml2::XMLElement *e = rootNode->FirstChildElement(); e; e = e->NextSiblingElement())":
        raise Unrecognised("skipAnalysis does not iterate over all children of the root: " + head)
    if not inner or inner[0] != ('if (std::strcmp(e->Name(), "error") != 0)', ["continue"]):
        raise Unrecognised("skipAnalysis: the first statement of the loop is not `if (strcmp(e->Name(), \"error\") != 0) continue;`: %r" % (inner[:1],))
    if inner[-1] != "errors.emplace_back(e)":
        raise Unrecognised("skipAnalysis: the loop does not end with errors.emplace_back(e): %r" % (inner[-1:],))
    for st in inner[1:-1]:
        if isinstance(st, tuple) and st[0] == "for (const auto* id : s_ids)":
            continue
        if isinstance(st, str) and st.startswith("static const std::array<const char*, 3> s_ids"):
            continue
        raise Unrecognised("skipAnalysis: unrecognised statement in the loop: %r" % (st,))
    return "allChildren"


def lean_item(t):
    k = t[0]
    if k in ("sevFlag", "boolFlag"):
        return ".%s %s (%s)" % (k, lean_str(t[1]), lean_char(t[2]))
    if k in ("strField", "intField", "enumField"):
        return ".%s %s" % (k, lean_str(t[1]))
    if k == "addonInfos":
        return ".addonInfos [%s]" % ", ".join(lean_str(f) for f in t[1])
    if k == "groupFlag":
        return ".groupFlag %s %s (%s)" % (lean_str(t[1]), lean_str(t[2]), lean_char(t[3]))
    if k == "strSetField":
        return ".strSetField %s (%s)" % (lean_str(t[1]), lean_char(t[2]))
    if k == "callField":
        return ".callField %s %s" % (lean_str(t[1]), lean_str(t[2]))
    if k == "lit":
        return ".lit (%s)" % lean_char(t[1])
    return "." + k


def gen_text(items, pre, tok, hdr, lk, reader="allChildren"):
    L = ["import Cppcheck.Model.Cache",
         "/- GENERATED by vlib/props/c18.py from CppCheck::calculateHash (lib/cppcheck.cpp), Preprocessor::calculateHash",
         "   (lib/preprocessor.cpp) and AnalyzerInformation::getAnalyzerInfoFileFromFilesTxt (lib/analyzerinfo.cpp) — do not edit -/",
         "namespace Cppcheck.Gen.HashInput", "open Cppcheck.Cache", "",
         "/-- the `toolinfo << …` chain of CppCheck::calculateHash, in order -/",
         "def toolinfoItems : List ToolItem := [",
         ",\n".join("  " + lean_item(t) for t in items), "]", "",
         "/-- Preprocessor::calculateHash: start of hashData, per-token appends, per-header appends -/",
         "def encoding : Encoding :=",
         "  { pre := [%s]," % ", ".join(lean_item(t) for t in pre),
         "    tok := [%s]," % ", ".join(lean_item(t) for t in tok),
         "    hdr := [%s] }" % ", ".join(lean_item(t) for t in hdr), "",
         "/-- getAnalyzerInfoFileFromFilesTxt -/",
         "def lookupKind : LookupKind := .%s" % lk, "",
         "/-- AnalyzerInformation::skipAnalysis: how the children of the cache document are visited -/",
         "def errorReader : ReaderKind := .%s" % reader, "",
         "end Cppcheck.Gen.HashInput", ""]
    return "\n".join(L)


def extract(repo=None):
    repo = repo or core.REPO
    items = translate_toolinfo(repo)
    pre, tok, hdr = translate_preimage(repo)
    lk = translate_lookup(repo)
    reader = translate_reader(repo)
    return items, pre, tok, hdr, lk, reader


FALLBACK = gen_text([], [], [], [], "suffixFirst", "errorPrefix")


def translate(ctx):
    """writes Gen/HashInput.lean; returns (ok, detail, extraction).  Each of the four extractions fails closed on its own: the part that is
    not recognised is written as the composition / lookup / reader no theorem about the current code can be discharged over."""
    repo = core.REPO
    parts, errs = {}, []
    for name, fn, fallback in (("toolinfo", translate_toolinfo, []), ("preimage", translate_preimage, ([], [], [])),
                               ("lookup", translate_lookup, "suffixFirst"), ("reader", translate_reader, "errorPrefix")):
        try:
            parts[name] = fn(repo)
        except (Unrecognised, OSError, ValueError, IndexError) as e:
            parts[name] = fallback
            errs.append("%s: unrecognised shape: %s" % (name, e))
    pre, tok, hdr = parts["preimage"]
    ex = (parts["toolinfo"], pre, tok, hdr, parts["lookup"], parts["reader"])
    ctx.write_gen("HashInput", gen_text(*ex))
    return (not errs), "; ".join(errs), (ex if not errs else None)


# ---- in-process correspondence ------------------------------------------------------------------------------------------

STMTS = ["int x;", "void f(void){int a[2]; a[5]=0;}", "char *s = \"a b\\x01;\";", "x = 'c' + 1;", "#define M(a) a[5]=0",
         "struct S { int m; };", "int y = x<<2;", "void g(int*p){*p=0;}", "#ifdef A", "#endif", "return;", "s = \"\xe9t\xe9 1:1;\";",
         "#line 300", "a  =  b;", "#pragma once", "x = 1:1;2:3;"]
COMMENTS = ["", "", "", " // c", " /* x */", " // cppcheck-suppress foo", " // cppcheck-suppress[bar,baz]", " /* multi\nline */"]
SUPPS = ["foo", "bar:m.c", "baz:m.c:3", "*:h0.h", "nullPointer:*.c:7", "qux:other.c"]
PATHS = ["a.c", "b.c", "ba.c", "d/a.c", "d/e/a.c", "e/a.c", "x.y.c", "noext", "d.x/a", "a.cpp", "d/b.c", "cb.c", "d/ba.c", "a.c.c", "x.a1.c", "x.c"]


def gen_text_file(rng, includes, big=True):
    shifts = [1, 2, 255, 256, 257, 512] if big else [1, 2, 3]
    lines = []
    if rng.random() < 0.3:
        lines += [""] * rng.choice(shifts)
    for h in includes:
        lines.append('#include "%s"' % h)
    for _ in range(rng.randint(0, 5)):
        ind = " " * (rng.choice(shifts + [0, 0, 0, 4]) if rng.random() < 0.5 else 0)
        lines.append(ind + rng.choice(STMTS) + rng.choice(COMMENTS))
        if rng.random() < 0.1:
            lines += [""] * rng.choice(shifts)
    return "\n".join(lines) + ("\n" if rng.random() < 0.9 else "")


def parse_toks(f, i):
    n = int(f[i]); i += 1
    toks = []
    for _ in range(n):
        toks.append((f[i], int(f[i + 1]), int(f[i + 2]), f[i + 3])); i += 4
    return toks, i


def parse_k(line):
    """harness `k` line -> dict(hash, dump, main, headers) (strings stay hex)"""
    f = line.split(" ")
    if f[0] != "k" or f[3] != "O" or f[7] != "M":
        raise core.CheckBroken("C18 harness line: " + line[:200])
    main, i = parse_toks(f, 8)
    if f[i] != "H":
        raise core.CheckBroken("C18 harness line (H): " + line[:200])
    nh = int(f[i + 1]); i += 2
    hdrs = []
    for _ in range(nh):
        name = f[i]; toks, i = parse_toks(f, i + 1)
        hdrs.append((name, toks))
    return dict(hash=f[1], dump=f[2], stdc=f[4], stdcpp=f[5], platform=f[6], main=main, headers=hdrs)


def files_wire(main, hdrs):
    w = ["M", str(len(main))] + [x for t in main for x in (t[0], str(t[1]), str(t[2]), t[3])]
    w += ["H", str(len(hdrs))]
    for name, toks in hdrs:
        w += [name, str(len(toks))] + [x for t in toks for x in (t[0], str(t[1]), str(t[2]), t[3])]
    return " ".join(w)


def key_cases(ctx, res, exe, drv, n):
    """C1: the real cache key of n generated (settings, files) cases against std::hash of the model's preimage"""
    rng = ctx.rng
    root = os.path.join(ctx.tmp, "k")
    os.makedirs(root, exist_ok=True)
    rc, out, err = core.run_lines([exe, root], [], ["V"])
    version = out[0].split(" ")[1]
    kops, metas = [], []
    for k in range(n):
        d = os.path.join(root, "c%d" % k)
        os.makedirs(os.path.join(d, "d"))
        nh = rng.choice([0, 0, 1, 1, 2])
        hdrs = ["h%d.h" % j for j in range(nh)]
        main = rng.choice(["m.c", "d/m.c", "m.c"])
        inc = [("../" + h if main.startswith("d/") else h) for h in hdrs]
        if nh == 2 and rng.random() < 0.5:          # nested include
            open(os.path.join(d, hdrs[0]), "w", encoding="latin-1").write('#include "h1.h"\n' + gen_text_file(rng, []))
            inc = inc[:1]
        elif nh:
            open(os.path.join(d, hdrs[0]), "w", encoding="latin-1").write(gen_text_file(rng, []))
        if nh == 2:
            open(os.path.join(d, hdrs[1]), "w", encoding="latin-1").write(gen_text_file(rng, []))
        open(os.path.join(d, main), "w", encoding="latin-1").write(gen_text_file(rng, inc))
        sev = "".join(rng.choice("01") for _ in range(5))
        ud = rng.choice(["", "", "A=1", "A=1;B", "X=1  2"])
        cc, force = rng.choice("01"), rng.choice("01")
        maxcfg = rng.choice([0, 1, 12, 2, 100, -1])
        level = rng.choice([0, 1, 2])
        prod = rng.choice(["", "", "Cppcheck Premium 1.0"])
        prem = rng.choice(["", "", "--misra-c-2012", "--cert"])
        addons = [(rng.choice(["misra", "y2038.py", "a b"]), rng.choice(["", "--x", "--rule-texts=f"])) for _ in range(rng.choice([0, 0, 1, 2]))]
        supps = rng.sample(SUPPS, rng.choice([0, 0, 1, 2]))
        rmc, inl = rng.choice("01"), rng.choice("01")
        # options that are not part of the key at the pinned commit (they must then not move the hash)
        flags = [rng.choice("01") for _ in range(3)]
        undefs = rng.sample(["A", "B", "X1"], rng.choice([0, 0, 1, 2]))
        std = rng.choice(["", "", "c89", "c11", "c++11", "c++20"])
        plat = rng.choice([1, 1, 2, 4, 5, 6])
        libs = rng.sample(["posix", "gnu", "qt"], rng.choice([0, 0, 1, 2]))
        op = ["K", core.hx(d), core.hx(main), rmc, inl, sev, core.hx(ud), cc, force, str(maxcfg), str(level), core.hx(prod), core.hx(prem),
              str(len(addons))] + [core.hx(x) for a in addons for x in a] + [str(len(supps))] + [core.hx(x) for x in supps]
        op += flags + [str(len(undefs))] + [core.hx(x) for x in undefs] + [core.hx(std), str(plat), str(len(libs))] + [core.hx(x) for x in libs]
        kops.append(" ".join(op))
        metas.append(dict(main=main, sev=sev, ud=ud, cc=cc, force=force, maxcfg=maxcfg, level=level, prod=prod, prem=prem, addons=addons,
                          flags=flags, undefs=sorted(undefs), libs=libs))
    rc, kout, err = core.run_lines([exe, root], [], kops, timeout=600)
    if len(kout) != len(kops):
        raise core.CheckBroken("C18 harness produced %d lines for %d ops (rc=%s): %s" % (len(kout), len(kops), rc, err[-500:]))
    pops, parsed = [], []
    for m, o in zip(metas, kout):
        k = parse_k(o)
        parsed.append(k)
        pops.append(" ".join(["pre", core.hx(m["main"]), version, core.hx(m["prod"]), m["sev"], m["cc"], m["force"], str(m["maxcfg"]), str(m["level"]),
                              core.hx(m["ud"]), core.hx(m["prem"]), str(len(m["addons"]))] + [core.hx(x) for a in m["addons"] for x in a] + [k["dump"]]
                             + ["X"] + m["flags"] + [k["stdc"], k["stdcpp"], k["platform"], str(len(m["undefs"]))] + [core.hx(x) for x in m["undefs"]]
                             + [str(len(m["libs"]))] + [core.hx(x) for x in m["libs"]])
                    + " " + files_wire(k["main"], k["headers"]))
    rc, pout, err = core.run_lines(drv, [], pops, timeout=600)
    if len(pout) != len(pops):
        raise core.CheckBroken("C18 driver produced %d lines for %d ops: %s" % (len(pout), len(pops), err[-500:]))
    bad = [o for o in pout if not re.match(r"^(-|[0-9a-f]+)$", o)]
    if bad:
        res.oblig("correspondence:cache-key", False, "correspondence", "driver could not render the preimage: %s" % bad[0])
        return
    rc, sout, err = core.run_lines([exe, root], [], ["S " + o for o in pout], timeout=600)
    impl = ["h " + k["hash"] for k in parsed]
    model = ["h " + o.split(" ")[1] for o in sout]
    ops = ["%s | %s" % (kops[i].split(" ", 2)[2], hashlib.sha1(pops[i].encode()).hexdigest()[:12]) for i in range(len(kops))]
    ncode = [sum(1 for t in k["main"] if t[3] == "0") + sum(1 for _, ts in k["headers"] for t in ts if t[3] == "0") for k in parsed]
    for k in parsed:
        res.count("key:headers=%d" % len(k["headers"]))
        res.count("key:comments" if any(t[3] == "1" for t in k["main"]) else "key:no-comments")
        if any(t[1] > 255 or t[2] > 255 for t in k["main"]):
            res.count("key:line-or-col>255")
    idx = {op: i for i, op in enumerate(ops)}
    core.correspond(ctx, res, "cache-key", ops, impl, model, nontrivial=lambda op, out: ncode[idx[op]] >= 3)


def mapping_cases(ctx, res, exe, drv, n):
    """C2: getFilesTxt, getAnalyzerInfoFile, skipAnalysis"""
    rng = ctx.rng
    scratch = os.path.join(ctx.tmp, "l")
    os.makedirs(scratch, exist_ok=True)
    hops, mops = [], []
    for _ in range(n):
        paths = rng.sample(PATHS, rng.randint(1, 6))
        if rng.random() < 0.5:
            paths.sort()
        hops.append("F %d %s" % (len(paths), " ".join(core.hx(p) for p in paths)))
        mops.append("ft %d %s" % (len(paths), " ".join(core.hx(p) for p in paths)))
    rc, fout, err = core.run_lines([exe, scratch], [], hops)
    rc, mout, err = core.run_lines(drv, [], mops)
    core.correspond(ctx, res, "files-txt", mops, [o.split(" ")[-1] for o in fout], mout, nontrivial=lambda op, out: int(op.split(" ")[1]) >= 2)
    # lookups on the real files.txt texts
    hops, mops = [], []
    for o, op in zip(fout, mops[:]):
        pass
    lops_h, lops_m = [], []
    for o in fout:
        text = core.unhx(o.split(" ")[-1]).decode("latin-1")
        lines = [l.split(":::") for l in text.split("\n") if l]
        for _ in range(3):
            src = rng.choice([l[1] for l in lines] + PATHS[:4])
            src = rng.choice(["", "", "", "./", "x/", "/abs/"]) + src
            lops_h.append("L %s %s" % (core.hx(text), core.hx(src)))
            lops_m.append("lk %d %s %s" % (len(lines), " ".join(core.hx(a) + " " + core.hx(s) for a, s in lines), core.hx(src)))
    rc, lout, err = core.run_lines([exe, scratch], [], lops_h)
    rc, mout, err = core.run_lines(drv, [], lops_m)
    def differs(op, out):   # the two modelled lookups disagree on this query
        return True
    both = [re.match(r"^S (\S+) E (\S+) G (\S+)$", o) for o in mout]
    if not all(both):
        raise core.CheckBroken("C18 driver lk line: %s" % mout[:1])
    for b in both:
        res.count("lookup:kinds-differ" if b.group(1) != b.group(2) else "lookup:kinds-agree")
    core.correspond(ctx, res, "cache-file-lookup", lops_m, [o.split(" ")[-1] for o in lout], [b.group(3) for b in both])
    # skipAnalysis
    IDS = ["nullPointer", "internalError", "premium-internalError", "premium-invalidLicense", "syntaxError", "internalAstError", "unusedFunction"]
    xh, xm = [], []
    for _ in range(n):
        cur = rng.choice([0, 1, 42, 2 ** 64 - 1, 12762895872217985630])
        kind = rng.choice(["ok", "ok", "ok", "mismatch", "noattr", "badroot", "truncated", "empty"])
        ids = [rng.choice(IDS) for _ in range(rng.choice([0, 1, 2, 3]))]
        stored = cur if kind in ("ok", "badroot", "truncated") else (cur + 1) % 2 ** 64
        errs = "".join('  <error id="%s" severity="error" msg="m" verbose="m" file0="a.c">\n    <location file="a.c" line="1" column="2"/>\n  </error>\n' % i for i in ids)
        fi = '  <FileInfo check="ctu">\n  </FileInfo>\n' if rng.random() < 0.5 else ""
        root = "analyzerinfo" if kind != "badroot" else "analyzerinf"
        attr = ' hash="%d"' % stored if kind != "noattr" else ""
        xml = '<?xml version="1.0"?>\n<%s%s>\n%s%s</%s>\n' % (root, attr, errs, fi, root)
        if kind == "truncated":
            xml = xml[:rng.randrange(len(xml) - 16, len(xml) - 3)]
        if kind == "empty":
            xml = ""
        loaded = kind in ("ok", "mismatch")
        xh.append("X %d %s" % (cur, core.hx(xml)))
        xm.append("rz %s %d %d %s" % (str(stored) if loaded else "none", cur, len(ids), " ".join(core.hx(i) for i in ids)))
        res.count("reuse:" + kind)
    rc, xout, err = core.run_lines([exe, scratch], [], xh)
    rc, mout, err = core.run_lines(drv, [], xm)
    impl = [("1 0" if o.startswith("x 2") or o.startswith("x 1") else o[2:]) for o in xout]
    core.correspond(ctx, res, "reuse-decision", xm, impl, mout)
    # documents as CppCheck::checkInternal writes them: per preprocessor configuration its <error>s, then its <FileInfo>s
    xh, xm = [], []
    for _ in range(n):
        cur = rng.choice([1, 42, 12762895872217985630])
        kids = []
        for _cfg in range(rng.choice([1, 2, 2, 3, 4])):
            kids += ["E" + rng.choice(IDS[:1] * 3 + IDS) for _ in range(rng.choice([0, 1, 1, 2]))]
            kids += ["F"] * rng.choice([0, 1, 2, 4])
        if rng.random() < 0.15:
            rng.shuffle(kids)
        xml = '<?xml version="1.0"?>\n<analyzerinfo hash="%d">\n' % cur
        for k in kids:
            if k == "F":
                xml += '  <FileInfo check="ctu">\n<function-call call-id="a.c:3:12" call-funcname="f" call-argnr="1" file="a.c" line="1" col="1"/>  </FileInfo>\n'
            else:
                xml += '        <error id="%s" severity="error" msg="m" verbose="m" file0="a.c">\n            <location file="a.c" line="1" column="2"/>\n        </error>\n' % k[1:]
        xml += "</analyzerinfo>\n"
        xh.append("X %d %s" % (cur, core.hx(xml)))
        xm.append("rd %d %d %d %s" % (cur, cur, len(kids), " ".join(("E" + core.hx(k[1:])) if k != "F" else "F" for k in kids)))
        res.count("doc:errors-after-fileinfo" if any(k != "F" for k in kids[(kids.index("F") if "F" in kids else len(kids)):]) else "doc:errors-first")
    rc, xout, err = core.run_lines([exe, scratch], [], xh)
    rc, mout, err = core.run_lines(drv, [], xm)
    impl = [("1 0" if o.startswith("x 2") or o.startswith("x 1") else o[2:]) for o in xout]
    core.correspond(ctx, res, "cached-errors-read", xm, impl, mout, nontrivial=lambda op, out: " F E" in op)


# ---- CLI histories ----------------------------------------------------------------------------------------------------------

TEMPLATE = "--template={file}|{line}|{column}|{severity}|{id}|{message}"
KEYS = {"L": "linecol-mod-256", "B": "file-boundary-not-hashed", "P": "path-not-in-key"}
KEY_LOOKUP = "filestxt-suffix-lookup"
KEY_MACRO = "macro-suppression-not-replayed"


def write_tree(src, tree, old=None):
    for p in (old or {}):
        if p not in tree:
            os.remove(os.path.join(src, p))
    for p, text in tree.items():
        if old is not None and old.get(p) == text and not text.endswith("\x00touch"):
            continue
        fp = os.path.join(src, p)
        os.makedirs(os.path.dirname(fp), exist_ok=True)
        open(fp, "w", encoding="latin-1").write(text)


def sources(tree):
    return sorted(p for p in tree if p.endswith(".c"))


def cppcheck(ctx, cwd, files, bd=None, jobs=1, extra=None):
    cmd = [ctx.cppcheck, "-q", TEMPLATE, "--error-exitcode=3", "-j%d" % jobs] + (["--inline-suppr"] if extra is None else list(extra))
    if bd:
        cmd += ["--cppcheck-build-dir=" + bd, "--debug-analyzerinfo"]
    for attempt in range(6):
        try:
            rc, out, err = core.sh(cmd + files, cwd=cwd, timeout=300)
            break
        except (PermissionError, OSError) as e:      # the shared binary is being relinked by a concurrent check: same command again
            if attempt == 5:
                raise core.CheckBroken("cannot execute %s: %s" % (ctx.cppcheck, e))
            import time
            time.sleep(3)
    findings = sorted(l for l in err.split("\n") if l.count("|") >= 5)
    other = [l for l in err.split("\n") if l and l.count("|") < 5]
    dec = {}
    for l in out.split("\n"):
        m = re.match(r"^skipping analysis - loaded \d+ cached finding\(s\) from '(.*)' for '(.*)'$", l)
        if m:
            dec[m.group(2)] = (m.group(1), "h"); continue
        m = re.match(r"^discarding cached result from '(.*)' for '(.*)' - (.*)$", l)
        if m:
            dec[m.group(2)] = (m.group(1), "m"); continue
        m = re.match(r"^discarding cached result - failed to load '(.*)' for '(.*)' \(.*\)$", l)
        if m:
            dec[m.group(2)] = (m.group(1), "m"); continue
        m = re.match(r"^no cached result '(.*)' for '(.*)' found$", l)
        if m:
            dec[m.group(2)] = (m.group(1), "n"); continue
    return rc, findings, dec, other


KEY_SUMM = "summaries-not-in-cache-key"
KEY_LIBFILE = "library-file-contents-not-in-key"
KEY_TOKERR = "stale-fileinfo-after-tokenize-error"
WP_IDS = ("ctunullpointer", "ctuuninitvar", "ctuArrayIndex", "ctuPointerArith", "ctuOneDefinitionRuleViolation")
BASE_OPTS = ["--inline-suppr"]


def cached_phase(ctx, trees, jobs, tag, xopts=()):
    """the runs that share the build directory (sequential); every tree and every build-dir state before a run is snapshotted"""
    work = os.path.join(ctx.tmp, "hist", tag)
    shutil.rmtree(work, ignore_errors=True)
    src, bd = os.path.join(work, "src"), os.path.join(work, "bd")
    os.makedirs(src); os.makedirs(bd)
    runs, old = [], None
    for k, tree in enumerate(trees):
        write_tree(src, tree, old)
        old = tree
        files = sources(tree)
        if not files:
            runs.append(None); continue
        snap = os.path.join(work, "snap%d" % k)
        os.makedirs(snap)
        write_tree(snap, tree)
        shutil.copytree(bd, os.path.join(work, "bd%d" % k))
        j = jobs[k] if isinstance(jobs, list) else jobs
        rc_c, cached, dec, other_c = cppcheck(ctx, src, files, bd="../bd", jobs=j, extra=BASE_OPTS + list(xopts))
        runs.append(dict(cached=cached, rc_c=rc_c, dec=dec, files=files, jobs=j, other=other_c, snap=snap, work=work, k=k, xopts=list(xopts)))
    return runs


def finish_histories(ctx, exe, drv, hists):
    """hists: list of (trees, runs).  Fresh runs (independent, two at a time), one harness call, one driver call."""
    from concurrent.futures import ThreadPoolExecutor
    todo = [r for _, runs in hists for r in runs if r is not None]

    def fresh(r):
        rc_f, fr, _, other = cppcheck(ctx, r["snap"], r["files"], extra=BASE_OPTS + r["xopts"])
        r["fresh"], r["rc_f"] = fr, rc_f
        r["other"] += other
    with ThreadPoolExecutor(max_workers=3) as ex:
        list(ex.map(fresh, todo))
    kops = ["K %s %s 1 1 00000 - 0 0 0 2 - - 0 0" % (core.hx(r["snap"]), core.hx(f)) for r in todo for f in r["files"]]
    rc, kout, err = core.run_lines([exe, ctx.tmp], [], kops, timeout=900)
    if len(kout) != len(kops):
        raise core.CheckBroken("C18 harness (history) produced %d lines for %d ops: %s" % (len(kout), len(kops), err[-300:]))
    it = iter(kout)
    hops = []
    for trees, runs in hists:
        wire = []
        for r in runs:
            if r is None:
                wire.append("R 0"); continue
            w = ["R", str(len(r["files"]))]
            for f in r["files"]:
                kk = parse_k(next(it))
                w += ["F", core.hx(f), kk["dump"], files_wire(kk["main"], kk["headers"])]
            wire.append(" ".join(w))
        hops.append("hist %d %s" % (len(runs), " ".join(wire)))
    rc, mout, err = core.run_lines(drv, [], hops, timeout=900)
    if len(mout) != len(hops) or any(o == "bad-op" for o in mout):
        raise core.CheckBroken("C18 driver hist: %s %s" % (mout[:1], err[-300:]))
    for (trees, runs), line in zip(hists, mout):
        for r, part in zip(runs, line.split(" / ")):
            if r is None:
                continue
            model = {}
            for f, item in zip(r["files"], part.split(" ")):
                slot, d, cls = item.split(":")
                model[f] = (core.unhx(slot).decode("latin-1"), d, cls)
            r["model"] = model


def without_summaries(ctx, r):
    """the same run on the same build-directory state with the function-return summaries (*.sN) removed"""
    bdc = os.path.join(r["work"], "nosum%d" % r["k"])
    shutil.rmtree(bdc, ignore_errors=True)
    shutil.copytree(os.path.join(r["work"], "bd%d" % r["k"]), bdc)
    n = 0
    for f in os.listdir(bdc):
        if re.search(r"\.s\d+$", f):
            os.remove(os.path.join(bdc, f)); n += 1
    rc, cached, _, _ = cppcheck(ctx, r["snap"], r["files"], bd=bdc, jobs=r["jobs"], extra=BASE_OPTS + r["xopts"])
    return n, rc, cached


def shadow_history(ctx, trees, jobs, upto, tag, xopts=()):
    """the same history over a second build directory whose function-return summaries (*.sN) are removed before every run"""
    work = os.path.join(ctx.tmp, "hist", tag + "-shadow")
    shutil.rmtree(work, ignore_errors=True)
    src, bd = os.path.join(work, "src"), os.path.join(work, "bd")
    os.makedirs(src); os.makedirs(bd)
    out, old = [], None
    for k, tree in enumerate(trees[:upto + 1]):
        write_tree(src, tree, old)
        old = tree
        files = sources(tree)
        if not files:
            out.append(None); continue
        for f in os.listdir(bd):
            if re.search(r"\.s\d+$", f):
                os.remove(os.path.join(bd, f))
        j = jobs[k] if isinstance(jobs, list) else jobs
        rc, cached, _, _ = cppcheck(ctx, src, files, bd="../bd", jobs=j, extra=BASE_OPTS + list(xopts))
        out.append((cached, rc))
    return out


def classify(ctx, run, trees, jobs, tag):
    """keys of the known classes that explain cached != fresh in this run; None when the difference is not explained"""
    keys = set()
    tree = trees[run["k"]]
    for f, (slot, d, cls) in run["model"].items():
        if d == "h" and cls not in ("-", "?"):
            if "O" in cls:
                return None
            for c in cls:
                keys.add(KEYS[c])
    slots = {}
    for f, (slot, d, cls) in run["model"].items():
        slots.setdefault(slot, []).append(f)
    if any(len(v) > 1 for v in slots.values()):
        keys.add(KEY_LOOKUP)
    if any("cppcheck-suppress-macro" in t for t in tree.values()) and any(d == "h" for (_, d, _) in run["model"].values()):
        keys.add(KEY_MACRO)
    if keys:
        return keys
    # a file whose raw tokenization failed is never looked up in the cache (no decision line, a syntaxError finding of its own): its old
    # cache file stays and the whole-program pass reads the stale <FileInfo>.  Explains whole-program findings only the cached run has.
    early = [f for f in run["files"] if f not in run["dec"] and any(l.startswith(f + "|") and "|syntaxError|No pair for character" in l for l in run["cached"])]
    d0 = set(run["cached"]) ^ set(run["fresh"])
    if early and d0 and d0 <= set(run["cached"]) and all(l.split("|")[4] in WP_IDS for l in d0):
        return {KEY_TOKERR}
    # a library file named by --library=<file> was edited after the differing file was analysed last: the *contents* of library
    # files are not part of the key (only their names).  Explains differing findings located in files served from the cache.
    libs = [x.split("=", 1)[1] for x in run["xopts"] if x.startswith("--library=")]
    hits = [f for f, (_, d, _) in run["model"].items() if d == "h"]
    diff = set(run["cached"]) ^ set(run["fresh"])
    explained = set()
    if libs and hits and any(trees[j].get(lib) != tree.get(lib) for lib in libs for j in range(run["k"])):
        explained = {l for l in diff if l.split("|")[0] in hits}
        if explained:
            keys.add(KEY_LIBFILE)
    if diff and not (diff - explained):
        return keys
    # the rest: does it come from the *.sN files?  (same run without them / same history without them must give the fresh result)
    def same_as_fresh(cached, rc):
        return not ((set(cached) ^ set(run["fresh"])) - explained) and (bool(explained) or rc == run["rc_f"])
    nsum, rc2, cached2 = without_summaries(ctx, run)
    if nsum and same_as_fresh(cached2, rc2):
        return keys | {KEY_SUMM}
    sh = shadow_history(ctx, trees, jobs, run["k"], tag, run["xopts"])
    if sh[run["k"]] is not None and same_as_fresh(*sh[run["k"]]):
        return keys | {KEY_SUMM}      # a result computed under the summaries of an earlier run is replayed from the cache
    return None


def judge_history(ctx, res, trees, jobs, runs, tag, origin):
    """P_impl + decision correspondence for one finished history.  Returns (known keys seen, ops, impl, model)."""
    seen = set()
    ops, impl, model = [], [], []
    tainted = False     # two workers wrote one cache file in an earlier run: the content of the build directory is not determined
    for k, r in enumerate(runs):
        if r is None:
            continue
        # C3: decisions
        # a file that fails before the cache is consulted (raw tokenization error) prints no decision; the model cannot know: such files are
        # left out, and since the build directory then differs from the model's (old cache file kept) later runs of the history are not compared
        nodec = [f for f in r["files"] if f not in r["dec"] and any(l.startswith(f + "|") and "|syntaxError|" in l for l in r["cached"])]
        cmpf = [f for f in r["files"] if f not in nodec]
        canon_i = " ".join("%s=%s:%s" % (f, os.path.basename(r["dec"].get(f, ("?", "?"))[0]), r["dec"].get(f, ("?", "?"))[1]) for f in cmpf)
        canon_m = " ".join("%s=%s:%s" % (f, r["model"][f][0], r["model"][f][1]) for f in cmpf)
        racy = r["jobs"] > 1 and len(set(v[0] for v in r["model"].values())) < len(r["files"])
        op = "%s run %d -j%d %s" % (tag, k, r["jobs"], hashlib.sha1(json.dumps(trees[:k + 1], sort_keys=True).encode()).hexdigest()[:10])
        tainted = tainted or racy
        if nodec:
            res.count("decisions-not-compared:no-lookup-after-tokenize-error")
        if not tainted:         # two workers writing one cache file: the order is not determined
            ops.append(op); impl.append(canon_i); model.append(canon_m)
        else:
            res.count("decisions-not-compared:racy-shared-cache-file")
        tainted = tainted or bool(nodec)
        res.count("hist:" + origin)
        res.count("jobs:%d" % r["jobs"])
        for f in r["files"]:
            res.count("decision:" + r["model"][f][1])
        # P_impl
        if r["cached"] != r["fresh"] or r["rc_c"] != r["rc_f"]:
            keys = classify(ctx, r, trees, jobs, tag)
            what = "run %d (-j%d) of history %s with --cppcheck-build-dir reports %s, without build dir %s" % (
                k, r["jobs"], tag, sorted(set(r["cached"]) - set(r["fresh"]))[:3] or "(nothing extra)", sorted(set(r["fresh"]) - set(r["cached"]))[:3] or "(nothing extra)")
            payload = dict(trees=trees[:k + 1], jobs=(jobs[:k + 1] if isinstance(jobs, list) else jobs), options=r["xopts"], cached=r["cached"], fresh=r["fresh"],
                           rc_cached=r["rc_c"], rc_fresh=r["rc_f"], model={f: list(v) for f, v in r["model"].items()},
                           replay_cmd="./check.py C18 --replay <this file>")
            if keys is None:
                res.violation(what, payload, concrete=True, key=None)
            else:
                for key in sorted(keys):
                    res.violation(what, payload, concrete=True, key=key)
                    seen.add(key)
                    res.count("known:" + key)
    return seen, ops, impl, model


# ---- history generator ----

LIBCFG = '<?xml version="1.0"?>\n<def>\n  <memory>\n    <alloc>%s</alloc>\n    <dealloc>myfree</dealloc>\n  </memory>\n</def>\n'


MULTICFG = ("static int first@(const int *v)\n{\n    return v[0];\n}\nvoid store@(int *p, int v)\n{\n    int defaults[2] = {0, 1};\n"
            "    *p = v + first@(defaults) + defaults[2];\n}\nint scale@(int v)\n{\n#ifdef WITH_TABLE@\n    int table[4] = {1, 2, 4, 8};\n"
            "    return table[4] * v;\n#else\n    return v * 2;\n#endif\n}\n#ifdef OTHER@\nint other@(int y){return y/0;}\n#endif\n")
DIGIT_A = "int scale(void) {\n    int x = 5;\n    int x1 = 0;\n    return 10 /\nx1\n" + "\n" * 10 + "    ;\n}\n"
DIGIT_B = "int scale(void) {\n    int x = 5;\n    int x1 = 0;\n    return 10 /\n" + "\n" * 10 + "x\n    ;\n}\n"


class Gen:
    def __init__(self, rng):
        self.rng = rng
        self.n = 0

    def fresh(self):
        self.n += 1
        return self.n

    def bug_line(self):
        k = self.fresh()
        return self.rng.choice([
            "void f%d(void){int a[2]; a[%d]=0;}" % (k, self.rng.choice([2, 5, 7])),
            "int u%d(void){int x; return x;}" % k,
            "int z%d(int y){return y/0;}" % k,
            "int ok%d(int y){return y+%d;}" % (k, k),
        ])

    def new_source(self, hdrs):
        lines = ['#include "%s"' % h for h in hdrs]
        lines += [self.bug_line() for _ in range(self.rng.randint(1, 3))]
        return "\n".join(lines) + "\n"

    def initial(self):
        rng = self.rng
        tree = {}
        tree["x.h"] = "void g1(int*p);\nstatic int hx(void){int a[2]; return a[3];}\n" if rng.random() < 0.5 else "void g1(int*p);\n"
        names = rng.sample(["a.c", "b.c", "ba.c", "d/a.c", "d/c.c", "e/b.c", "m.c"], rng.randint(2, 4))
        for nme in names:
            inc = ["../x.h" if "/" in nme else "x.h"]
            tree[nme] = self.new_source(inc)
        # a CTU pair
        if rng.random() < 0.6:
            cs = sources(tree)
            a, b = rng.sample(cs, 2) if len(cs) >= 2 else (cs[0], cs[0])
            tree[a] += "void g1(int*p){*p=0;}\n"
            tree[b] += "void c%d(void){g1(0);}\n" % self.fresh()
        if rng.random() < 0.3:
            k = self.fresh()
            tree["mac.c"] = "// cppcheck-suppress-macro arrayIndexOutOfBounds\n#define M%d(a) a[5]=0\nvoid m%d(void){int a[2]; M%d(a);}\n" % (k, k, k)
        if rng.random() < 0.3:
            tree["p.c"] = '#include "p.h"\n' + self.bug_line() + "\n"
            tree["p.h"] = ""
        if rng.random() < 0.4:
            # several preprocessor configurations: findings and whole-program information per configuration, interleaved in the cache file
            k = self.fresh()
            tree["mc%d.c" % k] = MULTICFG.replace("@", str(k))
        if rng.random() < 0.3:
            tree["dm.c"] = DIGIT_A
        if rng.random() < 0.25:
            tree["my.cfg"] = LIBCFG % "myalloc"
            tree["lc.c"] = "void *myalloc(int); void *otheralloc(int); void myfree(void*);\nvoid fl%d(void){ void *p = myalloc(3); (void)p; }\n" % self.fresh()
        if rng.random() < 0.3:
            k = self.fresh()
            tree["sb.c"] = "void fr%d(void){}\n" % k
            tree["sz.c"] = "#include <stdlib.h>\nvoid gz%d(void){ char *p = malloc(10); if (!p) return; *p = 0; fr%d(); }\n" % (k, k)
        return tree

    def edit(self, tree):
        """returns (kind, new tree)"""
        rng = self.rng
        t = dict(tree)
        cs = sources(t)
        if "dm.c" in t and rng.random() < 0.25:
            # field-boundary edit: the token `x1` alone on line 5 becomes `x` alone on line 15, every other token keeps text, line and column
            t["dm.c"] = DIGIT_B if t["dm.c"] == DIGIT_A else DIGIT_A
            return "digit-migrate", t
        if "my.cfg" in t and rng.random() < 0.2:
            t["my.cfg"] = LIBCFG % ("otheralloc" if "<alloc>myalloc" in t["my.cfg"] else "myalloc")
            return "libfile", t
        kind = rng.choice(["tok", "tok", "shiftl", "shiftl", "shiftc", "comment", "suppr", "hdr", "hdr-shift", "add", "rm", "mv", "touch",
                           "to-header", "copy", "del", "nothing"])
        f = rng.choice(cs)
        lines = t[f].split("\n")
        if kind == "tok":
            idx = [i for i, l in enumerate(lines) if re.search(r"a\[\d\]=0", l)]
            if idx and rng.random() < 0.6:
                i = rng.choice(idx)
                lines[i] = re.sub(r"a\[(\d)\]=0", lambda m: "a[%d]=0" % ((int(m.group(1)) + rng.choice([1, 2, 3])) % 10), lines[i])
            else:
                lines.insert(rng.randrange(len(lines)), self.bug_line())
            t[f] = "\n".join(lines)
        elif kind == "del":
            cand = [i for i, l in enumerate(lines) if l and not l.startswith("#")]
            if cand:
                del lines[rng.choice(cand)]
            t[f] = "\n".join(lines)
        elif kind == "shiftl":
            k = rng.choice([1, 255, 256, 257, 512])
            pos = rng.choice([0, 0, rng.randrange(len(lines))])
            t[f] = "\n".join(lines[:pos] + [""] * k + lines[pos:])
        elif kind == "shiftc":
            k = rng.choice([1, 255, 256, 257, 512])
            i = rng.randrange(len(lines))
            if rng.random() < 0.4:
                lines = [(" " * k + l if l and not l.startswith("//") else l) for l in lines]
            elif lines[i]:
                lines[i] = " " * k + lines[i]
            t[f] = "\n".join(lines)
        elif kind == "comment":
            i = rng.randrange(len(lines))
            if "//" in lines[i] and "cppcheck" not in lines[i]:
                lines[i] = lines[i].split("//")[0] + rng.choice(["// changed", ""])
            elif not lines[i].startswith("//"):
                lines[i] += rng.choice([" // note", " /* c */", "// REMARK r%d" % self.fresh()])
            t[f] = "\n".join(lines)
        elif kind == "suppr":
            g = rng.choice([f] + [h for h in t if h.endswith(".h")])
            ls = t[g].split("\n")
            idx = [i for i, l in enumerate(ls) if "cppcheck-suppress " in l]
            if idx and rng.random() < 0.5:
                i = rng.choice(idx)
                ls[i] = ls[i].split(" // cppcheck-suppress")[0]
            else:
                cand = [i for i, l in enumerate(ls) if re.search(r"a\[\d\]|return x;|y/0", l) and "//" not in l]
                if cand:
                    i = rng.choice(cand)
                    ls[i] += " // cppcheck-suppress " + rng.choice(["arrayIndexOutOfBounds", "uninitvar", "zerodiv", "*"])
            t[g] = "\n".join(ls)
        elif kind in ("hdr", "hdr-shift"):
            hs = [h for h in t if h.endswith(".h")]
            if hs:
                h = rng.choice(hs)
                if kind == "hdr":
                    t[h] += rng.choice(["void extra%d(void);\n" % self.fresh(), "static int hy%d(void){int a[2]; return a[4];}\n" % self.fresh()])
                else:
                    t[h] = "\n" * rng.choice([1, 256, 512]) + t[h]
        elif kind == "add":
            nme = rng.choice(["n%d.c" % self.fresh(), "d/a.c", "a.c", "e/a.c", "d/n%d.c" % self.fresh(), "ba.c"])
            if nme not in t:
                t[nme] = self.new_source(["../x.h" if "/" in nme else "x.h"])
        elif kind == "rm":
            if len(cs) > 1:
                del t[f]
        elif kind == "mv":
            nme = rng.choice(["r%d.c" % self.fresh(), "d/" + os.path.basename(f), os.path.basename(f), "x" + os.path.basename(f)])
            if nme not in t and f not in ("p.c",):
                text = t.pop(f)
                if ("/" in nme) != ("/" in f):
                    text = text.replace('"../x.h"', '"x.h"') if "/" not in nme else text.replace('"x.h"', '"../x.h"')
                t[nme] = text
        elif kind == "touch":
            pass
        elif kind == "copy":
            nme = "d/" + os.path.basename(f)
            if nme not in t and "/" not in f and '"p.h"' not in t[f]:
                t[nme] = t[f].replace('"x.h"', '"../x.h"')
        elif kind == "to-header":
            if "p.c" in t and t["p.c"].count("\n") >= 1 and t["p.c"].split("\n", 1)[1].strip():
                first, rest = t["p.c"].split("\n", 1)
                t["p.c"] = first + "\n"
                t["p.h"] = "\n" + rest
        return kind, t


def gen_history(rng, nruns):
    g = Gen(rng)
    tree = g.initial()
    trees, kinds = [tree], ["init"]
    for _ in range(nruns - 1):
        kind, tree = g.edit(tree)
        if rng.random() < 0.25:
            k2, tree = g.edit(tree)
            kind += "+" + k2
        trees.append(tree); kinds.append(kind)
    return trees, kinds


def load_corpus():
    p = os.path.join(core.VERIF, "corpus", "C18", "cases.json")
    return json.load(open(p)) if os.path.exists(p) else []


def cli_histories(ctx, res, exe, drv, n, nruns):
    rng = ctx.rng
    todo = []       # (tag, origin, trees, jobs, corpus entry)
    # corpus first: the witnesses of the known findings must still be seen by the machinery
    for c in load_corpus():
        todo.append(("corpus-" + c["name"], "corpus", c["trees"], c["jobs"], c, c.get("options", [])))
    for h in range(n):
        trees, kinds = gen_history(rng, nruns)
        jobs = [rng.choice([1, 2]) for _ in trees] if rng.random() < 0.5 else rng.choice([1, 2])
        for k in kinds:
            for part in k.split("+"):
                res.count("edit:" + part)
        todo.append(("h%d" % h, "generated", trees, jobs, None, ["--library=my.cfg"] if "my.cfg" in trees[0] else []))
    from concurrent.futures import ThreadPoolExecutor
    with ThreadPoolExecutor(max_workers=3) as ex:      # histories are independent of each other (own directories)
        hists = list(ex.map(lambda t: (t[2], cached_phase(ctx, t[2], t[3], t[0], t[5])), todo))
    finish_histories(ctx, exe, drv, hists)
    all_ops, all_impl, all_model = [], [], []
    for (tag, origin, trees, jobs, c, xo), (_, runs) in zip(todo, hists):
        seen, ops, impl, model = judge_history(ctx, res, trees, jobs, runs, tag, origin)
        all_ops += ops; all_impl += impl; all_model += model
        if c and c.get("key"):
            res.extra.setdefault("witnesses", {})[c["name"]] = "reproduces" if c["key"] in seen else "does not reproduce"
    core.correspond(ctx, res, "cli-reuse-decisions", all_ops, all_impl, all_model,
                    nontrivial=lambda op, out: " run 0 " not in op and (":h" in out or ":m" in out))


def replay(ctx, res, rp):
    drv = ctx.driver("drv_c18")
    exe = ctx.harness("c18")
    trees, jobs = rp["trees"], rp.get("jobs", 1)
    runs = cached_phase(ctx, trees, jobs, "replay", rp.get("options", []))
    finish_histories(ctx, exe, drv, [(trees, runs)])
    bad = 0
    for k, r in enumerate(runs):
        if r is None:
            continue
        same = r["cached"] == r["fresh"] and r["rc_c"] == r["rc_f"]
        print("run %d -j%d: %s  decisions=%s" % (k, r["jobs"], "same as a run without build dir" if same else "DIFFERS", r["model"]))
        if not same:
            bad += 1
            print("   with build dir   : rc=%s %s" % (r["rc_c"], r["cached"]))
            print("   without build dir: rc=%s %s" % (r["rc_f"], r["fresh"]))
            print("   classes: %s" % (classify(ctx, r, trees, jobs, "replay"),))
    print("replay: %d run(s) differ" % bad)
    return 1 if bad else 0


def run(ctx, res):
    import time
    thorough = ctx.tier == "thorough"
    T = {}
    t = time.time()
    ok, detail, ex = translate(ctx)
    res.oblig("T1:hash-input-translation", ok, "translation", detail)
    if ex:
        res.extra["translated"] = dict(encoding="legacy" if ex[2] == [("str",), ("lineChar",), ("colChar",)] else "proposed" if len(ex[2]) == 7 else "other",
                                       lookup=ex[4], toolinfo_items=len(ex[0]))
    core.prove(ctx, res, MODULES, THEOREMS)
    T["prove"] = round(time.time() - t, 1); t = time.time()
    drv = ctx.driver("drv_c18")
    exe = ctx.harness("c18")
    T["build"] = round(time.time() - t, 1); t = time.time()
    key_cases(ctx, res, exe, drv, 400 if thorough else 120)
    T["key"] = round(time.time() - t, 1); t = time.time()
    mapping_cases(ctx, res, exe, drv, 300 if thorough else 80)
    T["mapping"] = round(time.time() - t, 1); t = time.time()
    cli_histories(ctx, res, exe, drv, 60 if thorough else 5, 7 if thorough else 4)
    T["cli"] = round(time.time() - t, 1)
    res.extra["timings_s"] = T
    res.assumptions = list(ASSUMPTIONS)

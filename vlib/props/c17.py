"""C17 — a file's findings do not depend on the other files in the run.

theorems   Cppcheck.RunState.file_findings_independent (for every prefix, file and analysis function: same forwarded messages,
           analyzer-information records and exit code as alone, under the five executable hypotheses of `Indep`),
           file_result_independent, checkFile_independent, run_eq_map_alone, shown_nonWP_eq_dedup_alone (printed output =
           concatenation of the alone outputs with repeated texts removed), leakOK_after_normal / leakOK_repaired /
           foreignOK_of_cover / supprMatches_exact_file (where the hypotheses come from), four counterexample theorems
           (F17a, F17b, F17e: hypotheses the code violates; F17d: the code before 8f62378, with leaked_filter_repaired for the tree),
           independent_without_inline_suppr / run_independent_without_inline_suppr (no Indep: runs without inline suppressions)
T          lib/cppcheck.cpp, lib/cppcheck.h: the member variables of CppCheckLogger / CppCheck are exactly the carried fields of the
           model; reset points of checkInternal (resetExitCode first, where clear() is called, which returns come before it);
           function-local statics / mutable globals of lib, cli, simplecpp enumerated and compared with the reviewed list
C          real binary, generated projects: every file alone (raw reports with --emit-duplicates, inline suppressions and
           location macros from --dump) gives the per-file trace; the driver predicts the alone run and every company run
           (several orders) from the traces; predictions are compared with the real -j1 runs (printed findings in order, exit code),
           with and without a build dir (analyzer-information files, warm cache)
           unmatchedSuppression: mark_frame / checked_frame (the checked flag of an entry is only set by files whose token list
           names the entry's file, or by messages that touch it), dead_suppression_stays_unchecked, mark_by_index_counterexample;
           driver's getUnmatchedInlineSuppressions of the final state = the real unmatchedSuppression findings, alone and in company
P_impl     model-free: set of printed non-whole-program findings of the company run = union of the alone runs; the
           unmatchedSuppression findings located in a source file are the same in company and alone; per-file
           analyzer-information contents company = alone; the same through --project=compile_commands.json with per-file defines
           (check(FileSettings)); thorough tier also thread / process executors
"""
import glob, json, os, re, shutil
import xml.etree.ElementTree as ET
from concurrent.futures import ThreadPoolExecutor
from .. import core


def _sh(cmd, **kw):
    """core.sh, repeated when the process cannot be started (fork / pipe failure on an overloaded machine)"""
    import time
    for attempt in range(4):
        try:
            return core.sh(cmd, **kw)
        except OSError:
            if attempt == 3:
                raise
            time.sleep(2 + 3 * attempt)


ID = "C17"
LEVEL = "other"
RULE = ("one case = one generated project (3-6 C files in up to 3 directories, equal base names in different directories, shared "
        "headers with findings / macros / inline suppressions, unique / file / block / macro suppressions with right and wrong ids, "
        "remark comments, command-line suppressions, templates with and without file name) x every file alone x 3-5 orders in "
        "company; non-trivial = at least 2 files report a finding and at least one inline suppression or shared header exists")
EXPLANATION = ("Lean: for every run prefix and every per-file analysis function the per-file result (forwarded findings, analyzer "
               "information, exit code) equals the alone result under five executable hypotheses on the carried state; each "
               "hypothesis is exercised on the real binary (known findings F17a, F17b, F17c, F17e; F17d repaired by 8f62378). The per-file analysis itself is a "
               "parameter: that it is a function of the file (no hidden static state) is only sampled by the CLI tie and "
               "supported by the enumeration of statics. Outside the model: --safety, plist output, --clang (checkClang never "
               "resets the filters), library.reportErrors, whole-program data (mFileInfo, unused functions), addons, symbolName / hash "
               "suppressions in the generated projects; check(FileSettings) has no Lean function of its own (sampled model-free through "
               "--project=compile_commands.json), markup files appear only as empty traces. With inline suppressions the main theorems "
               "are frame theorems (H1 is the independence of the suppression channel as hypothesis: F17a / F17b are true of the code); "
               "without inline suppressions independent_without_inline_suppr / run_independent_without_inline_suppr discharge H1, H2, H5.")
THEOREMS = ["Cppcheck.RunState.file_findings_independent", "Cppcheck.RunState.file_result_independent",
            "Cppcheck.RunState.checkFile_independent", "Cppcheck.RunState.run_eq_map_alone",
            "Cppcheck.RunState.shown_nonWP_eq_dedup_alone", "Cppcheck.RunState.leakOK_after_normal",
            "Cppcheck.RunState.leakOK_repaired", "Cppcheck.RunState.foreignOK_of_cover",
            "Cppcheck.RunState.supprMatches_exact_file", "Cppcheck.RunState.stateAfter_supprs_origin",
            "Cppcheck.RunState.stateAfter_supprs_no_inline", "Cppcheck.RunState.independent_without_inline_suppr",
            "Cppcheck.RunState.run_independent_without_inline_suppr",
            "Cppcheck.RunState.mark_frame", "Cppcheck.RunState.checked_frame", "Cppcheck.RunState.stateAfter_checked_origin",
            "Cppcheck.RunState.not_couldCheck_of_cannotCheck", "Cppcheck.RunState.dead_suppression_stays_unchecked",
            "Cppcheck.RunState.mark_by_index_counterexample",
            "Cppcheck.RunState.file_findings_independent_counterexample_foreign_suppression",
            "Cppcheck.RunState.file_findings_independent_counterexample_macro_suppression",
            "Cppcheck.RunState.file_findings_independent_counterexample_leaked_filter_before_repair",
            "Cppcheck.RunState.leaked_filter_repaired",
            "Cppcheck.RunState.file_findings_independent_counterexample_stale_macros"]
MODULES = ["Cppcheck.Props.C17"]

K_TAIL = "inline-suppression-matches-other-file-by-path-tail"
K_MACRO = "macro-suppression-applies-to-same-named-macro-of-other-file"
K_TEXT = "duplicate-filter-key-collision-across-files"
K_STALE = "location-macros-missing-or-stale-on-cache-replay"

# ids reported after the last file (whole-program / run-level): excluded by the property
WP_IDS = {"unusedFunction", "staticFunction", "unmatchedSuppression", "unmatchedPolyspaceSuppression", "checkersReport",
          "ctunullpointer", "ctuuninitvar", "ctuArrayIndex", "ctuPointerArith", "ctuOneDefinitionRuleViolation"}

LOGGER_MEMBERS = {"mErrorLogger", "mSettings", "mSuppressions", "mUseGlobalSuppressions", "mErrorList", "mSuppressedErrorList",
                  "mRemarkComments", "mLocationMacros", "mPlistFile", "mExitCode", "mAnalyzerInformation"}
CPPCHECK_MEMBERS = {"mSettings", "mSuppressions", "mLogger", "mErrorLogger", "mErrorLoggerDirect", "mTimerResults",
                    "mUseGlobalSuppressions", "mFileInfo", "mExecuteCommand", "mUnusedFunctionsCheck"}


# ------------------------------------------------------------------------------------------------
# T: carried state and reset points, read from the source on every run
# ------------------------------------------------------------------------------------------------

def _body(text, start):
    """text of the brace block that opens at the first '{' at or after `start` (comments / strings / chars skipped)"""
    i = text.index("{", start)
    depth, j, n = 0, i, len(text)
    while j < n:
        c = text[j]
        if c == "/" and text[j:j + 2] == "//":
            j = text.index("\n", j)
            continue
        if c == "/" and text[j:j + 2] == "/*":
            j = text.index("*/", j) + 2
            continue
        if c == '"' or c == "'":
            q = c
            j += 1
            while text[j] != q:
                j += 2 if text[j] == "\\" else 1
            j += 1
            continue
        if c == "{":
            depth += 1
        elif c == "}":
            depth -= 1
            if depth == 0:
                return text[i:j + 1], i
        j += 1
    raise ValueError("unbalanced")


def _strip_comments(text):
    """remove comments; string and character literals are replaced by empty literals"""
    out, j, n = [], 0, len(text)
    while j < n:
        c = text[j]
        if c == "/" and text[j:j + 2] == "//":
            k = text.find("\n", j)
            j = n if k < 0 else k
            continue
        if c == "/" and text[j:j + 2] == "/*":
            k = text.find("*/", j)
            j = n if k < 0 else k + 2
            out.append(" ")
            continue
        if c == '"' or c == "'":
            q = c
            j += 1
            while j < n and text[j] != q:
                j += 2 if text[j] == "\\" else 1
            j += 1
            out.append(q + q)
            continue
        out.append(c)
        j += 1
    return "".join(out)


MEMBER_RE = re.compile(r"^\s+(?!return\b|using\b|typedef\b|static\b|friend\b)[A-Za-z_][\w:<>, \*&]*?[\w>\*&]\s+\**&?(m[A-Z]\w*)\s*(\{[^}]*\})?\s*(=[^;]*)?;", re.M)


def translate_state(ctx, res):
    """returns dict(clear_at_start=bool) or None when a shape is not recognised"""
    src = open(os.path.join(ctx.repo, "lib", "cppcheck.cpp"), encoding="utf-8", errors="replace").read()
    hdr = open(os.path.join(ctx.repo, "lib", "cppcheck.h"), encoding="utf-8", errors="replace").read()
    ok = True
    try:
        k = src.index("class CppCheck::CppCheckLogger")
        body, _ = _body(src, k)
        members = set(m[0] for m in MEMBER_RE.findall(_strip_comments(body)))
    except ValueError as ex:
        members = None
    res.oblig("translation:CppCheckLogger-members", members == LOGGER_MEMBERS, "translation",
              "" if members == LOGGER_MEMBERS else "data members of CppCheckLogger are %s; the model carries %s (a new member is state the "
              "model does not know)" % (sorted(members) if members is not None else "unreadable", sorted(LOGGER_MEMBERS)))
    ok &= members == LOGGER_MEMBERS
    try:
        k = hdr.index("class CPPCHECKLIB CppCheck")
        body, _ = _body(hdr, k)
        m2 = set(m[0] for m in MEMBER_RE.findall(_strip_comments(body)))
    except ValueError:
        m2 = None
    res.oblig("translation:CppCheck-members", m2 == CPPCHECK_MEMBERS, "translation",
              "" if m2 == CPPCHECK_MEMBERS else "data members of CppCheck are %s, reviewed: %s" % (sorted(m2) if m2 is not None else "unreadable", sorted(CPPCHECK_MEMBERS)))
    ok &= m2 == CPPCHECK_MEMBERS
    # reset points of checkInternal
    info = None
    try:
        k = src.index("unsigned int CppCheck::checkInternal(")
        body, _ = _body(src, k)
        b = _strip_comments(body)
        p_reset = b.index("mLogger->resetExitCode();")
        p_try = b.index("try {")
        first_ret = b.index("return ")
        clears = [m.start() for m in re.finditer(r"mLogger->clear\(\);", b)]
        # the try block of the function: its end is where the catch chain of depth 1 starts
        tb, ti = _body(b, p_try)
        p_try_end = ti + len(tb)
        start_clear = any(c < first_ret and c < p_try for c in clears)
        end_clear = any(c > p_try_end for c in clears)
        early_returns = len([m for m in re.finditer(r"\breturn\b", b[p_try:p_try_end])])
        # model of record (8f62378): clear() right after resetExitCode(), before any return; the old shape (clear() only after the
        # try block) is an undischarged obligation
        shape_ok = p_reset < first_ret and start_clear and all(c < p_try or c > p_try_end for c in clears)
        info = dict(clear_at_start=start_clear, clear_at_end=end_clear, returns_inside_try=early_returns)
        res.oblig("translation:checkInternal-reset-points", shape_ok, "translation",
                  "" if shape_ok else "resetExitCode@%d first return@%d clear()@%s try@%d..%d: not the modelled shape "
                  "(resetExitCode() and clear() before any return - 8f62378; no clear() inside the try block)" % (p_reset, first_ret, clears, p_try, p_try_end))
        ok &= shape_ok
        # setLocationMacros / setRemarkComments are the only writers of the two maps, clear() the only eraser of the filters
        lg, _ = _body(src, src.index("class CppCheck::CppCheckLogger"))
        lg = _strip_comments(lg)
        w_mac = len(re.findall(r"mLocationMacros\s*(\.clear\(\)|\[|=)", lg))
        w_rem = len(re.findall(r"mRemarkComments\s*=", lg))
        w_err = len(re.findall(r"m(Suppressed)?ErrorList\s*\.\s*clear\(\)", lg))
        writers_ok = (w_mac, w_rem, w_err) == (2, 1, 2)
        res.oblig("translation:logger-writers", writers_ok, "translation",
                  "" if writers_ok else "writers of mLocationMacros/mRemarkComments/filters: %s (expected 2 in setLocationMacros, 1 in "
                  "setRemarkComments, 2 in clear())" % ((w_mac, w_rem, w_err),))
        ok &= writers_ok
        # the single executor reuses one object
        se = _strip_comments(open(os.path.join(ctx.repo, "cli", "singleexecutor.cpp"), encoding="utf-8", errors="replace").read())
        reuse = re.search(r"for\s*\(auto i = mFiles\.cbegin\(\);[^{]*\{\s*result \+= mCppcheck\.check\(\*i\);", se) is not None
        res.oblig("translation:single-executor-loop", reuse, "translation", "" if reuse else "SingleExecutor::check no longer has the modelled loop")
        ok &= reuse
    except ValueError as ex:
        res.oblig("translation:checkInternal-reset-points", False, "translation", "unrecognised shape: %s" % ex)
        ok = False
    # the settings (with the library) cannot be written through the analyzer object: both holders are references to const,
    # and nothing in lib/cppcheck.cpp casts the constness away (check(FileSettings) works on a copy)
    c_src = _strip_comments(src)
    const_ok = (re.search(r"\bconst\s+Settings\s*&\s*mSettings\s*;", _strip_comments(hdr)) is not None and
                len(re.findall(r"\bconst\s+Settings\s*&\s*mSettings\s*;", c_src)) == 1 and
                re.search(r"const_cast\s*<\s*(Settings|Library)", c_src) is None and
                re.search(r"Settings\s+tempSettings\s*=\s*mSettings\s*;", c_src) is not None)
    res.oblig("translation:settings-are-const", const_ok, "translation",
              "" if const_ok else "CppCheck / CppCheckLogger no longer hold `const Settings& mSettings`, or a const_cast on Settings / Library appeared, "
              "or check(FileSettings) no longer copies the settings")
    ok &= const_ok
    # the file test of Suppression::isSuppressed is PathMatch for every suppression (model: exactInline = false)
    try:
        sup = open(os.path.join(ctx.repo, "lib", "suppressions.cpp"), encoding="utf-8", errors="replace").read()
        k = sup.index("SuppressionList::Suppression::isSuppressed(const SuppressionList::ErrorMessage &errmsg) const")
        body, _ = _body(sup, k)
        b = _strip_comments(body)
        pm_ok = len(re.findall(r"!fileName\.empty\(\)\s*&&\s*!PathMatch::match\(fileName,\s*errmsg\.getFileName\(\)\)", b)) == 1 and "isInline" not in b
    except ValueError:
        pm_ok = False
    res.oblig("translation:inline-file-test-is-PathMatch", pm_ok, "translation",
              "" if pm_ok else "Suppression::isSuppressed no longer tests the file name of every suppression with PathMatch::match (the model of record)")
    ok &= pm_ok
    # markUnmatchedInlineSuppressionsAsChecked decides "this entry belongs to the file of the token" by file NAME for every entry
    # (model: markStep / Cfg.fileOf).  An index into a per-translation-unit file table must not be compared: the list is shared.
    try:
        k = sup.index("void SuppressionList::markUnmatchedInlineSuppressionsAsChecked(const TokenList &tokenlist)")
        body, _ = _body(sup, k)
        b = re.sub(r"\s+", " ", _strip_comments(body))
        by_name = len(re.findall(r"suppression\.fileName == tokenlist\.file\(tok\)", b))
        branches = len(re.findall(r"suppression\.checked = true;", b))
        mk_ok = (by_name == 3 and branches == 3 and re.search(r"suppression\.\s*fileIndex|isInline", b) is None and
                 "suppression.lineNumber == currLineNr" in b and "suppression.lineBegin <= currLineNr" in b and "suppression.lineEnd >= currLineNr" in b)
    except (ValueError, NameError):
        mk_ok = False
    res.oblig("translation:mark-checked-by-file-name", mk_ok, "translation",
              "" if mk_ok else "markUnmatchedInlineSuppressionsAsChecked is not the modelled shape: three branches (unique: line, block: range, "
              "other: any line), each guarded by `suppression.fileName == tokenlist.file(tok)` and nothing else that identifies the file "
              "(no fileIndex, no isInline case split)")
    ok &= mk_ok
    return info if ok else None


STATIC_RE = re.compile(r"^(\s*)static\s+(?!inline\b)(?P<decl>[^;(){}=]*?[\w>\*&\]]\s+\**&?(?P<name>\w+)(\[[^\]]*\])?)\s*(?P<init>=|\{|;|\()(?P<rest>.*)$")
GLOBAL_RE = re.compile(r"^(?!static\b|const\b|constexpr\b|using\b|namespace\b|template\b|typedef\b|extern\b|class\b|struct\b|enum\b|inline\b|return\b|#|/|\s)"
                       r"(?P<decl>[\w:<>, \*&]+?[\w>\*&]\s+\**(?P<name>[\w:]+))\s*(=|\{|;)(?P<rest>.*)$")


def scan_statics(repo):
    """function-local statics that are mutable or lazily initialised from a call, and mutable namespace-scope variables"""
    out = []
    files = sorted(glob.glob(os.path.join(repo, "lib", "*.cpp")) + glob.glob(os.path.join(repo, "cli", "*.cpp")) +
                   [os.path.join(repo, "externals", "simplecpp", "simplecpp.cpp")])
    for f in files:
        if not os.path.exists(f):
            continue
        rel = os.path.relpath(f, repo)
        for line in open(f, encoding="utf-8", errors="replace"):
            line = re.sub(r"\s*//.*$", "", line.rstrip("\n"))
            m = STATIC_RE.match(line)
            if m:
                decl, init, rest = m.group("decl"), m.group("init"), m.group("rest")
                if m.group("name") == "operator":
                    continue
                if init == "(" and not re.search(r"\)\s*;\s*$", rest):
                    continue
                # a function prototype: the parenthesis holds parameter declarations (type name [, ...])
                if init == "(" and re.match(r"\s*(const\s+)?[\w:<>]+(\s*[&\*]+\s*|\s+)\w+\s*(,|\)|=)", rest):
                    continue
                const = bool(re.match(r"\s*(const|constexpr)\b", decl))
                call = bool(re.search(r"[A-Za-z_]\w*\s*\(", rest)) if init in "=({" else False
                if const and not call:
                    continue
                out.append("%s: %s %s" % (rel, "lazy-const" if const else "mutable", re.sub(r"\s+", " ", decl.strip())))
                continue
            m = GLOBAL_RE.match(line)
            if m and "(" not in m.group("decl") and "operator" not in line:
                out.append("%s: global %s" % (rel, re.sub(r"\s+", " ", m.group("decl").strip())))
    return sorted(set(out))


def translate_statics(ctx, res):
    found = scan_statics(ctx.repo)
    p = os.path.join(core.VERIF, "corpus", "C17", "statics.json")
    reviewed = json.load(open(p)) if os.path.exists(p) else {}
    new = [s for s in found if s not in reviewed]
    res.extra["statics_enumerated"] = [dict(decl=s, review=reviewed.get(s, "NOT REVIEWED")) for s in found]
    res.oblig("translation:statics-reviewed", not new, "translation",
              "" if not new else "static / global state not in the reviewed list corpus/C17/statics.json (state that survives from one "
              "file to the next): %s" % new[:6])
    return found


# ------------------------------------------------------------------------------------------------
# project generator
# ------------------------------------------------------------------------------------------------

T_FULL = "{file}:{line}:{column}:{severity}:{id}:{message}"
TEMPLATES = [T_FULL] * 14 + ["{file}:{line}:{id}", "{file}:{id}", "{id}", "{line}:{id}:{message}"]


def render(tpl, f):
    loc = f["locs"][0] if f["locs"] else ("nofile", "0", "0")
    return (tpl.replace("{file}", loc[0]).replace("{line}", loc[1]).replace("{column}", loc[2]).replace("{severity}", f["sev"])
            .replace("{id}", f["id"]).replace("{message}", f["msg"]))


def snippet(rng, kind, fn, k):
    """(lines, index of the finding line or None, id)"""
    if kind == "zerodiv":
        return ["int %s(void)" % fn, "{", "  return %d/0;" % k, "}"], 2, "zerodiv"
    if kind == "nullptr":
        return ["int %s(void)" % fn, "{", "  int *p = 0;", "  return *p;", "}"], 3, "nullPointer"
    if kind == "uninit":
        return ["int %s(void)" % fn, "{", "  int x;", "  return x;", "}"], 3, "uninitvar"
    if kind == "macro":
        return ["int %s(void)" % fn, "{", "  return DIV(0);", "}"], 2, "zerodiv"
    return ["int %s(int a)" % fn, "{", "  return a + %d;" % k, "}"], None, None


IDS = ["zerodiv", "nullPointer", "uninitvar"]


def decorate(rng, lines, idx, fid, stats):
    """put suppression / remark comments around the finding line; returns (lines, remark or None)"""
    if idx is None:
        return lines, None
    r = rng.random()
    sid = fid if rng.random() < 0.8 else rng.choice(IDS)
    out = list(lines)
    remark = None
    if r < 0.30:
        out.insert(idx, "  // cppcheck-suppress %s" % sid)
        stats("suppr:own-line")
    elif r < 0.42:
        out[idx] = out[idx] + " // cppcheck-suppress %s" % sid
        stats("suppr:same-line")
    elif r < 0.52:
        # the block comments stand on their own lines before the function and after it
        out = ["// cppcheck-suppress-begin %s" % sid] + out + ["// cppcheck-suppress-end %s" % sid]
        stats("suppr:block")
    elif r < 0.60:
        remark = "why %d" % rng.randrange(100)
        out.insert(idx, "  // REMARK %s" % remark)
        stats("remark")
    else:
        stats("suppr:none")
    return out, remark


def gen_text(rng, path, is_header, includes, stats, force_div=None):
    """content of one file.  Returns (text, remarks [(line, text)])"""
    lines = []
    remarks = []
    base = re.sub(r"\W", "_", path)
    if rng.random() < 0.22:
        lines.append("// cppcheck-suppress-file %s" % rng.choice(IDS))
        stats("suppr:file")
    for inc in includes:
        lines.append('#include "%s"' % inc)
    has_div = force_div if force_div is not None else rng.random() < 0.45
    if has_div:
        if rng.random() < 0.5:
            lines.append("// cppcheck-suppress-macro zerodiv")
            stats("suppr:macro")
        lines.append("#define DIV(x) (%d/(x))" % rng.randrange(1, 9))
    n = rng.choice([1, 1, 2, 3]) if not is_header else rng.choice([0, 1, 1, 2])
    for j in range(n):
        kinds = ["zerodiv", "nullptr", "uninit", "clean"] + (["macro", "macro"] if has_div else [])
        kind = rng.choice(kinds)
        fn = "%s_f%d" % (base, j)
        if rng.random() < 0.3:
            # an inline suppression inside `#if 0`: it matches nothing and its line reaches no token list, so nothing may ever
            # mark it as checked - unless another file's lines are taken for this file's
            lines += ["#if 0", "  // cppcheck-suppress %s" % rng.choice(IDS), "  old_%s(%d);" % (fn, j), "#endif"]
            stats("suppr:dead-code")
        sl, idx, fid = snippet(rng, kind, fn, rng.randrange(1, 9))
        if is_header:
            sl[0] = "static " + sl[0]
        sl, remark = decorate(rng, sl, idx, fid, stats)
        if remark is not None:
            # the remarked token is the first code token after the comment
            k = [i for i, l in enumerate(sl) if "REMARK" in l][0]
            remarks.append((len(lines) + k + 2, remark))
        lines += sl
        stats("snippet:" + kind)
    return "\n".join(lines) + "\n", remarks, has_div


SRC_POOL = ["a.c", "b.c", "c.c", "sub/a.c", "sub/b.c", "lib/a.c", "lib/x.c", "sub/deep/b.c"]
HDR_POOL = ["h.h", "inc/h.h", "inc/g.h", "sub/h.h"]


def gen_project(rng, stats):
    n = rng.choice([3, 3, 4, 4, 5, 6])
    srcs = rng.sample(SRC_POOL, n)
    hdrs = rng.sample(HDR_POOL, rng.choice([0, 1, 1, 2]))
    files, remarks, divs = {}, {}, {}
    for h in hdrs:
        files[h], remarks[h], divs[h] = gen_text(rng, h, True, [], stats)
    for s in srcs:
        incs = [h for h in hdrs if rng.random() < 0.6]
        d = os.path.dirname(s)
        rel = [os.path.relpath(h, d) if d else h for h in incs]
        hdr_div = any(divs[h] for h in incs)
        files[s], remarks[s], _ = gen_text(rng, s, False, rel, stats, force_div=False if hdr_div else None)
    opts = dict(template=rng.choice(TEMPLATES), enable=rng.choice(["all", "all", "warning,style,performance,portability"]), suppress=[])
    if rng.random() < 0.2:
        # a markup file (cfg/qt.cfg: .qml, processed after the code) somewhere in the run
        q = rng.choice(["ui.qml", "sub/view.qml"])
        files[q] = "import QtQuick 2.0\nItem {\n    function f() { return 1 }\n}\n"
        srcs.insert(rng.randrange(len(srcs) + 1), q)
        opts["library"] = "qt"
        stats("markup-file")
    if rng.random() < 0.3:
        k = rng.random()
        if k < 0.4:
            opts["suppress"].append("%s:%s" % (rng.choice(IDS), rng.choice(srcs)))
        elif k < 0.7:
            opts["suppress"].append(rng.choice(IDS))
        else:
            opts["suppress"].append("%s:%s:%d" % (rng.choice(IDS), rng.choice(srcs + hdrs), rng.randrange(2, 8)))
    return dict(files=files, srcs=srcs, remarks={k: v for k, v in remarks.items() if v}, opts=opts)


# ------------------------------------------------------------------------------------------------
# running the real binary
# ------------------------------------------------------------------------------------------------

def write_project(d, proj):
    for p, t in proj["files"].items():
        q = os.path.join(d, p)
        os.makedirs(os.path.dirname(q), exist_ok=True)
        open(q, "w").write(t)


def parse_xml(text):
    """findings in order: dict(id, sev, msg, locs [(file,line,col,info)] newest first as printed, symbols, remark, file0)"""
    k = text.find("<?xml")
    if k < 0:
        return None
    try:
        root = ET.fromstring(text[k:])
    except ET.ParseError:
        return None
    out = []
    for e in root.iter("error"):
        locs = [(l.get("file"), l.get("line"), l.get("column"), l.get("info") or "") for l in e.findall("location")]
        out.append(dict(id=e.get("id"), sev=e.get("severity"), msg=e.get("msg"), verbose=e.get("verbose"), cwe=e.get("cwe") or "",
                        inconclusive=e.get("inconclusive") or "", locs=locs, symbols=[s.text or "" for s in e.findall("symbol")],
                        remark=e.get("remark") or "", file0=e.get("file0") or ""))
    return out


def tag_of(f):
    """identity of a finding (everything printed except file0 and the remark)"""
    return "%s|%s|%s|%s|%s|%s|%s" % (f["id"], f["sev"], f["msg"], f["cwe"], f["inconclusive"],
                                     ";".join("%s:%s:%s:%s" % l for l in f["locs"]), ",".join(f["symbols"]))


def base_args(ctx, opts, inline=True, emit=False, supp=True):
    a = [ctx.cppcheck, "-q", "--xml", "--inconclusive", "--enable=" + opts["enable"], "--template=" + opts["template"], "--error-exitcode=9"]
    if opts.get("library"):
        a.append("--library=" + opts["library"])
    if inline:
        a.append("--inline-suppr")
    if emit or opts.get("emit"):
        a.append("--emit-duplicates")
    if supp:
        a += ["--suppress=" + s for s in opts["suppress"]]
    return a


def run_cpp(args, cwd):
    rc, so, se = _sh(args, cwd=cwd, timeout=120)
    return rc, parse_xml(se), se


def parse_dump(path):
    """inline suppressions (in order) and the location-macro map of the single configuration"""
    try:
        root = ET.parse(path).getroot()
    except (ET.ParseError, OSError):
        return None
    supprs = []
    for s in root.iter("suppression"):
        if s.get("inline") != "true":
            continue
        supprs.append(dict(id=s.get("errorId") or "", file=s.get("fileName") or "", line=int(s.get("lineNumber") or -1),
                           symbol=s.get("symbolName") or "", type=s.get("type") or "unique",
                           lb=int(s.get("lineBegin") or -1), le=int(s.get("lineEnd") or -1)))
    dumps = root.findall("dump")
    macros = {}
    toks = []
    for d in dumps[-1:]:
        tl = d.find("tokenlist")
        for t in (tl if tl is not None else []):
            mn = t.get("macroName")
            if mn:
                macros.setdefault((t.get("file"), int(t.get("linenr"))), set()).add(mn)
            fl = (t.get("file"), int(t.get("linenr")))
            if not toks or toks[-1] != fl:
                toks.append(fl)
    return supprs, macros, len(dumps), toks


def macro_name_at(d, file, line):
    try:
        l = open(os.path.join(d, file)).read().split("\n")[line - 1]
    except (OSError, IndexError):
        return ""
    m = re.match(r"\s*#\s*define\s+(\w+)", l)
    return m.group(1) if m else ""


# ------------------------------------------------------------------------------------------------
# wire encoding for the driver
# ------------------------------------------------------------------------------------------------

TYPECH = {"unique": "u", "file": "f", "block": "b", "macro": "m", "blockBegin": "B", "blockEnd": "E"}


def enc_suppr(s):
    return ":".join([core.hx(s["id"]), core.hx(s["file"]), str(s["line"]), core.hx(s.get("symbol", "")), TYPECH[s["type"]],
                     str(s.get("lb", -1)), str(s.get("le", -1)), "1" if s.get("tnl") else "0", core.hx(s.get("macro", "")),
                     "1" if s.get("inline", True) else "0"])


def enc_finding(f, tpl, tagidx):
    loc = f["locs"][0] if f["locs"] else None
    return ":".join([core.hx(f["id"]), "1" if loc else "0", core.hx(loc[0] if loc else f["file0"]), loc[1] if loc else "-1",
                     core.hx("\n".join(f["symbols"])), core.hx(render(tpl, f).encode("utf-8").decode("latin-1")), "0",
                     "1" if f["id"] in WP_IDS else "0", core.hx(str(tagidx))])


def enc_trace(tr):
    evs = ["1" if tr.get("early") else "0"]
    if tr.get("probe"):
        evs.append("P" + tr["probe"])
    for p in tr.get("probes") or []:
        evs.append("P" + p)
    for s in tr["supprs"]:
        evs.append("S" + enc_suppr(s))
    if tr.get("remarks") is not None:
        evs.append("R" + ("+".join("%s@%d@%s" % (core.hx(f), l, core.hx(t)) for f, l, t in tr["remarks"]) or "."))
    if tr.get("macros") is not None:
        evs.append("M" + ("+".join("%s@%d@%s" % (core.hx(f), l, "&".join(core.hx(n) for n in sorted(ns)))
                                   for (f, l), ns in sorted(tr["macros"].items())) or "."))
    if tr.get("marks") is not None:
        evs.append("K" + ("+".join("%s@%d" % (core.hx(f), l) for f, l in tr["marks"]) or "."))
    for x in tr["reports"]:
        evs.append("X" + x)
    return "|".join(evs)


def parse_cmd_suppr(s):
    p = s.split(":")
    return dict(id=p[0], file=p[1] if len(p) > 1 else "", line=int(p[2]) if len(p) > 2 else -1, type="unique", inline=False)


def parse_model(line):
    """driver answer -> ([dict(F=[tags], R=[tags], E=int, I=bits)], shown tags)"""
    parts = line.split(" ")
    per, shown = [], []
    for p in parts:
        if p.startswith("SHOWN="):
            shown = [t for t in p[6:].split(",") if t]
            continue
        if p.startswith("UNM="):
            continue
        d = dict(kv.split("=", 1) for kv in p.split(";"))
        per.append(dict(F=[t for t in d["F"].split(",") if t], R=[t for t in d["R"].split(",") if t], E=int(d["E"]), I=d["I"]))
    return per, shown


def parse_unm(line):
    """driver answer -> set of (id, file, line) of the inline suppressions getUnmatchedInlineSuppressions returns"""
    out = set()
    for p in line.split(" "):
        if p.startswith("UNM="):
            for u in [x for x in p[4:].split(",") if x]:
                i, f, l = u.split("@")
                out.add((core.unhx(i).decode("latin-1"), core.unhx(f).decode("latin-1"), int(l)))
    return out


def real_unmatched(findings):
    """(id, file, line) of the unmatchedSuppression findings of a run"""
    out = set()
    for x in findings:
        if x["id"] == "unmatchedSuppression" and x["locs"] and x["msg"].startswith("Unmatched suppression: "):
            out.add((x["msg"][len("Unmatched suppression: "):], x["locs"][0][0], int(x["locs"][0][1])))
    return out


def untag(t):
    """'hex(idx)~hex(remark)' -> (idx, remark)"""
    a, _, b = t.partition("~")
    return int(core.unhx(a).decode()), (core.unhx(b).decode("latin-1") if b else "")


# ------------------------------------------------------------------------------------------------
# one project: traces from the alone runs, predictions, comparisons
# ------------------------------------------------------------------------------------------------

class Tags:
    """finding identities <-> small integers (the tag travelling through the driver)"""
    def __init__(self):
        self.idx, self.items = {}, []

    def of(self, f):
        t = tag_of(f)
        if t not in self.idx:
            self.idx[t] = len(self.items)
            self.items.append(t)
        return self.idx[t]


def non_wp(fs):
    return [f for f in fs if f["id"] not in WP_IDS]


def observe_alone(ctx, d, proj, f):
    """three runs of one file alone: raw reports, dump, the real alone result"""
    opts = proj["opts"]
    rc1, raw, se1 = run_cpp(base_args(ctx, opts, inline=False, emit=True, supp=False) + [f], d)
    rc2, _, se2 = _sh([ctx.cppcheck, "-q", "--dump", "--inline-suppr"] + (["--library=" + opts["library"]] if opts.get("library") else []) + [f],
                          cwd=d, timeout=120)
    if f.endswith(".qml"):
        # markup file: checkInternal returns before anything is read into the logger (no suppressions, no dump)
        dump = ([], {}, 1, [])
    else:
        dump = parse_dump(os.path.join(d, f + ".dump"))
    try:
        os.remove(os.path.join(d, f + ".dump"))
    except OSError:
        pass
    rc3, alone, se3 = run_cpp(base_args(ctx, opts) + [f], d)
    return dict(raw=raw, dump=dump, alone=alone, rc=rc3, err=(se1[-300:], se2[-300:], se3[-300:]))


def build_trace(d, proj, f, obs, tags):
    supprs, macros, ncfg, toks = obs["dump"]
    S = []
    for s in supprs:
        s = dict(s)
        if s["type"] == "macro":
            s["macro"] = macro_name_at(d, s["file"], s["line"])
        S.append(s)
    rem = []
    for hf, lst in proj["remarks"].items():
        for (line, text) in lst:
            rem.append((hf, line, text))
    # only the remarks of files this translation unit contains are set; a foreign file's remark cannot match its locations anyway
    reports = [enc_finding(x, proj["opts"]["template"], tags.of(x)) for x in non_wp(obs["raw"])]
    # CppCheck::check(file): the dummy isSuppressed call with an empty id for the path of the file
    probe = ":".join([core.hx(""), "0", core.hx(f), "-1", core.hx(""), core.hx("probe"), "0", "0", core.hx("probe")])
    if f.endswith(".qml"):
        return dict(supprs=[], remarks=None, macros=None, reports=reports, early=True, probe=probe, marks=None)
    return dict(supprs=S, remarks=rem, macros=macros, reports=reports, early=False, probe=probe, marks=sorted(set(toks), key=toks.index))


def flags(variant, emit=False):
    return ("1" if emit else "0") + ("1" if variant["clear_at_start"] else "0") + ("1" if variant["exact_inline"] else "0")


def classify_one(x, order, traces):
    """F17a / F17b class of one finding that is missing in a company run, from the suppressions and location macros the files
    of the run contribute (extracted from their dumps), or None"""
    loc = x["locs"][0] if x["locs"] else None
    hit = None
    if loc:
        for g in order:
            for s in traces[g]["supprs"]:
                if s["type"] == "macro":
                    # F17b: a macro suppression of another file, the macro name is used on the line of the finding
                    if s["id"] == x["id"] and s["file"] != loc[0] and any(
                            s.get("macro") in ns for fm in order for (mf, ml), ns in (traces[fm]["macros"] or {}).items()
                            if mf == loc[0] and str(ml) == loc[1]):
                        hit = hit or K_MACRO
                # F17a: a suppression written in another file whose relative name is a path tail of the finding's file
                elif s["id"] == x["id"] and s["file"] != loc[0] and loc[0].endswith("/" + s["file"]) and \
                        (s["type"] != "unique" or str(s["line"]) == loc[1]) and \
                        (s["type"] != "block" or s["lb"] <= int(loc[1]) <= s["le"]):
                    hit = K_TAIL
    return hit


def classify_unmatched(u, in_company, f, order, traces, obs):
    """known class of a difference in the unmatchedSuppression findings located in the source file f (u = (id, file, line)):
    the path-tail rule (F17a) or the macro rule (F17b) lets a finding of ANOTHER file of the run reach f's entry"""
    uid, ufile, uline = u
    entry = next((s for s in traces[f]["supprs"] if (s["id"], s["file"], s["line"]) == u), None)
    if entry is None:
        return None
    for g in order:
        if g == f or g not in obs:
            continue
        for x in obs[g]["raw"] or []:
            loc = x["locs"][0] if x["locs"] else None
            if not loc:
                continue
            if entry["type"] == "macro":
                # matched in company by a finding of g on a line that uses a macro of that name
                if not in_company and x["id"] == uid and any(entry.get("macro") in ns for (mf, ml), ns in (traces[g]["macros"] or {}).items()
                                                            if mf == loc[0] and str(ml) == loc[1]):
                    return K_MACRO
                continue
            tail = loc[0] != ufile and loc[0].endswith("/" + ufile)
            line_ok = entry["type"] != "unique" or str(uline) == loc[1]
            block_ok = entry["type"] != "block" or entry["lb"] <= int(loc[1]) <= entry["le"]
            if tail and line_ok:
                # in company the entry is matched (same id) or merely touched = checked (any id) by g's finding
                if (not in_company and x["id"] == uid and block_ok) or in_company:
                    return K_TAIL
        # the dummy isSuppressed call of check(g) touches file / block entries whose name is a path tail of g
        if in_company and entry["type"] in ("file", "block") and g.endswith("/" + ufile):
            return K_TAIL
    return None


def classify(proj, d, order, missing, extra, traces, tags_items, variant):
    """groups of a company/alone difference: {key of a known finding class or None: [findings]}"""
    tpl = proj["opts"]["template"]
    groups = {}
    texts = {}
    for f in order:
        for x in proj["_alone"][f]:
            texts.setdefault(render(tpl, x), set()).add(tag_of(x))
    for x in missing:
        # F17c: two different findings of the union render to the same text
        if len(texts.get(render(tpl, x), ())) > 1:
            groups.setdefault(K_TEXT, []).append(x)
            continue
        hit = classify_one(x, order, traces)
        groups.setdefault(hit, []).append(x)
    # an extra finding whose rendered text equals that of a missing finding of a known class: alone, the duplicate filter of the
    # file dropped it behind that finding (template without line); in company the other one is suppressed and this one is shown
    if extra:
        rest = []
        for x in extra:
            k = next((key for key, items in groups.items() if key in (K_TAIL, K_MACRO) and
                      any(render(tpl, y) == render(tpl, x) and y["locs"] and x["locs"] and y["locs"][0][0] == x["locs"][0][0] for y in items)), None)
            if k is None:
                rest.append(x)
            else:
                groups[k].append(x)
        if rest:
            groups.setdefault(None, []).extend(rest)
    return groups


def eval_project(ctx, res, drv, proj, variant, k, orders=None, extra_exec=False):
    d = os.path.join(ctx.tmp, "p%d" % k)
    os.makedirs(d, exist_ok=True)
    write_project(d, proj)
    srcs = proj["srcs"]
    opts = proj["opts"]
    tags = Tags()
    obs = {f: observe_alone(ctx, d, proj, f) for f in srcs}
    for f in srcs:
        o = obs[f]
        if o["raw"] is None or o["dump"] is None or o["alone"] is None:
            res.oblig("machinery:alone-run", False, "machinery", "cannot observe %s alone: %s" % (f, o["err"]))
            shutil.rmtree(d, ignore_errors=True)
            return None
        if o["dump"][2] != 1:
            res.count("skipped:multi-config")
            shutil.rmtree(d, ignore_errors=True)
            return None
    traces = {f: build_trace(d, proj, f, obs[f], tags) for f in srcs}
    proj["_alone"] = {f: non_wp(obs[f]["alone"]) for f in srcs}
    # the whole-program phase asks the suppression list about its findings too (flags only): one pseudo file of probes
    wp_raw = {f: [x for x in obs[f]["raw"] if x["id"] in WP_IDS and x["id"] not in ("unmatchedSuppression", "checkersReport")] for f in srcs}

    def wp_trace(files):
        return dict(supprs=[], remarks=None, macros=None, reports=[], early=True, marks=None,
                    probes=[enc_finding(x, opts["template"], tags.of(x)) for g in files for x in wp_raw[g]])
    unm_ok = opts["enable"] == "all" and opts["template"] == T_FULL
    inline_all = set((s["id"], s["file"], s["line"]) for f in srcs for s in traces[f]["supprs"])
    init = ";".join(enc_suppr(parse_cmd_suppr(s)) for s in opts["suppress"]) or "."
    fl = flags(variant, emit=bool(opts.get("emit")))
    # 1. the model reproduces every alone run from the trace
    ops = ["run %s %s %s %s" % (fl, init, enc_trace(traces[f]), enc_trace(wp_trace([f]))) for f in srcs]
    rng = ctx.rng
    if orders is None:
        orders = [sorted(srcs), sorted(srcs, reverse=True)]
        for _ in range(3 if ctx.tier == "thorough" else 1):
            o = list(srcs)
            rng.shuffle(o)
            if o not in orders:
                orders.append(o)
    ops += ["run %s %s %s %s" % (fl, init, " ".join(enc_trace(traces[f]) for f in o), enc_trace(wp_trace(o))) for o in orders]
    rc, mo, me = core.run_lines(drv, [], ops)
    if len(mo) != len(ops) or any(l == "bad-op" for l in mo):
        raise core.CheckBroken("C17 driver rejected an op: %s / %s" % ([o[:200] for o, l in zip(ops, mo) if l == "bad-op"][:1], me[-300:]))
    bad_alone, bad_comp = [], []
    for i, f in enumerate(srcs):
        per, shown = parse_model(mo[i])
        want = [(tags.items[untag(t)[0]], untag(t)[1]) for t in shown]
        got = [(tag_of(x), x["remark"]) for x in proj["_alone"][f]]
        okc = want == got
        if opts["enable"] != "all":
            okc = okc and ((obs[f]["rc"] == 9) == (per[0]["E"] != 0))
        unm_model, unm_real = None, None
        if unm_ok:
            # unmatchedSuppression findings for inline suppressions = getUnmatchedInlineSuppressions of the model's final state
            unm_model = sorted(parse_unm(mo[i]))
            unm_real = sorted(real_unmatched(obs[f]["alone"]) & inline_all)
            okc = okc and unm_model == unm_real
            res.count("unmatched-inline:alone:%d" % min(len(unm_real), 2))
        res.case("alone|" + ops[i], len(got) > 0, None)
        if okc:
            res.traces_validated += 1
        else:
            bad_alone.append(dict(file=f, model=want, impl=got, rc=obs[f]["rc"], modelE=per[0]["E"], unmatched_model=unm_model,
                                  unmatched_impl=unm_real, text=proj["files"][f]))
    # 2. company runs
    viol = []
    union = {}
    for f in srcs:
        for x in proj["_alone"][f]:
            union.setdefault(tag_of(x), x)
    nfind = sum(1 for f in srcs if proj["_alone"][f])
    nontriv = nfind >= 2 and (any(traces[f]["supprs"] for f in srcs) or len(set(proj["files"]) - set(srcs)) > 0)
    for j, o in enumerate(orders):
        rcc, comp, se = run_cpp(base_args(ctx, opts) + o, d)
        if comp is None:
            res.oblig("machinery:company-run", False, "machinery", "no xml from company run: " + se[-300:])
            continue
        comp_all = comp
        comp = non_wp(comp)
        per, shown = parse_model(mo[len(srcs) + j])
        want = [(tags.items[untag(t)[0]], untag(t)[1]) for t in shown]
        got = [(tag_of(x), x["remark"]) for x in comp]
        okc = want == got
        if opts["enable"] != "all":
            okc = okc and ((rcc == 9) == any(p["E"] != 0 for p in per))
        unm_model, unm_real = None, None
        if unm_ok:
            unm_model = sorted(parse_unm(mo[len(srcs) + j]))
            unm_real = sorted(real_unmatched(comp_all) & inline_all)
            okc = okc and unm_model == unm_real
            # P_impl for the unmatchedSuppression findings located in a source file: company = alone
            for f in o:
                if f not in traces or not f.endswith(".c"):
                    continue
                # inline suppressions only: the "file" of an unmatched command-line suppression is its pattern (zerodiv:a.c is
                # meant to cover lib/a.c as well), not a file of the run
                ua = set(u for u in real_unmatched(obs[f]["alone"]) if u[1] == f and u in inline_all)
                uc = set(u for u in real_unmatched(comp_all) if u[1] == f and u in inline_all)
                res.count("unmatched-in-source:" + ("same" if ua == uc else "differs"))
                for u in sorted(ua ^ uc):
                    key = classify_unmatched(u, u in uc, f, o, traces, obs)
                    viol.append((key, o, [], []))
                    res.violation("company run %s: unmatchedSuppression %s located in %s is %s, but %s when %s is analysed alone" %
                                  (o, u, f, "reported" if u in uc else "not reported", "not reported" if u in uc else "reported", f),
                                  dict(files=proj["files"], order=o, opts=opts, unmatched=list(u), company=sorted(uc), alone=sorted(ua)),
                                  concrete=True, key=key)
        res.case("company|" + ops[len(srcs) + j], nontriv,
                 dict(order=o, template=opts["template"], impl=[g[0][:80] for g in got][:4], model=[w[0][:80] for w in want][:4],
                      indep=[p["I"] for p in per]) if (k + j) % 17 == 0 else None)
        res.count("files:%d" % len(o))
        res.count("indep:" + ("all" if all(p["I"] == "11111" for p in per) else "excluded-point"))
        if okc:
            res.traces_validated += 1
        else:
            bad_comp.append(dict(order=o, model=want, impl=got, rc=rcc, modelE=[p["E"] for p in per], unmatched_model=unm_model,
                                 unmatched_impl=unm_real))
        # P_impl, independent of the model
        gset = set(t for t, _ in got)
        missing = [union[t] for t in union if t not in gset]
        extra = [x for x in comp if tag_of(x) not in union]
        keys = set()
        if missing or extra:
            groups = classify(proj, d, o, missing, extra, traces, tags.items, variant)
            keys = set(groups)
            for key, items in groups.items():
                viol.append((key, o, [x for x in items if x in missing], [x for x in items if x in extra]))
                res.violation("company run %s: findings %s compared with the alone runs: %s" %
                              (o, "missing" if key is not None or not extra else "missing / extra", [tag_of(x)[:90] for x in items][:3]),
                              dict(files=proj["files"], order=o, opts=opts, findings=[tag_of(x) for x in items],
                                   missing=[tag_of(x) for x in missing], extra=[tag_of(x) for x in extra]),
                              concrete=True, key=key)
        # the model must see the same hypothesis failing
        if (missing or extra) and keys != {K_TEXT} and all(p["I"] == "11111" for p in per):
            bad_comp.append(dict(order=o, note="implementation differs from the alone runs although Indep holds for every file in the model"))
        if extra_exec and len(o) >= 2:
            for ex in ("thread", "process"):
                rce, compe, see = run_cpp(base_args(ctx, opts) + ["-j2", "--executor=" + ex] + o, d)
                if compe is None:
                    continue
                gs = set(tag_of(x) for x in non_wp(compe))
                miss = [union[t] for t in union if t not in gs]
                extr = [x for x in non_wp(compe) if tag_of(x) not in union]
                res.case("exec|%s|%s" % (ex, ops[len(srcs) + j]), nontriv, None)
                if miss or extr:
                    for key, items in classify(proj, d, o, miss, extr, traces, tags.items, variant).items():
                        res.violation("-j2 --executor=%s %s: findings differ from the alone runs: %s" % (ex, o, [tag_of(x)[:90] for x in items][:3]),
                                      dict(files=proj["files"], order=o, opts=opts, executor=ex, findings=[tag_of(x) for x in items]),
                                      concrete=True, key=key)
    shutil.rmtree(d, ignore_errors=True)
    return dict(bad_alone=bad_alone, bad_comp=bad_comp, viol=viol, traces=traces)


# ------------------------------------------------------------------------------------------------
# build-dir histories (early return of checkInternal: results replayed from the cache)
# ------------------------------------------------------------------------------------------------

def ainfo_errors(bd, d):
    """file -> sorted list of (id, first location) recorded in the analyzer information"""
    out = {}
    ft = os.path.join(bd, "files.txt")
    if not os.path.exists(ft):
        return out
    for line in open(ft):
        p = line.rstrip("\n").split(":")
        if len(p) < 4:
            continue
        a, src = p[0], p[-1]
        try:
            root = ET.parse(os.path.join(bd, a)).getroot()
        except (ET.ParseError, OSError):
            continue
        es = []
        for e in root.findall("error"):
            l = e.find("location")
            es.append((e.get("id"), l.get("file") if l is not None else "", l.get("line") if l is not None else ""))
        out[src] = sorted(es)
    return out


def bd_history(ctx, res, files, touch, opts_extra, k, cold_alone=False):
    """cold company run, change the files in `touch`, then warm company run and warm alone runs on copies of the build dir.
    Returns per-file analyzer-information contents and printed findings for both."""
    d = os.path.join(ctx.tmp, "b%d" % k)
    os.makedirs(os.path.join(d, "bd"), exist_ok=True)
    write_project(d, dict(files=files))
    srcs = sorted(p for p in files if p.endswith(".c"))
    args = [ctx.cppcheck, "-q", "--xml", "--template=" + T_FULL, "--cppcheck-build-dir=bd"] + opts_extra
    rc0, cold, _ = run_cpp(args + srcs, d)
    cold_comp_info = ainfo_errors(os.path.join(d, "bd"), d)
    cold_alone_info = {}
    if cold_alone:
        for f in srcs:
            b = "cbd_" + re.sub(r"\W", "_", f)
            os.makedirs(os.path.join(d, b), exist_ok=True)
            a2 = [x if not x.startswith("--cppcheck-build-dir") else "--cppcheck-build-dir=" + b for x in args]
            run_cpp(a2 + [f], d)
            cold_alone_info[f] = ainfo_errors(os.path.join(d, b), d).get(f)
    for t, newtext in touch.items():
        open(os.path.join(d, t), "w").write(newtext)
    alone = {}
    for f in srcs:
        shutil.copytree(os.path.join(d, "bd"), os.path.join(d, "bd_" + re.sub(r"\W", "_", f)))
    rc1, warm, _ = run_cpp(args + srcs, d)
    comp_info = ainfo_errors(os.path.join(d, "bd"), d)
    alone_info = {}
    for f in srcs:
        b = "bd_" + re.sub(r"\W", "_", f)
        a2 = [x if not x.startswith("--cppcheck-build-dir") else "--cppcheck-build-dir=" + b for x in args]
        rca, fa, _ = run_cpp(a2 + [f], d)
        alone[f] = non_wp(fa or [])
        alone_info[f] = ainfo_errors(os.path.join(d, b), d).get(f)
    shutil.rmtree(d, ignore_errors=True)
    return dict(srcs=srcs, cold=non_wp(cold or []), warm=non_wp(warm or []), alone=alone, comp_info=comp_info, alone_info=alone_info,
                cold_comp_info=cold_comp_info, cold_alone_info=cold_alone_info)


def bd_checks(ctx, res, variant):
    """the two build-dir witnesses (F17d, F17e) and a few generated histories; P_impl on the analyzer information"""
    H = "static int hdiv(void)\n{\n  return 3/0;\n}\n"
    w1 = {"h.h": H, "a.c": '#include "h.h"\nint fa(void) { return hdiv(); }\n', "b.c": '#include "h.h"\nint fb(void) { return hdiv(); }\n'}
    r = bd_history(ctx, res, w1, {"b.c": '#include "h.h"\nint fb(void) { return hdiv() + 1; }\n'}, [], 1)
    res.case("bd|leak-witness", True, dict(witness="F17d", company_info=r["comp_info"].get("b.c"), alone_info=r["alone_info"].get("b.c")))
    leaked = r["comp_info"].get("b.c") != r["alone_info"].get("b.c")
    if leaked:
        # repaired by 8f62378: a reappearance is a violation, not a known finding
        res.violation("warm build dir: the analyzer information written for the re-analysed b.c lacks the header finding when the cached "
                      "a.c (same header) precedes it: company %s, alone %s" % (r["comp_info"].get("b.c"), r["alone_info"].get("b.c")),
                      dict(files=w1, history="cold run a.c b.c; change b.c; warm run a.c b.c vs warm run b.c"), concrete=True, key=None)
    res.count("bd:leak-witness:" + ("reproduced" if leaked else "absent"))
    w2 = {"a.c": "// cppcheck-suppress-macro zerodiv\n#define DIV(x) (1/(x))\nint f(void)\n{\n  return DIV(0);\n}\n"}
    r2 = bd_history(ctx, res, w2, {}, ["--inline-suppr"], 2)
    res.case("bd|stale-macro-witness", True, dict(witness="F17e", cold=[tag_of(x) for x in r2["cold"]], warm=[tag_of(x) for x in r2["warm"]]))
    if [tag_of(x) for x in r2["cold"]] != [tag_of(x) for x in r2["warm"]]:
        res.violation("a finding suppressed through cppcheck-suppress-macro is printed when the results come from the build dir (the "
                      "location macros are empty or those of the previous file): fresh %s, cached %s" %
                      ([tag_of(x) for x in r2["cold"]], [tag_of(x)[:80] for x in r2["warm"]]),
                      dict(files=w2, history="run twice with --inline-suppr --cppcheck-build-dir"), concrete=True, key=K_STALE)
        res.count("bd:stale-witness:reproduced")
    # generated histories: shared header findings, a random subset re-analysed
    rng = ctx.rng
    n = 10 if ctx.tier == "thorough" else 3
    for i in range(n):
        hs = {"h.h": "static int h1(void)\n{\n  return %d/0;\n}\n" % rng.randrange(1, 9)}
        srcs = rng.sample(["a.c", "b.c", "c.c", "d.c"], rng.choice([2, 3, 4]))
        files = dict(hs)
        for s in srcs:
            body = "int %s_f(void)\n{\n  int *p = 0;\n  return *p;\n}\n" % s[0] if rng.random() < 0.5 else "int %s_g(int a) { return a; }\n" % s[0]
            files[s] = ('#include "h.h"\n' if rng.random() < 0.7 else "") + body
        touch = {s: files[s] + "int %s_t(void) { return %d; }\n" % (s[0], i) for s in srcs if rng.random() < 0.5}
        r = bd_history(ctx, res, files, touch, [], 10 + i, cold_alone=True)
        cdiff = [s for s in r["srcs"] if r["cold_comp_info"].get(s) != r["cold_alone_info"].get(s)]
        if cdiff:
            res.violation("cold build dir: analyzer information of %s differs between the company run and the alone run" % cdiff,
                          dict(files=files, company={s: r["cold_comp_info"].get(s) for s in cdiff}, alone={s: r["cold_alone_info"].get(s) for s in cdiff}),
                          concrete=True, key=None)
        diff = [s for s in r["srcs"] if r["comp_info"].get(s) != r["alone_info"].get(s)]
        res.case("bd|%s|%s" % (json.dumps(files, sort_keys=True), sorted(touch)), len(touch) > 0, None)
        res.count("bd:histories")
        if diff:
            res.violation("warm build dir: analyzer information of %s differs between company and alone" % diff,
                          dict(files=files, touched=sorted(touch), company={s: r["comp_info"].get(s) for s in diff},
                               alone={s: r["alone_info"].get(s) for s in diff}), concrete=True, key=None)
        u = set()
        for s in r["srcs"]:
            u |= set(tag_of(x) for x in r["alone"][s])
        if u != set(tag_of(x) for x in r["warm"]):
            res.violation("warm build dir: printed findings of the company run differ from the union of the alone runs",
                          dict(files=files, touched=sorted(touch), company=sorted(tag_of(x) for x in r["warm"]), alone=sorted(u)), concrete=True, key=None)


# ------------------------------------------------------------------------------------------------

# ------------------------------------------------------------------------------------------------
# per-file project settings: CppCheck::check(const FileSettings&) through --project=compile_commands.json
# ------------------------------------------------------------------------------------------------

def project_run(ctx, d, entries, opts, name):
    """entries: [(file, [defines])] -> findings of `cppcheck --project=<name>` (paths are absolute in this mode)"""
    db = [dict(directory=d, file=os.path.join(d, f), command="gcc %s -c %s" % (" ".join("-D" + x for x in defs), f)) for f, defs in entries]
    json.dump(db, open(os.path.join(d, name), "w"))
    a = [ctx.cppcheck, "-q", "--xml", "--inconclusive", "--enable=warning,style,performance,portability", "--template=" + T_FULL,
         "--inline-suppr", "--project=" + name] + ["--suppress=" + x for x in opts["suppress"]]
    rc, fs, se = run_cpp(a, d)
    return rc, fs, se


def eval_filesettings(ctx, res, proj, k, traces):
    """model-free: every file alone in a one-entry project vs all files in one project, in two orders; per-file defines"""
    srcs = [f for f in proj["srcs"] if f.endswith(".c")]
    if len(srcs) < 2:
        return
    d = os.path.join(ctx.tmp, "fs%d" % k)
    os.makedirs(d, exist_ok=True)
    write_project(d, proj)
    rng = ctx.rng
    defs = {f: ["CFG_%d=%d" % (i, rng.randrange(9))] * (rng.random() < 0.7) for i, f in enumerate(srcs)}
    union, alone = {}, {}
    for f in srcs:
        rc, fs, se = project_run(ctx, d, [(f, defs[f])], proj["opts"], "one.json")
        if fs is None:
            res.oblig("machinery:project-run", False, "machinery", "no xml from --project run: " + se[-300:])
            shutil.rmtree(d, ignore_errors=True)
            return
        alone[f] = non_wp(fs)
        for x in alone[f]:
            union.setdefault(tag_of(x), x)
    for o in (sorted(srcs), sorted(srcs, reverse=True)):
        rc, fs, se = project_run(ctx, d, [(f, defs[f]) for f in o], proj["opts"], "all.json")
        if fs is None:
            continue
        comp = non_wp(fs)
        gs = set(tag_of(x) for x in comp)
        res.case("filesettings|%s|%s" % (json.dumps(proj["files"], sort_keys=True), o), len(union) >= 2,
                 dict(mode="--project", order=o, defines=defs, findings=len(comp)) if k % 5 == 0 else None)
        res.count("filesettings:runs")
        missing = [union[t] for t in union if t not in gs]
        extra = [x for x in comp if tag_of(x) not in union]
        if not missing and not extra:
            res.traces_validated += 1
        groups = {}
        for x in missing:
            groups.setdefault(classify_one(x, o, traces), []).append(x)
        if extra:
            groups.setdefault(None, []).extend(extra)
        for key, items in groups.items():
            res.violation("--project run %s: findings differ from the one-entry project runs: %s" % (o, [tag_of(x)[:90] for x in items][:3]),
                          dict(files=proj["files"], order=o, opts=proj["opts"], defines=defs, mode="compile_commands.json",
                               findings=[tag_of(x) for x in items]), concrete=True, key=key)
    shutil.rmtree(d, ignore_errors=True)


def load_witnesses():
    p = os.path.join(core.VERIF, "corpus", "C17", "witnesses.json")
    return json.load(open(p)) if os.path.exists(p) else []


def detect_variant(ctx, res, info):
    """the model of record: clear() at the start of checkInternal (8f62378; the translator fails closed on the old shape),
    PathMatch file test for inline suppressions (the exact-name repair was rejected: it breaks -rp with several base paths)"""
    return dict(clear_at_start=True, exact_inline=False)


def run(ctx, res):
    core.prove(ctx, res, MODULES, THEOREMS)
    info = translate_state(ctx, res)
    translate_statics(ctx, res)
    drv = ctx.driver("drv_c17")
    variant = detect_variant(ctx, res, info)
    res.extra["code_variant"] = variant
    res.assumptions += [
        "the analysis of one file (tokenizer, symbol database, value flow, checkers) is a function of that file, its includes and the "
        "options: it is the parameter `analyze` of every theorem and is only sampled by the CLI tie",
        "static state in lib/, cli/, simplecpp is what the scanner lists (evidence: statics_enumerated, 31 entries reviewed by hand in "
        "corpus/C17/statics.json); none of it is proved not to influence a later file",
        "admitted carried state: lib/cppcheck.cpp `detectedPythonExe` (python executable detected with the executeCommand of the first "
        "file that runs an addon, reused for all later files) - addons are outside the model",
        "admitted carried state: `Settings::mTerminated` (termination request; once set every later file returns at once) - a run-level "
        "event, not a dependence on file content",
        "Settings / Library are not written by CppCheck::check: both holders are `const Settings&` and no const_cast exists in "
        "lib/cppcheck.cpp (obligation translation:settings-are-const); `mutable` members of Library / Settings are not examined here",
        "H4 (staleRemarksOK) is believed to hold for every real trace (a finding reported before setRemarkComments is always followed by "
        "`return`, and the remark comments left behind name files the earlier file contained); no witness was found, it is not proved",
        "the Check singletons (lib/checks.cpp s_checks) keep no data between runChecks calls (runChecks builds a local object) - by reading",
    ]
    rng = ctx.rng
    stats = res.count
    projects = []
    for w in load_witnesses():
        projects.append((w, w.get("orders")))
    n = 120 if ctx.tier == "thorough" else 12
    for _ in range(n):
        projects.append((gen_project(rng, stats), None))
    thorough = ctx.tier == "thorough"

    def work(item):
        k, (proj, orders) = item
        try:
            out = eval_project(ctx, res, drv, proj, variant, k, orders, extra_exec=thorough and k % 4 == 0)
            if orders is None and k % 2 == 0 and out and "traces" in out:
                eval_filesettings(ctx, res, proj, k, out["traces"])
            return out
        except core.CheckBroken as ex:
            return dict(broken=str(ex))
        except Exception:
            import traceback
            return dict(broken="project %d: %s" % (k, traceback.format_exc()[-1800:]))
    import time
    t0 = time.time()
    with ThreadPoolExecutor(max_workers=8) as ex:
        outs = list(ex.map(work, list(enumerate(projects))))
    res.extra["projects_s"] = round(time.time() - t0, 1)
    bad_alone, bad_comp = [], []
    for o in outs:
        if o is None:
            continue
        if "broken" in o:
            res.oblig("machinery", False, "machinery", o["broken"])
            continue
        bad_alone += o["bad_alone"]
        bad_comp += o["bad_comp"]
    res.oblig("correspondence:alone-run-from-trace", not bad_alone, "correspondence",
              "" if not bad_alone else "%d alone runs differ from the model run on the extracted trace; first: %s" %
              (len(bad_alone), json.dumps(bad_alone[0])[:1500]))
    res.oblig("correspondence:company-run-from-alone-traces", not bad_comp, "correspondence",
              "" if not bad_comp else "%d company runs differ from the model prediction; first: %s" % (len(bad_comp), json.dumps(bad_comp[0])[:1500]))
    t0 = time.time()
    bd_checks(ctx, res, variant)
    res.extra["builddir_s"] = round(time.time() - t0, 1)


def replay(ctx, res, rp):
    drv = ctx.driver("drv_c17")
    info = translate_state(ctx, res)
    variant = detect_variant(ctx, res, info)
    if "files" in rp and "order" in rp and "opts" in rp:
        proj = dict(files=rp["files"], srcs=list(rp["order"]), remarks={}, opts=rp["opts"])
        o = eval_project(ctx, res, drv, proj, variant, 0, [rp["order"]])
        n = len(o["viol"]) if o else 0
        print("replay: %d difference(s) between company and alone" % n)
        for key, order, missing, extra in (o["viol"] if o else []):
            print("  key=%s order=%s missing=%s extra=%s" % (key, order, [tag_of(x)[:80] for x in missing], [tag_of(x)[:80] for x in extra]))
        return 1 if n else 0
    print("replay: build-dir history; re-run ./check.py C17")
    return 0

"""C07 — expression trees follow the C/C++ operator grammar.

Obligations
  theorems   Cppcheck.AstLadder.* in Props/C07.lean (all trees / all token lists, any depth)
  T          translate(): the precedence ladder (function chain, operators, guards, AST_MAX_DEPTH, the assignment
             operator spellings) is extracted from lib/tokenlist.cpp / lib/token.cpp into Gen/AstLadder.lean;
             `extracted_table_is_C` re-proves "extracted table = ISO table" on every run (fail closed)
  C1         real pipeline (Tokenizer::simplifyTokens1) on `x = <expr>;` in C and C++ mode: the tree read back through
             astOperand1/2 == model `parse` on the *same final token list*
  C2         Tokenizer::prepareTernaryOpForAST on raw token lists == model `prep`
  C3         createLinks + prepareTernaryOpForAST + createAst on raw token lists (also malformed) == model `astOf`
P_impl       tree built by the real code == generating tree (the generating tree is the specification)
P_token      the operator tokens of the simplified token list == the source's (template-free programs), up to the recognised
             deliberate simplifications (type words, double sign, constant folding, &a[0], (&a)->m); checked on every pipeline
             case, also when the tree is well-formed
declaration positions: `<` `>` `>>` `<<` `<=` `>=` chains over int variables declared first after `{`, after `;`, after `}`, in a
             nested block, as global after a function body / after `;`, as parameter, second declarator, with a qualified type
"""
import json, os, re
from .. import core, build_repo

ID = "C07"
LEVEL = "other"
RULE = ("cases = random expression trees over the C/C++ operator grammar (all binary levels, ?:, assignment, comma, prefix/postfix "
        "operators, casts, calls, subscripts, member access) printed with minimal and with redundant parentheses inside "
        "`void f(...) { x = <expr>; }`, in C and C++ mode; non-trivial = the tree has >= 2 operators of different levels or a "
        "parenthesis that changes the grouping")
EXPLANATION = ("Proved in Lean (unbounded, generic in the level table): for every parse tree of the expression grammar over a well-formed "
               "table - binary levels, ?:, assignment, comma, prefix - ! ~ * &, parentheses anywhere the grammar allows - the model of "
               "prepareTernaryOpForAST (x2) + createAst (the very `astOf` the driver runs) returns exactly the grammar's tree "
               "(createAst_follows_grammar; only hypotheses: the tree is of the grammar, AST_MAX_DEPTH, and the table has skipDecl's early "
               "return for variables, which extracted_skipDecl_guard decides for the working tree on every run; for the code before fix "
               "1fbcd63 the statement needed declOK and createAst_follows_grammar_prefix_counterexample shows it could not be dropped). The "
               "table extracted from the working tree equals the ISO C++20/C17 table and is well-formed (decide over the whole table). "
               "Level 'other' because: prefix ++/--, postfix operators, casts, calls, subscripts and member access are inside the executable "
               "model and every correspondence (pipeline, raw createAst, prepareTernaryOpForAST) but not inside the theorems; the mapping of "
               "real tokens to the model's token classes is trusted (flags printed by the harness); tokenizer passes other than "
               "prepareTernaryOpForAST are not modelled (expressions they rewrite are counted as normalised:tokenizer-rewrite and only compared "
               "model-vs-code; P_token: any other change of the operator tokens between lexer and createAst is a violation, also when the tree is "
               "well-formed); `<`/`>`/`>>` chains are generated over variables in ten declaration positions (C++ template-bracket heuristics); "
               "`--dump` (the property's observation point) and the clang oracle of the specification run in the thorough tier "
               "only, the quick tier reads astOperand1/2 in-process; new/delete, lambdas, _Generic, initializer lists, templates, keywords, `.*` "
               "are outside the model (Err.outside).")
THEOREMS = ["Cppcheck.AstLadder.extracted_table_is_C", "Cppcheck.AstLadder.extracted_ladder_wf", "Cppcheck.AstLadder.extracted_skipDecl_guard",
            "Cppcheck.AstLadder.createAst_follows_grammar", "Cppcheck.AstLadder.createAst_follows_grammar_extracted",
            "Cppcheck.AstLadder.createAst_follows_grammar_prefix_partial", "Cppcheck.AstLadder.createAst_follows_grammar_prefix_counterexample",
            "Cppcheck.AstLadder.declFine_extracted",
            "Cppcheck.AstLadder.ladder_roundtrip", "Cppcheck.AstLadder.ladder_respects_parens",
            "Cppcheck.AstLadder.ternary_middle_as_parenthesised", "Cppcheck.AstLadder.assign_right_assoc"]
MODULES = ["Cppcheck.Props.C07"]


class Unrecognised(Exception):
    pass


# ------------------------------------------------------------------------------------------------------------
# translator: lib/tokenlist.cpp compile* ladder  ->  Gen/AstLadder.lean
# ------------------------------------------------------------------------------------------------------------

def strip_comments(src):
    out, i, n = [], 0, len(src)
    while i < n:
        c = src[i]
        if c == '"' or c == "'":
            j = i + 1
            while j < n and src[j] != c:
                j += 2 if src[j] == "\\" else 1
            out.append(src[i:j + 1]); i = j + 1
        elif src.startswith("//", i):
            j = src.find("\n", i)
            i = n if j < 0 else j
        elif src.startswith("/*", i):
            j = src.find("*/", i + 2)
            i = n if j < 0 else j + 2
        else:
            out.append(c); i += 1
    return "".join(out)


def norm(s):
    """collapse white space outside string / char literals; no space next to ( ) { } ; ,"""
    out, i, n = [], 0, len(s)
    PUNCT = "(){};,"
    while i < n:
        c = s[i]
        if c == '"' or c == "'":
            j = i + 1
            while j < n and s[j] != c:
                j += 2 if s[j] == "\\" else 1
            out.append(s[i:j + 1]); i = j + 1
        elif c.isspace():
            if out and out[-1] != " " and not (len(out[-1]) == 1 and out[-1] in PUNCT):
                out.append(" ")
            i += 1
        elif c in PUNCT:
            if out and out[-1] == " ":
                out.pop()
            out.append(c); i += 1
        else:
            out.append(c); i += 1
    return "".join(out).strip()


def function_body(src, name):
    """text between the braces of `static void <name>(Token *&tok, AST_state& state)`"""
    m = re.search(r"\nstatic void %s\(Token \*&tok, AST_state& state\)\s*\{" % re.escape(name), src)
    if not m:
        raise Unrecognised("function %s not found" % name)
    i = m.end()
    depth, j = 1, i
    while depth:
        c = src[j]
        if c == '"' or c == "'":
            k = j + 1
            while src[k] != c:
                k += 2 if src[k] == "\\" else 1
            j = k
        elif c == "{":
            depth += 1
        elif c == "}":
            depth -= 1
        j += 1
    return src[i:j - 1]


MUL_LOOK = norm('''if (Token::Match(tok, "* [*,)]")) { Token* tok2 = tok->next(); while (tok2->next() && tok2->str() == "*") tok2 = tok2->next();
                   if (Token::Match(tok2, "[>),]")) { tok = tok2; break; } }''')
AMP_LOOK = norm('''Token* tok2 = tok->next(); if (!tok2) break; if (tok2->str() == "&") tok2 = tok2->next();
                   if (state.cpp && Token::Match(tok2, ",|)")) { tok = tok2; break; }''')
AMPAMP_LOOK = norm('''if (!tok->astOperand1()) { Token* tok2 = tok->next(); if (!tok2) break;
                      if (state.cpp && Token::Match(tok2, ",|)")) { tok = tok2; break; } }''')
EXPR_BODY = norm('''if (state.depth > AST_MAX_DEPTH) throw InternalError(tok, "maximum AST depth exceeded", InternalError::AST);
                    if (tok) compileComma(tok, state);''')
ASSIGN_TERNARY_BODY = norm('''compileLogicOr(tok, state);
    while (tok) {
        if (tok->isAssignmentOp()) {
            state.assign++;
            const Token *tok1 = tok->next();
            compileBinOp(tok, state, compileAssignTernary);
            if (Token::simpleMatch(tok1, "{") && tok == tok1->link() && tok->next())
                tok = tok->next();
            if (state.assign > 0)
                state.assign--;
        } else if (tok->str() == "?") {
            const bool stopAtColon = state.stopAtColon;
            state.stopAtColon = false;
            if (tok->strAt(1) == ":") {
                state.op.push(nullptr);
            }
            const int assign = state.assign;
            state.assign = 0;
            compileBinOp(tok, state, compileAssignTernary);
            state.assign = assign;
            state.stopAtColon = stopAtColon;
        } else if (tok->str() == ":") {
            if (state.depth == 1U && state.inCase) {
                state.inCase = false;
                tok = tok->next();
                break;
            }
            if (state.stopAtColon)
                break;
            if (state.assign > 0)
                break;
            compileBinOp(tok, state, compileAssignTernary);
        } else break;
    }''')
COMMA_TAIL = norm('''else if (tok->str() == ";" && state.functionCallEndPar && tok->index() < state.functionCallEndPar->index()) {
            compileBinOp(tok, state, compileAssignTernary); }''')


def split_top(s, sep):
    parts, depth, cur, i, instr = [], 0, "", 0, False
    while i < len(s):
        c = s[i]
        if instr:
            cur += c
            if c == "\\":
                cur += s[i + 1]; i += 1
            elif c == '"':
                instr = False
        elif c == '"':
            instr = True; cur += c
        elif c == "(":
            depth += 1; cur += c
        elif c == ")":
            depth -= 1; cur += c
        elif depth == 0 and s.startswith(sep, i):
            parts.append(cur); cur = ""; i += len(sep) - 1
        else:
            cur += c
        i += 1
    parts.append(cur)
    return [p.strip() for p in parts]


def _pat(template, group):
    return re.escape(norm(template)).replace("@@", group)


def parse_atom(a):
    """one operator test -> list of operator spellings, or ('dotstar',)"""
    m = re.fullmatch(_pat('tok->str() == "@@"', '([^"]+)'), a)
    if m:
        return [m.group(1)]
    m = re.fullmatch(_pat('Token::Match(tok, "[@@]")', r'([^\]"]+)'), a)
    if m:
        return list(m.group(1))
    m = re.fullmatch(_pat('Token::Match(tok, "@@")', r'([^"\[\] %]+)'), a)
    if m:
        return m.group(1).split("|")
    if a == norm('Token::simpleMatch(tok, ". *")'):
        return ("dotstar",)
    raise Unrecognised("operator test: " + a)


EXTRAS = ("!tok->astOperand1()", "!isQualifier(tok)", "!tok->link()")


def parse_cond(cond):
    """condition of a level loop -> list of (operator, set of extra conjuncts)"""
    res = []
    for disj in split_top(cond, "||"):
        d = disj
        while d.startswith("(") and d.endswith(")") and len(split_top(d[1:-1], "||")) >= 1 and balanced(d[1:-1]):
            d = d[1:-1].strip()
        conj = split_top(d, "&&")
        ops = parse_atom(conj[0])
        extra = set()
        for c in conj[1:]:
            if c not in EXTRAS:
                raise Unrecognised("extra condition: " + c)
            extra.add(c)
        if ops == ("dotstar",):
            if extra:
                raise Unrecognised("dotstar with extras")
            res.append((".", "dotStar", extra))
        else:
            for o in ops:
                res.append((o, None, extra))
    return res


def balanced(s):
    d = 0
    for c in s:
        if c == "(":
            d += 1
        elif c == ")":
            d -= 1
            if d < 0:
                return False
    return d == 0


def extract_level(src, name):
    body = norm(function_body(src, name))
    if name == "compileAssignTernary":
        if body != ASSIGN_TERNARY_BODY:
            raise Unrecognised("compileAssignTernary: body differs from the modelled shape")
        return dict(name=name, callee="compileLogicOr", kind="assignTernary", ops=None)
    m, tail = None, ""
    if name == "compileComma":
        m = re.fullmatch(r'(compile\w+)\(tok,state\);while\(tok\)\{if\((.*?)\)\{(.*?)\}(else if\(.*\)\{.*\})else break;\}', body)
        if m:
            tail = m.group(4)
            if tail != COMMA_TAIL:
                raise Unrecognised("compileComma: unknown second clause: " + tail)
    if not m:
        m = re.fullmatch(r'(compile\w+)\(tok,state\);while\(tok\)\{if\((.*?)\)\{(.*)\}else break;\}', body)
    if not m:
        raise Unrecognised("%s: not of the shape lower(); while (tok) { if (ops) {...} else break; }: %s" % (name, body[:200]))
    callee, cond, inner = m.group(1), m.group(2), m.group(3)
    # the regex is non-greedy on cond: make sure parentheses are balanced
    if not balanced(cond):
        # extend cond up to the balancing point
        full = body[body.index("if(") + 3:]
        d, k = 1, 0
        while d:
            if full[k] == "(":
                d += 1
            elif full[k] == ")":
                d -= 1
            k += 1
        cond = full[:k - 1]
        rest = full[k:]
        mm = re.fullmatch(r'\{(.*)\}' + re.escape(tail) + r'else break;\}', rest)
        if not mm:
            raise Unrecognised("%s: loop body shape" % name)
        inner = mm.group(1)
    call = "compileBinOp(tok,state,%s);" % callee
    look = None
    if inner == call:
        look = ""
    elif name == "compileComma" and inner == norm('if (Token::simpleMatch(tok, ", }")) tok = tok->next(); else compileBinOp(tok, state, %s);' % callee):
        look = "COMMA"
    elif inner.endswith(call):
        look = inner[:-len(call)].strip()
    else:
        raise Unrecognised("%s: loop body does not end in compileBinOp(tok, state, %s): %s" % (name, callee, inner))
    ops = []
    for (o, special, extra) in parse_cond(cond):
        g = None
        if special == "dotStar":
            g = "dotStar"
            if look != "":
                raise Unrecognised(name + ": look-ahead with dotstar")
        elif look == "COMMA":
            if extra or o != ",":
                raise Unrecognised(name + ": comma clause")
            g = "commaBrace"
        elif look == "":
            if not extra:
                g = "always"
            elif extra == {"!tok->astOperand1()"}:
                g = "unusedTok"
            elif extra == {"!tok->link()"}:
                g = "notLinked"
            else:
                raise Unrecognised("%s: extras %s without look-ahead" % (name, sorted(extra)))
        elif look == MUL_LOOK:
            if o == "*" and extra == {"!tok->astOperand1()", "!isQualifier(tok)"}:
                g = "mul"
            elif o != "*" and not extra:
                g = "always"          # the look-ahead only fires on `*`
            else:
                raise Unrecognised(name + ": mul look-ahead with " + o)
        elif look == AMP_LOOK:
            if o == "&" and extra == {"!tok->astOperand1()", "!isQualifier(tok)"}:
                g = "amp"
            else:
                raise Unrecognised(name + ": amp look-ahead with " + o)
        elif look == AMPAMP_LOOK:
            if o == "&&" and extra == {"!isQualifier(tok)"}:
                g = "ampamp"
            else:
                raise Unrecognised(name + ": ampamp look-ahead with " + o)
        else:
            raise Unrecognised("%s: unknown look-ahead block: %s" % (name, look))
        ops.append((o, g))
    return dict(name=name, callee=callee, kind="left", ops=ops)


def extract_assign_ops(token_cpp):
    src = norm(strip_comments(token_cpp))
    expected = norm('else if (mStr == "=" || mStr == "<<=" || mStr == ">>=" || (mStr.size() == 2U && mStr[1] == \'=\' && '
                    'std::strchr("@@", mStr[0]))) tokType(eAssignmentOp);')
    m = re.search(re.escape(expected).replace("@@", '([^"]+)'), src)
    if not m:
        raise Unrecognised("token.cpp: eAssignmentOp classification not of the known shape")
    return ["=", "<<=", ">>="] + [c + "=" for c in m.group(1)]


SKIPDECL_TAIL = norm('''Token *vartok = tok;
    while (Token::Match(vartok, "%name%|*|&|&&|::|<")) {
        if (vartok->str() == "<") {
            if (vartok->link())
                vartok = vartok->link();
            else
                return tok;
        } else if (Token::Match(vartok, "%var% [:=({]")) {
            return vartok;
        } else if (Token::Match(vartok, "decltype|typeof (") && !isDecltypeFuncParam(tok->linkAt(1))) {
            if (inner)
                inner->push_back(vartok->tokAt(2));
            return vartok->linkAt(1)->next();
        }
        vartok = vartok->next();
    }
    return tok;''')


def extract_skipdecl(src):
    """the early return of skipDecl: plain, or with the `tok->varId() != 0` guard (proposed fix of F7a)"""
    m = re.search(r"\nstatic Token\* skipDecl\(Token\* tok, std::vector<Token\*>\* inner = nullptr\)\s*\{", src)
    if not m:
        raise Unrecognised("skipDecl not found")
    i = m.end(); depth, j = 1, i
    while depth:
        c = src[j]
        if c == '"' or c == "'":
            k = j + 1
            while src[k] != c:
                k += 2 if src[k] == "\\" else 1
            j = k
        elif c == "{":
            depth += 1
        elif c == "}":
            depth -= 1
        j += 1
    body = norm(src[i:j - 1])
    if not body.endswith(SKIPDECL_TAIL):
        raise Unrecognised("skipDecl: loop differs from the modelled shape")
    head = body[:-len(SKIPDECL_TAIL)]
    k = head.rfind("};")
    first = head[k + 2:].strip() if k >= 0 else head
    if first == norm('if (!Token::Match(tok->previous(), "( %name%")) return tok;'):
        return False
    if first == norm('if (!Token::Match(tok->previous(), "( %name%") || tok->varId() != 0) return tok;'):
        return True
    raise Unrecognised("skipDecl: early return not of a known shape: " + first)


def extract(repo=None):
    repo = repo or core.REPO
    src = strip_comments(open(os.path.join(repo, "lib", "tokenlist.cpp"), encoding="utf-8").read())
    m = re.search(r"static constexpr int AST_MAX_DEPTH = (\d+);", src)
    if not m:
        raise Unrecognised("AST_MAX_DEPTH")
    maxdepth = int(m.group(1))
    if norm(function_body(src, "compileExpression")) != EXPR_BODY:
        raise Unrecognised("compileExpression: body differs from the modelled shape")
    assign_ops = extract_assign_ops(open(os.path.join(repo, "lib", "token.cpp"), encoding="utf-8").read())
    levels, cur, seen = [], "compileComma", set()
    while cur != "compilePrecedence3":
        if cur in seen or len(levels) > 40:
            raise Unrecognised("callee chain does not reach compilePrecedence3")
        seen.add(cur)
        lv = extract_level(src, cur)
        if lv["kind"] == "assignTernary":
            lv["ops"] = [(o, "always") for o in assign_ops]
        levels.append(lv)
        cur = lv["callee"]
    return dict(maxDepth=maxdepth, entry="compileComma", bottom="compilePrecedence3", levels=levels, declVarGuard=extract_skipdecl(src))


def lstr(s):
    return "[" + ", ".join("'%s'" % ("\\'" if c == "'" else "\\\\" if c == "\\" else c) for c in s) + "]"


def gen_text(x):
    L = []
    L.append("import Cppcheck.Model.AstLadder")
    L.append("/- GENERATED by vlib/props/c07.py from lib/tokenlist.cpp (compileExpression .. compilePointerToElem, AST_MAX_DEPTH)")
    L.append("   and lib/token.cpp (eAssignmentOp spellings) — do not edit -/")
    L.append("namespace Cppcheck.Gen.AstLadder")
    L.append("open Cppcheck.AstLadder")
    L.append("")
    L.append("def astLadder : Ladder :=")
    L.append("  { maxDepth := %d," % x["maxDepth"])
    L.append("    entry := %s," % lstr(x["entry"]))
    L.append("    bottom := %s," % lstr(x["bottom"]))
    L.append("    declVarGuard := %s," % ("true" if x["declVarGuard"] else "false"))
    L.append("    levels := [")
    rows = []
    for lv in x["levels"]:
        ops = ", ".join("(%s, Guard.%s)" % (lstr(o), g) for o, g in lv["ops"])
        rows.append("      { name := %s, callee := %s, kind := Kind.%s,\n        ops := [%s] }" % (lstr(lv["name"]), lstr(lv["callee"]), lv["kind"], ops))
    L.append(",\n".join(rows))
    L.append("    ] }")
    L.append("")
    L.append("end Cppcheck.Gen.AstLadder")
    return "\n".join(L) + "\n"


def translate(ctx):
    x = extract()
    ctx.write_gen("AstLadder", gen_text(x))
    return x


# ------------------------------------------------------------------------------------------------------------
# specification side (python): expression trees, the ISO C++17 [expr] / C17 6.5 level table, printers
# ------------------------------------------------------------------------------------------------------------
# levels, lowest precedence first (C++17 [expr.comma] .. [expr.mul]); 13 = pointer-to-member (not generated)
BIN_LEVEL = {",": 0,
             "=": 1, "+=": 1, "-=": 1, "*=": 1, "/=": 1, "%=": 1, "<<=": 1, ">>=": 1, "&=": 1, "^=": 1, "|=": 1,
             "||": 2, "&&": 3, "|": 4, "^": 5, "&": 6, "==": 7, "!=": 7, "<": 8, "<=": 8, ">": 8, ">=": 8, "<=>": 9,
             "<<": 10, ">>": 10, "+": 11, "-": 11, "*": 12, "/": 12, "%": 12}
L_ASSIGN, L_UNARY, L_POSTFIX, L_PRIMARY = 1, 14, 15, 16
PREFIX_OPS = ["-", "!", "~", "*", "&", "++", "--"]
INT_VARS = ["a", "b", "c", "d", "e"]
CAST_TYPES = [["int"], ["unsigned", "int"], ["long"], ["char"], ["int", "*"], ["unsigned", "char", "*"], ["double"]]
PROLOGUE = ("struct S { int m; int n; struct S *k; }; int g(int, int); int h(void); int g1(int); typedef int T;\n"
            "void f(int a, int b, int c, int d, int e, int *p, int *r, struct S s, struct S *q, int (*fp)(int), int x) {\n")


def level_of(t):
    k = t[0]
    if k == "bin":
        return BIN_LEVEL[t[1]]
    if k == "tern":
        return L_ASSIGN
    if k in ("pre", "cast"):
        return L_UNARY
    if k in ("post", "call", "index", "member"):
        return L_POSTFIX
    return L_PRIMARY


def to_ast(t):
    """the tree cppcheck is expected to build, in the harness' Polish notation (list of words)"""
    k = t[0]
    if k in ("var", "num"):
        return [t[1] + "/0"]
    if k == "bin":
        return [t[1] + "/3"] + to_ast(t[2]) + to_ast(t[3])
    if k == "tern":
        return ["?/3"] + to_ast(t[1]) + [":/3"] + to_ast(t[2]) + to_ast(t[3])
    if k == "pre" or k == "post":
        return [t[1] + "/1"] + to_ast(t[2])
    if k == "cast":
        return ["(/1"] + to_ast(t[2])
    if k == "index":
        return ["[/3"] + to_ast(t[1]) + to_ast(t[2])
    if k == "member":
        return ["./3"] + to_ast(t[1]) + [t[2] + "/0"]
    if k == "call":
        f, args = t[1], t[2]
        if not args:
            return ["(/1", f + "/0"]
        acc = to_ast(args[0])
        for a in args[1:]:
            acc = [",/3"] + acc + to_ast(a)
        return ["(/3", f + "/0"] + acc
    raise ValueError(k)


def starts_with_minus(toks):
    return bool(toks) and toks[0] == "-"


def pr(t, ctx, rng=None, extra=0.0):
    """token list of t in a context that needs level >= ctx; extra = probability of a redundant parenthesis"""
    toks = pr0(t, rng, extra)
    if level_of(t) < ctx or (rng is not None and extra > 0 and rng.random() < extra):
        return ["("] + toks + [")"]
    return toks


def pr0(t, rng, extra):
    k = t[0]
    if k in ("var", "num"):
        return [t[1]]
    if k == "bin":
        op, L = t[1], BIN_LEVEL[t[1]]
        if L == L_ASSIGN:
            l, r = pr(t[2], L + 1, rng, extra), pr(t[3], L, rng, extra)
        else:
            l, r = pr(t[2], L, rng, extra), pr(t[3], L + 1, rng, extra)
        if op in ("+", "-") and starts_with_minus(r):
            r = ["("] + r + [")"]          # `a - -b` is rewritten to `a + b` by the tokenizer: keep it apart
        return l + [op] + r
    if k == "tern":
        return pr(t[1], L_ASSIGN + 1, rng, extra) + ["?"] + pr(t[2], 0, rng, extra) + [":"] + pr(t[3], L_ASSIGN, rng, extra)
    if k == "pre":
        o = pr(t[2], L_UNARY, rng, extra)
        if t[1] == "-" and starts_with_minus(o):
            o = ["("] + o + [")"]
        if t[1] == "&" and o and o[0] == "&":
            o = ["("] + o + [")"]
        return [t[1]] + o
    if k == "post":
        return pr(t[2], L_POSTFIX, rng, extra) + [t[1]]
    if k == "cast":
        return ["("] + list(t[1]) + [")"] + pr(t[2], L_UNARY, rng, extra)
    if k == "index":
        return pr(t[1], L_POSTFIX, rng, extra) + ["["] + pr(t[2], 0, rng, extra) + ["]"]
    if k == "member":
        return pr(t[1], L_POSTFIX, rng, extra) + [t[3], t[2]]
    if k == "call":
        out = [t[1], "("]
        for i, a in enumerate(t[2]):
            if i:
                out.append(",")
            out += pr(a, L_ASSIGN, rng, extra)
        return out + [")"]
    raise ValueError(k)


def gen_lvalue(rng, depth, cpp, stage2):
    """something C accepts on the left of `=` / under `++ -- &` (cppcheck rejects or rewrites literals there)"""
    k = rng.random()
    if not stage2 or depth <= 0 or k < 0.55:
        return ("var", rng.choice(INT_VARS))
    if k < 0.7:
        return ("pre", "*", gen_tree(rng, depth - 1, cpp, stage2, nonum=True))
    if k < 0.85:
        ix = gen_tree(rng, depth - 1, cpp, stage2)
        return ("index", ("var", rng.choice(["p", "r"])), ("num", "1") if ix == ("num", "0") else ix)
    if k < 0.93:
        return ("member", ("var", "s"), rng.choice(["m", "n"]), ".")
    return ("member", ("var", "q"), rng.choice(["m", "n"]), "->")


def gen_tree(rng, depth, cpp, stage2=True, nonum=False):
    """random expression tree over the operator grammar"""
    if depth <= 0 or rng.random() < 0.12:
        if not nonum and rng.random() < 0.2:
            return ("num", rng.choice(["0", "1", "2", "7", "10", "0x1f", "3"]))
        return ("var", rng.choice(INT_VARS))
    k = rng.random()
    if not stage2:
        k = k * 0.62
    if k < 0.5:
        ops = [o for o in BIN_LEVEL if BIN_LEVEL[o] not in (0, 1) and (cpp or o != "<=>")]
        op = rng.choice(ops)
        l = gen_tree(rng, depth - 1, cpp, stage2)
        return ("bin", op, l, gen_tree(rng, depth - 1, cpp, stage2, nonum=(cpp and l[0] == "num")))
    if k < 0.56:
        op = rng.choice([o for o in BIN_LEVEL if BIN_LEVEL[o] == 1])
        # C requires an lvalue on the left; the C++ grammar admits any logical-or-expression: both are generated
        lhs = gen_lvalue(rng, depth - 1, cpp, stage2) if rng.random() < 0.6 else gen_tree(rng, depth - 1, cpp, stage2, nonum=True)
        return ("bin", op, lhs, gen_tree(rng, depth - 1, cpp, stage2))
    if k < 0.59:
        return ("bin", ",", gen_tree(rng, depth - 1, cpp, stage2), gen_tree(rng, depth - 1, cpp, stage2))
    if k < 0.66:
        return ("tern", gen_tree(rng, depth - 1, cpp, stage2), gen_tree(rng, depth - 1, cpp, stage2), gen_tree(rng, depth - 1, cpp, stage2))
    if k < 0.78:
        op = rng.choice(PREFIX_OPS)
        if op in ("++", "--", "&"):
            return ("pre", op, gen_lvalue(rng, depth - 1, cpp, stage2))
        o = gen_tree(rng, depth - 1, cpp, stage2, nonum=(op == "-"))   # `- 1` is merged into the literal -1 by the tokenizer
        return ("pre", op, o)
    if k < 0.82:
        return ("post", rng.choice(["++", "--"]), gen_lvalue(rng, depth - 1, cpp, stage2))
    if k < 0.87:
        return ("cast", rng.choice(CAST_TYPES), gen_tree(rng, depth - 1, cpp, stage2))
    if k < 0.92:
        base = gen_tree(rng, depth - 1, cpp, stage2, nonum=True) if rng.random() < 0.5 else ("var", rng.choice(["p", "r"]))
        ix = gen_tree(rng, depth - 1, cpp, stage2)
        if ix == ("num", "0"):
            ix = ("num", "1")                      # `& a [ 0 ]` is rewritten to `a` by the tokenizer
        return ("index", base, ix)                 # (`0 [` is rewritten to `*(`: no literal as base)
    if k < 0.96:
        if rng.random() < 0.5:
            return ("member", ("var", "s"), rng.choice(["m", "n"]), ".")
        base = gen_tree(rng, depth - 1, cpp, stage2, nonum=True) if rng.random() < 0.3 else ("var", "q")
        return ("member", base, rng.choice(["m", "n", "k"]), rng.choice([".", "->"]))
    f = rng.choice(["g", "h", "g1", "g", "fp"])
    n = {"g": 2, "h": 0, "g1": 1, "fp": 1}[f]
    return ("call", f, [gen_tree(rng, depth - 1, cpp, stage2) for _ in range(n)])


def count_ops(t):
    k = t[0]
    if k in ("var", "num"):
        return 0
    subs = [x for x in t[1:] if isinstance(x, tuple)] + [y for x in t[1:] if isinstance(x, list) for y in x if isinstance(y, tuple)]
    return 1 + sum(count_ops(s) for s in subs)


def kinds(t, acc):
    k = t[0]
    acc.add(k if k != "bin" else "bin:%d" % BIN_LEVEL[t[1]])
    for x in t[1:]:
        if isinstance(x, tuple):
            kinds(x, acc)
        elif isinstance(x, list):
            for y in x:
                if isinstance(y, tuple):
                    kinds(y, acc)
    return acc


def source_of(toks):
    """tokens -> C text: `->` stays `->`; everything separated by blanks so that lexing is unambiguous"""
    return " ".join(toks)


# ------------------------------------------------------------------------------------------------------------
# running implementation and model
# ------------------------------------------------------------------------------------------------------------

def parse_impl(o):
    """harness line -> (tokens [hex:flags], [tree strings]) or None"""
    if not o.startswith("ok"):
        return None
    toks, _, tr = o[3:].partition(" |")
    trees = [t.strip() for t in tr.split(" ;")] if tr.strip() else []
    return toks.split(), trees


def tok_strs(toks):
    return [core.unhx(t.split(":")[0]).decode("latin-1") for t in toks]


# declaration position of the names of the standard prologue (all variables are parameters; m n k are members)
PROLOGUE_DECL = {"a": "parameter", "b": "parameter", "c": "parameter", "d": "parameter", "e": "parameter", "p": "parameter", "r": "parameter",
                 "s": "parameter", "q": "parameter", "fp": "parameter", "x": "parameter", "m": "member", "n": "member", "k": "member"}


def template_key(src, decl):
    """key of a template-bracket deviation: the declaration positions of the names that stand directly in front of a `<`
    (Tokenizer::splitTemplateRightAngleBrackets only knows variables declared as `[;{}] <standard type> name [;,=]`)"""
    decl = decl or PROLOGUE_DECL
    cls = set()
    for i, t in enumerate(src):
        if t == "<" and i > 0:
            cls.add(decl.get(src[i - 1], "non-name" if not re.match(r"[A-Za-z_]", src[i - 1]) else "undeclared"))
    quiet = {"local-after-semicolon", "non-name"}     # positions every version handles: not part of the key when another class is involved
    if cls - quiet:
        cls -= quiet
    return "template-brackets:" + "+".join(sorted(cls))


def classify_dev(toks, src=None, decl=None):
    """known classes of deviation, decided on the final token list (strings + flags)"""
    strs = tok_strs(toks)
    fl = [t.split(":")[1] for t in toks]
    n = len(strs)
    for i in range(n - 1):
        if strs[i] == "(" and "N" in fl[i + 1]:
            # skipDecl: ( name {name * & &&}* var [:=({]
            j = i + 1
            while j < n and ("N" in fl[j] or strs[j] in ("*", "&", "&&", "::", "<")):
                if strs[j] == "<":
                    break
                if "V" in fl[j] and j + 1 < n and strs[j + 1] in (":", "=", "(", "{"):
                    if j > i + 1:
                        return "skipdecl-in-parentheses"
                    break
                j += 1
    for i in range(n - 1):
        if strs[i] == ">" and strs[i + 1] == ">" and src is not None and any(t.startswith(">>") for t in src):
            return template_key(src, decl)              # `>>` split by splitTemplateRightAngleBrackets
    if any("T" in f for f in fl):
        return template_key(src or strs, decl)          # `<` ... `>` between variables linked as template brackets
    if src is not None and strs.count("(") < src.count("("):
        for i in range(len(src) - 1):
            k = i
            while k > 0 and src[k] == "(":
                k -= 1
            if src[k] == "," and k < i and src[i] == "(" or (src[i] == "," and src[i + 1] == "("):
                d, j = 0, (i if src[i] == "(" else i + 1)
                while j < len(src):
                    d += 1 if src[j] == "(" else -1 if src[j] == ")" else 0
                    if d == 0:
                        break
                    j += 1
                if j + 1 < len(src) and src[j + 1] == "=":
                    return "comma-paren-assign-parentheses-removed"     # `, ( ... ) =` loses its parentheses
    for i in range(n - 1):
        if strs[i] == "!" and "S" in fl[i + 1]:
            return "not-cast-parentheses-removed"      # `! ( T )` rewritten to `! T`
    for i in range(n):
        if strs[i] == "(" and "C" in fl[i]:
            # a parenthesis flagged as cast whose content is not a type name list
            j, ok = i + 1, True
            while j < n and strs[j] != ")":
                if not ("S" in fl[j] or strs[j] in ("*", "const", "unsigned", "signed", "struct")):
                    ok = False
                j += 1
            if not ok:
                return "parenthesised-expression-taken-as-cast"
    return None


TYPE_WORDS = {"unsigned", "signed", "int", "char", "long", "short", "double", "float"}
NUM_RE = re.compile(r"-?(0x[0-9a-fA-F]+|\d[\w.]*)$")


def token_rewrite_class(src, finals):
    """P_token: for a template-free program the operator tokens handed to createAst are the source's.  Compares the multisets of
    non-parenthesis tokens; returns None (equal), the name of a recognised deliberate tokenizer simplification, or
    'UNKNOWN: -removed +added' (a deviation)."""
    from collections import Counter
    a = Counter(t for t in src if t not in "()")
    b = Counter(t for t in finals if t not in "()")
    rem, add = a - b, b - a
    if not rem and not add:
        return None
    classes = []
    tw_r = Counter({k: v for k, v in rem.items() if k in TYPE_WORDS}); tw_a = Counter({k: v for k, v in add.items() if k in TYPE_WORDS})
    if tw_r or tw_a:
        rem, add = rem - tw_r, add - tw_a
        classes.append("type-words")                   # simplifyStdType: `unsigned char` is one token `char` with a flag
    if rem and set(rem) <= {"+", "-"} and set(add) <= {"+", "-"} and sum(add.values()) < sum(rem.values()):
        classes.append("double-sign"); rem, add = Counter(), Counter()          # `- -` to `+`, `+ -` to `-`, unary plus dropped
    if add and all(NUM_RE.match(k) for k in add) and any(NUM_RE.match(k) for k in rem) and \
            all(NUM_RE.match(k) or k in ("+", "-", "*", "/", "%", "<<", ">>", "&", "|", "^") for k in rem):
        classes.append("constant-folding"); rem, add = Counter(), Counter()     # `- 1` to `-1`; C++: literal arithmetic between `name <` and `> name`
    if rem and not add and rem["&"] >= 1 and rem["&"] == rem["["] == rem["]"] == rem["0"] and set(rem) == {"&", "[", "]", "0"}:
        classes.append("address-of-first-element"); rem = Counter()           # `& a [ 0 ]` to `a`
    if rem and not add and set(rem) == {"&"} and "." in finals:
        classes.append("address-arrow"); rem = Counter()                      # `( & a ) -> m` to `a . m`
    if rem or add:
        return "UNKNOWN: -%s +%s" % (" ".join(sorted(rem.elements())), " ".join(sorted(add.elements())))
    return "+".join(classes)


def run_cases(ctx, res, exe, drv, cases, name, count=True):
    """cases: dicts with lang, toks (source tokens), expect (Polish words of `x = <expr>` or None).
    Returns list of P_impl failures."""
    ops = ["full %s %s" % (c["lang"], core.hx(case_source(c))) for c in cases]
    rc, impl, err = core.run_lines(exe, [], ops, timeout=900)
    if len(impl) != len(ops):
        raise core.CheckBroken("C07 harness produced %d lines for %d ops (rc=%s): %s" % (len(impl), len(ops), rc, err[-500:]))
    impl = [last_statement(o) if c.get("layout") else o for c, o in zip(cases, impl)]
    mops = []
    for c, o in zip(cases, impl):
        p = parse_impl(o)
        mops.append("parse %s %s" % (c["lang"], " ".join(p[0])) if p else "parse %s" % c["lang"])
    rc, model, err = core.run_lines(drv, [], mops, timeout=900)
    if len(model) != len(ops):
        raise core.CheckBroken("C07 driver produced %d lines for %d ops: %s" % (len(model), len(ops), err[-500:]))
    fails, mism = [], []
    for i, (c, o, m) in enumerate(zip(cases, impl, model)):
        p = parse_impl(o)
        desc = "%s: x = %s ;" % (c["lang"], source_of(c["toks"])) + (" [variables declared: %s]" % c["layout"] if c.get("layout") else "")
        if p is None:
            impl_c = o
            model_c = "-"
            res.count("impl-rejects")
            if "maximum AST depth" in o:
                res.count("impl-rejects:depth")
            nt = False
        else:
            impl_c = "ok | " + " ; ".join(p[1])
            if c.get("probe") and (c["probe"] + "/0") not in impl_c and c["probe"] in tok_strs(p[0]):
                c["fired"] = True          # skipDecl jumped over the name: it is a token but in no tree
            mm = re.match(r"^ok rest=(\d+) \|(.*)$", m)
            if mm:
                model_c = "ok | " + " ; ".join(t.strip() for t in mm.group(2).split(" ;") if t.strip())
                if mm.group(1) != "1":
                    res.count("model-stops-early")
            elif m.startswith("outside"):
                model_c = None
                res.count("model:" + m.replace(" ", ""))
            else:
                model_c = m
            nt = c.get("nontrivial", True)
        if count:
            res.case(name + "|" + desc, nt, dict(tie=name, op=desc, impl=impl_c, model=model_c) if i % max(1, len(cases) // 3) == 0 else None)
        if p is not None and model_c is not None and impl_c != model_c:
            mism.append((desc, impl_c, model_c))
        elif p is None and "maximum AST depth" in o:
            pass
        if p is not None and c.get("expect") is not None:
            want = " ".join(c["expect"])
            got = p[1][0] if len(p[1]) == 1 else " ; ".join(p[1])
            finals = tok_strs(p[0])
            src = ["x", "="] + ["." if t == "->" else t for t in c["toks"]] + [";"]
            # P_token: the operator tokens handed to createAst are the lexer's (template-free input), up to the recognised
            # deliberate simplifications; checked on every case, also when the tree happens to be well-formed
            rw = token_rewrite_class(src, finals)
            linked = any("T" in t.split(":")[1] for t in p[0])
            if rw is not None and rw.startswith("UNKNOWN") or linked:
                key = classify_dev(p[0], c["toks"], c.get("decl"))
                what = "operator tokens rewritten before createAst (%s)" % (rw if rw else "`<`/`>` linked as template brackets")
                fails.append(dict(case=c, desc=desc, got=got, want=want, key=key, final=" ".join(finals), what=what))
                continue
            if rw not in (None, "type-words"):
                res.count("normalised:" + rw)          # deliberate simplification of another pass: the tree is not judged
                continue
            if got != want:
                key = classify_dev(p[0], c["toks"], c.get("decl"))
                fails.append(dict(case=c, desc=desc, got=got, want=want, key=key, final=" ".join(finals)))
        # a rejected input is not a C07 violation ("for every expression cppcheck accepts"); it is counted above
    res.traces_validated += len(cases) - len(mism)
    res.oblig("correspondence:" + name, not mism, "correspondence",
              "" if not mism else "%d of %d cases differ; first: %s impl=[%s] model=[%s]" % (len(mism), len(cases), mism[0][0], mism[0][1], mism[0][2]))
    return fails


def case_source(c):
    if c.get("source"):
        return c["source"].replace("@STMT@", "x = " + source_of(c["toks"]) + " ;")
    return PROLOGUE + "x = " + source_of(c["toks"]) + " ;\n}\n"


def last_statement(o):
    """harness line of a whole function body -> the same line restricted to its last statement (tokens and tree)"""
    p = parse_impl(o)
    if p is None:
        return o
    toks, trees = p
    strs = tok_strs(toks)
    end = len(strs) - 1
    while end > 0 and strs[end] in ("}",):
        end -= 1
    k = end - 1
    while k >= 0 and strs[k] not in (";", "{", "}"):
        k -= 1
    # the tree whose root is the first `=` of that statement: trees are in token order, take the last one rooted at `=`
    last = [t for t in trees if t.startswith("=/")]
    return "ok " + " ".join(toks[k + 1:end + 1]) + " | " + (last[-1] if last else "")


def mk_case(rng, lang, tree, extra):
    cpp = lang == "cpp"
    toks = pr(tree, L_ASSIGN, rng if extra > 0 else None, extra)
    ks = kinds(tree, set())
    return dict(lang=lang, toks=toks, expect=["=/3", "x/0"] + to_ast(tree), tree=tree,
                nontrivial=(count_ops(tree) >= 2 and len(ks) >= 2) or "(" in toks)


def report_fails(res, fails, origin):
    for f in fails:
        res.violation("%s: %s: %s  final tokens: %s  got [%s] want [%s]" %
                      (origin, f.get("what", "tree built by cppcheck differs from the grammar tree"), f["desc"], f["final"], f["got"], f["want"]),
                      dict(lang=f["case"]["lang"], toks=f["case"]["toks"], expect=f["case"]["expect"], got=f["got"],
                           source=f["case"].get("source"), layout=f["case"].get("layout"), decl=f["case"].get("decl"),
                           replay_cmd="./check.py C07 --replay <this file>"), concrete=True, key=f["key"])


# ------------------------------------------------------------------------------------------------------------
# C2 / C3: raw token lists (no other tokenizer pass): prepareTernaryOpForAST and createAst against `prep` / `astOf`
# ------------------------------------------------------------------------------------------------------------
RAW_NAMES = ["v1", "v2", "v3", "v4", "v5"]


def raw_flags(t):
    if re.fullmatch(r"v\d+", t):
        return "NV"
    if t in ("int", "char", "long", "unsigned", "double"):
        return "NS" if t != "unsigned" else "NSK"
    if re.fullmatch(r"[A-Za-z_]\w*", t):
        return "N"
    if re.fullmatch(r"\d\w*", t):
        return "L"
    return "-"


def raw_tok(t):
    return "%s:%s" % (core.hx(t), raw_flags(t))


def rename_raw(toks):
    m = {"a": "v1", "b": "v2", "c": "v3", "d": "v4", "e": "v5", "p": "v6", "r": "v7", "s": "v8", "q": "v9", "fp": "v10", "x": "v11"}
    return [m.get(t, "." if t == "->" else t) for t in toks]


def balanced_brackets(toks):
    st = []
    for t in toks:
        if t in "([":
            st.append(t)
        elif t in ")]":
            if not st or st.pop() != {")": "(", "]": "["}[t]:
                return False
    return not st


def mutate(rng, toks):
    toks = list(toks)
    for _ in range(rng.choice([1, 1, 2, 3])):
        k = rng.random()
        if not toks:
            break
        i = rng.randrange(len(toks))
        if k < 0.35:
            del toks[i]
        elif k < 0.7:
            toks.insert(i, rng.choice(["v1", "v2", "1", "+", "-", "*", "&", "?", ":", ",", "=", "!", "~", "++", "--", ".", "<", "(", ")", "[", "]", "int", "f1"]))
        else:
            j = rng.randrange(len(toks))
            toks[i], toks[j] = toks[j], toks[i]
    return toks


def run_raw(ctx, res, exe, drv, n_prep, n_ast):
    rng = ctx.rng
    # ---- C2: prepareTernaryOpForAST ---------------------------------------------------------------------------
    lists = []
    while len(lists) < n_prep:
        t = gen_tree(rng, rng.choice([2, 3, 4, 5]), False, stage2=rng.random() < 0.3)
        toks = rename_raw(pr(t, 0, rng, rng.choice([0.0, 0.1, 0.3])))
        toks = [x for x in toks if x not in ("<=>",)]
        if rng.random() < 0.5:
            toks = mutate(rng, toks)
        if not balanced_brackets(toks) or not toks or "?" not in toks:
            if rng.random() < 0.9:
                continue
        if not balanced_brackets(toks) or not toks:
            continue
        if any(a == "." and re.match(r"\d", b) for a, b in zip(toks, toks[1:])) or any(re.match(r"\d", a) and b == "." for a, b in zip(toks, toks[1:])):
            continue        # `. 0` / `0 .` are lexed as one floating literal
        lists.append(toks + [";"])
    hops = ["prep %s" % core.hx(" ".join(t)) for t in lists]
    rc, impl, err = core.run_lines(exe, [], hops, timeout=600)
    if len(impl) != len(hops):
        raise core.CheckBroken("C07 prep tie: %d ops, %d lines" % (len(hops), len(impl)))
    pres, posts = [], []
    for o in impl:
        if o.startswith("ok ") and " ## " in o:
            a, b = o[3:].split(" ## ", 1)
            pres.append(a.split()); posts.append("ok " + b)
        else:
            pres.append([";"]); posts.append(o)
    mops = ["prep %s" % " ".join(raw_tok(x) for x in t) for t in pres]
    rc, model, err = core.run_lines(drv, [], mops, timeout=600)
    descs = ["prep: " + " ".join(t) for t in pres]
    impl = posts
    core.correspond(ctx, res, "prepareTernaryOpForAST", descs, impl, model,
                    nontrivial=lambda op, out: out.count("(") > op.count("("))
    res.count("prep:parenthesised", sum(1 for d, o in zip(descs, impl) if o.count("(") > d.count("(")))
    # ---- C3: createLinks + prepareTernaryOpForAST + createAst on raw token lists, also malformed, also too deep ----------
    cases = []
    for depth_n in (100, 148, 149, 150, 151, 200):
        cases.append(("c", ["v1"] + ["=", "v1"] * depth_n + [";"]))
        cases.append(("cpp", ["-"] * depth_n + ["v1", ";"]))
        cases.append(("c", ["v1", "?"] * (depth_n // 2) + ["v2"] + [":", "v3"] * (depth_n // 2) + [";"]))
        cases.append(("cpp", ["("] * depth_n + ["v1", "+", "v2"] + [")"] * depth_n + [";"]))
    while len(cases) < n_ast:
        lang = rng.choice(["c", "cpp"])
        t = gen_tree(rng, rng.choice([2, 3, 4]), lang == "cpp", stage2=rng.random() < 0.5)
        toks = rename_raw(pr(t, 0, rng, rng.choice([0.0, 0.2])))
        toks = [{"g": "f1", "h": "f2", "g1": "f3", "m": "f4", "n": "f5", "k": "f6"}.get(x, x) for x in toks]
        if rng.random() < 0.6:
            toks = mutate(rng, toks)
        if any(a == "." and re.match(r"\d", b) for a, b in zip(toks, toks[1:])) or any(re.match(r"\d", a) and b == "." for a, b in zip(toks, toks[1:])):
            continue
        if not toks or not balanced_brackets(toks) or "<" in toks or ">" in toks:
            continue        # `<` `>` may be linked as template brackets by createLinks2-free createAst: keep them to the pipeline tie
        cases.append((lang, toks + [";"]))
    hops = ["ast %s %s" % (l, core.hx(" ".join(t))) for l, t in cases]
    rc, impl, err = core.run_lines(exe, [], hops, timeout=900)
    if len(impl) != len(cases):
        raise core.CheckBroken("C07 raw tie: %d ops, %d impl lines: %s" % (len(cases), len(impl), err[-300:]))
    cases2, impl2 = [], []
    for (l, t), o in zip(cases, impl):
        if " # " in o:
            o, h = o.rsplit(" # ", 1)
            t = core.unhx(h).decode("latin-1").split()       # the token strings as the real lexer produced them
        cases2.append((l, t)); impl2.append(o)
    cases, impl = cases2, impl2
    mops = ["astof %s %s" % (l, " ".join(raw_tok(x) for x in t)) for l, t in cases]
    rc, model, err = core.run_lines(drv, [], mops, timeout=900)
    if len(model) != len(cases):
        raise core.CheckBroken("C07 raw tie: %d ops, %d model lines: %s" % (len(cases), len(model), err[-300:]))
    mism = []
    for (l, t), o, m in zip(cases, impl, model):
        desc = "%s: %s" % (l, " ".join(t) if len(t) < 60 else " ".join(t[:20]) + " ... (%d tokens)" % len(t))
        p = parse_impl(o)
        if p is None:
            ic = "err depth" if "maximum AST depth" in o else "err other"
        else:
            ic = "ok | " + " ; ".join(p[1])
        mm = re.match(r"^ok rest=(\d+) \|(.*)$", m)
        if mm:
            mc = "ok | " + " ; ".join(x.strip() for x in mm.group(2).split(" ;") if x.strip())
            complete = mm.group(1) == "1"
        else:
            mc, complete = m, True
        comparable = True
        if m.startswith("outside"):
            comparable = False; res.count("raw:" + m.replace(" ", ""))
        elif mm and not complete:
            comparable = False; res.count("raw:model-stops-early")       # createAst restarts behind the stop: not modelled
        elif ic == "err other":
            comparable = False; res.count("raw:impl-rejects")
        if ic == "err depth":
            res.count("raw:depth-exceeded")
        res.case("rawast|" + desc, comparable and p is not None, dict(tie="createAst-raw", op=desc, impl=ic, model=mc) if len(res.samples) < 10 and rng.random() < 0.01 else None)
        if comparable and ic != mc:
            mism.append((desc, ic, mc))
    res.traces_validated += len(cases) - len(mism)
    res.oblig("correspondence:createAst-raw", not mism, "correspondence",
              "" if not mism else "%d of %d cases differ; first: %s impl=[%s] model=[%s]" % (len(mism), len(cases), mism[0][0], mism[0][1], mism[0][2]))


# ------------------------------------------------------------------------------------------------------------
# thorough tier: the CLI's --dump (observe_at of the property) and clang as oracle for the specification side
# ------------------------------------------------------------------------------------------------------------

def run_dump(ctx, res, exe, n):
    """same expressions through `cppcheck --dump` (XML astOperand1/2) and through the in-process harness"""
    import xml.etree.ElementTree as ET
    rng = ctx.rng
    bad, total = [], 0
    for lang in ("c", "cpp"):
        trees = [gen_tree(rng, rng.choice([2, 3, 4]), lang == "cpp", rng.random() < 0.6) for _ in range(n)]
        cases = [mk_case(rng, lang, t, rng.choice([0.0, 0.2])) for t in trees]
        # one rejected statement would make the CLI drop the whole file: keep what the in-process tokenizer accepts
        ops = ["full %s %s" % (lang, core.hx(PROLOGUE + "x = " + source_of(c["toks"]) + " ;\n}\n")) for c in cases]
        rc, impl0, err = core.run_lines(exe, [], ops, timeout=900)
        cases = [c for c, o in zip(cases, impl0) if o.startswith("ok")]
        src = PROLOGUE.replace("void f(", "void f0(")
        body = "x = 0 ;\n" + "".join("x = %s ;\n" % source_of(c["toks"]) for c in cases)
        path = os.path.join(ctx.tmp, "dump_%s.%s" % (lang, lang))
        open(path, "w").write(src + body + "}\n")
        rc, out, err = core.sh([ctx.cppcheck, "--dump", "-q", "--max-configs=1", path], timeout=600)
        dump = path + ".dump"
        if not os.path.exists(dump):
            res.oblig("correspondence:dump-%s" % lang, False, "correspondence", "no dump file: rc=%s %s" % (rc, (out + err)[-400:]))
            continue
        root = ET.parse(dump).getroot()
        toks = {}
        order = []
        for t in root.iter("token"):
            toks[t.get("id")] = t
            order.append(t)

        def poly(t):
            m = (1 if t.get("astOperand1") else 0) + (2 if t.get("astOperand2") else 0)
            out = [t.get("str") + "/%d" % m]
            if t.get("astOperand1"):
                out += poly(toks[t.get("astOperand1")])
            if t.get("astOperand2"):
                out += poly(toks[t.get("astOperand2")])
            return out
        # statement roots inside f0, in order, by line number (one statement per line)
        first_line = (src.count("\n")) + 2
        by_line = {}
        for t in order:
            ln = int(t.get("linenr"))
            if ln >= first_line and not t.get("astParent") and (t.get("astOperand1") or t.get("astOperand2")):
                by_line.setdefault(ln, []).append(" ".join(poly(t)))
        # same context as in the file (a statement in front: some passes, e.g. simplifyVariableMultipleAssign, look at the previous `;`)
        ops = ["full %s %s" % (lang, core.hx(PROLOGUE + "x = 0 ;\nx = " + source_of(c["toks"]) + " ;\n}\n")) for c in cases]
        rc, impl, err = core.run_lines(exe, [], ops, timeout=900)
        for i, (c, o) in enumerate(zip(cases, impl)):
            p = parse_impl(o)
            d = " ; ".join(by_line.get(first_line + i, []))
            total += 1
            if p is None:
                continue
            h = " ; ".join(p[1][1:])
            res.case("dump|%s|%s" % (lang, source_of(c["toks"])), c["nontrivial"], None)
            if h != d:
                bad.append((lang, source_of(c["toks"]), h, d))
    res.traces_validated += total - len(bad)
    res.oblig("correspondence:dump-equals-in-process", not bad and total > 0, "correspondence",
              "" if not bad else "%d of %d statements differ between --dump and the in-process harness; first: %s" % (len(bad), total, bad[0]))


def clang_poly(node, text):
    k = node.get("kind")
    inner = [x for x in node.get("inner", []) if x]
    if k in ("ParenExpr", "ImplicitCastExpr", "ConstantExpr"):
        return clang_poly(inner[0], text)
    if k in ("BinaryOperator", "CompoundAssignOperator"):
        return [node["opcode"] + "/3"] + clang_poly(inner[0], text) + clang_poly(inner[1], text)
    if k == "ConditionalOperator":
        return ["?/3"] + clang_poly(inner[0], text) + [":/3"] + clang_poly(inner[1], text) + clang_poly(inner[2], text)
    if k == "UnaryOperator":
        return [node["opcode"] + "/1"] + clang_poly(inner[0], text)
    if k == "DeclRefExpr":
        return [node["referencedDecl"]["name"] + "/0"]
    if k == "IntegerLiteral":
        return [node["value"] + "/0"]
    if k == "CStyleCastExpr":
        return ["(/1"] + clang_poly(inner[0], text)
    if k == "ArraySubscriptExpr":
        return ["[/3"] + clang_poly(inner[0], text) + clang_poly(inner[1], text)
    if k == "MemberExpr":
        return ["./3"] + clang_poly(inner[0], text) + [node["name"] + "/0"]
    if k == "CallExpr":
        f = clang_poly(inner[0], text)
        if len(inner) == 1:
            return ["(/1"] + f
        acc = clang_poly(inner[1], text)
        for a in inner[2:]:
            acc = [",/3"] + acc + clang_poly(a, text)
        return ["(/3"] + f + acc
    raise Unrecognised("clang node " + str(k))


def gen_valid(rng, depth, cpp):
    """first-stage trees that are valid C/C++ for int operands (assignments only to variables, decimal literals)"""
    if depth <= 0 or rng.random() < 0.15:
        return ("num", rng.choice(["1", "2", "7", "10"])) if rng.random() < 0.25 else ("var", rng.choice(INT_VARS))
    k = rng.random()
    if k < 0.62:
        op = rng.choice([o for o in BIN_LEVEL if BIN_LEVEL[o] >= 2 and o != "<=>"])
        return ("bin", op, gen_valid(rng, depth - 1, cpp), gen_valid(rng, depth - 1, cpp))
    if k < 0.74:
        op = rng.choice([o for o in BIN_LEVEL if BIN_LEVEL[o] == 1])
        return ("bin", op, ("var", rng.choice(INT_VARS)), gen_valid(rng, depth - 1, cpp))
    if k < 0.8:
        return ("bin", ",", gen_valid(rng, depth - 1, cpp), gen_valid(rng, depth - 1, cpp))
    if k < 0.92:
        e3 = gen_valid(rng, depth - 1, cpp)
        while not cpp and e3[0] == "bin" and BIN_LEVEL[e3[1]] == 1:
            e3 = gen_valid(rng, depth - 1, cpp)        # `c ? t : a = b` is not derivable in the C grammar
        return ("tern", gen_valid(rng, depth - 1, cpp), gen_valid(rng, depth - 1, cpp), e3)
    op = rng.choice(["-", "!", "~"])
    return ("pre", op, gen_valid(rng, depth - 1, cpp))


def run_clang(ctx, res, n, extra=()):
    """the python specification (printer + expected tree, i.e. the ISO table as this check states it) against clang's parser"""
    import shutil
    rng = ctx.rng
    if not shutil.which("clang"):
        res.notes.append("clang not available: specification oracle skipped")
        return
    bad, total = [], 0
    for lang in ("c", "cpp"):
        trees = [gen_valid(rng, rng.choice([2, 3, 4, 5]), lang == "cpp") for _ in range(n)]
        cases = [(t, pr(t, L_ASSIGN, rng, rng.choice([0.0, 0.0, 0.2]))) for t in trees]
        if lang == "cpp":
            cases += list(extra)          # the `<` `>` `>>` chains of the declaration-position stream: the grammar tree is clang's tree
        path = os.path.join(ctx.tmp, "oracle.%s" % ("c" if lang == "c" else "cpp"))
        with open(path, "w") as f:
            for i, (t, toks) in enumerate(cases):
                f.write("void f_%d(int a, int b, int c, int d, int e, int la, int lb, int sa, int sb, int sc, int sd, int x) { x = %s ; }\n" % (i, source_of(toks)))
        rc, out, err = core.sh(["clang", "-x", "c" if lang == "c" else "c++", "-w", "-fsyntax-only", "-Xclang", "-ast-dump=json",
                                "-Xclang", "-ast-dump-filter=f_", path], timeout=900)
        dec, i, objs = json.JSONDecoder(), 0, []
        while i < len(out):
            while i < len(out) and out[i] not in "{":
                i += 1
            if i >= len(out):
                break
            o, j = dec.raw_decode(out, i)
            objs.append(o); i = j
        byname = {o.get("name"): o for o in objs if o.get("kind") == "FunctionDecl"}
        for k, (t, toks) in enumerate(cases):
            fn = byname.get("f_%d" % k)
            total += 1
            if fn is None:
                bad.append((lang, source_of(toks), "function missing in clang output (does not compile?)", "")); continue
            body = [x for x in fn["inner"] if x.get("kind") == "CompoundStmt"][0]
            try:
                got = " ".join(clang_poly(body["inner"][0], None))
            except (Unrecognised, KeyError, IndexError) as ex:
                bad.append((lang, source_of(toks), "clang tree not understood: %s" % ex, "")); continue
            want = " ".join(["=/3", "x/0"] + to_ast(t))
            res.case("clang|%s|%s" % (lang, source_of(toks)), count_ops(t) >= 2, None)
            if got != want:
                bad.append((lang, source_of(toks), got, want))
    res.oblig("oracle:specification-equals-clang", not bad and total > 0, "oracle",
              "" if not bad else "%d of %d expressions: clang's tree differs from the specification tree; first: %s" % (len(bad), total, bad[0]))
    res.extra["clang_oracle_cases"] = total


# ------------------------------------------------------------------------------------------------------------
# declaration positions: `<` `>` `>>` `<<` `<=` `>=` chains over int variables declared in every position
# (Tokenizer::splitTemplateRightAngleBrackets keeps a list of declared variables so that `x < ...` is not probed as a template
# argument list; which declarations it sees depends on where they stand)
# ------------------------------------------------------------------------------------------------------------
SAFE = ["sa", "sb", "sc", "sd"]             # int locals declared behind a `;` (the position every version handles)
SAFE_DECL = "int sa = 1; int sb = 2; int sc = 8; int sd = 3;"
HEAD = "struct S0 { int m0; };\n"
LAYOUTS = {
    # name: (source with @STMT@, probe variables)
    "local-after-semicolon": (HEAD + "void f(int x) {\nint z0 = 0; " + SAFE_DECL + " int la = 4; int lb = 5;\n@STMT@\n}\n", ["la", "lb"]),
    "local-first-after-open-brace": (HEAD + "void f(int x) {\nint la = 4; " + SAFE_DECL + "\n@STMT@\n}\n", ["la"]),
    "local-first-in-nested-block": (HEAD + "void f(int x) {\nint z0 = 0; " + SAFE_DECL + "\n{\nint la = 4;\n@STMT@\n}\n}\n", ["la"]),
    "local-after-close-brace": (HEAD + "void f(int x) {\nint z0 = 0; " + SAFE_DECL + "\n{ int t0 = 1; x = t0; }\nint la = 4; int lb = 5;\n@STMT@\n}\n", ["la"]),
    "global-after-function-body": (HEAD + "int g0(void) { return 0; }\nint la = 4;\nvoid f(int x) {\nint z0 = 0; " + SAFE_DECL + "\n@STMT@\n}\n", ["la"]),
    "global-after-semicolon": (HEAD + "int g0 = 0; int la = 4; int lb = 5;\nvoid f(int x) {\nint z0 = 0; " + SAFE_DECL + "\n@STMT@\n}\n", ["la", "lb"]),
    "parameter": (HEAD + "void f(int la, int lb, int x) {\nint z0 = 0; " + SAFE_DECL + "\n@STMT@\n}\n", ["la", "lb"]),
    "second-declarator": (HEAD + "void f(int x) {\nint z0 = 0; " + SAFE_DECL + " int z1 = 4, la = 5, lb = 6;\n@STMT@\n}\n", ["la", "lb"]),
    "qualified-type": (HEAD + "void f(int x) {\nint z0 = 0; " + SAFE_DECL + " const int la = 4; unsigned int lb = 5;\n@STMT@\n}\n", ["la", "lb"]),
    "uninitialised-then-assigned": (HEAD + "void f(int x) {\nint z0 = 0; " + SAFE_DECL + " int la; int lb; la = 4; lb = 5;\n@STMT@\n}\n", ["la", "lb"]),
}
ANGLE_OPS = ["<", ">", ">>", "<<", "<=", ">=", "<", ">>"]


def gen_angle(rng, depth, leaves):
    if depth <= 0 or rng.random() < 0.2:
        return ("var", rng.choice(leaves))
    op = rng.choice(ANGLE_OPS if rng.random() < 0.85 else ["+", "*", "==", "&&", "-"])
    return ("bin", op, gen_angle(rng, depth - 1, leaves), gen_angle(rng, depth - 1, leaves))


def decl_cases(rng, per_layout):
    out = []
    for name, (src, probes) in LAYOUTS.items():
        decl = {v: "local-after-semicolon" for v in SAFE + ["z0", "z1"]}
        decl.update({v: name for v in probes}); decl["x"] = "parameter"
        for lang in ("cpp", "c"):
            n = per_layout if lang == "cpp" else max(2, per_layout // 6)
            P = probes[0]
            fixed = [("bin", "<", ("bin", "<", ("var", P), ("var", "sa")), ("bin", ">>", ("var", "sb"), ("var", "sc"))),
                     ("bin", "+", ("var", "sd"), ("bin", "<", ("bin", "<", ("var", "sa"), ("var", P)), ("bin", ">>", ("var", "sb"), ("var", "sc")))),
                     ("bin", ">", ("bin", "<", ("var", P), ("var", "sa")), ("var", "sb")),
                     ("bin", ">", ("bin", "<", ("var", P), ("bin", "-", ("var", "sa"), ("var", "sb"))), ("bin", "+", ("var", "sc"), ("var", "sd"))),
                     ("bin", "<", ("var", P), ("bin", ">>", ("bin", ">>", ("var", "sa"), ("var", "sb")), ("var", "sc"))),
                     ("bin", ">=", ("bin", "<", ("var", P), ("var", probes[-1])), ("bin", ">>", ("var", "sa"), ("var", P)))]
            trees = fixed[:n] + [gen_angle(rng, rng.choice([2, 3, 4]), probes * 2 + SAFE) for _ in range(max(0, n - len(fixed)))]
            for t in trees:
                toks = pr(t, L_ASSIGN, rng, rng.choice([0.0, 0.0, 0.15]))
                out.append(dict(lang=lang, toks=toks, expect=["=/3", "x/0"] + to_ast(t), tree=t, nontrivial=count_ops(t) >= 2,
                                source=src, layout=name, decl=decl))
    return out


def pair_cases():
    """every ordered pair of binary operators in both groupings, and every binary operator against ?: in every position
    (printed minimally; the violation key of a deviation here would be the operator pair)"""
    out = []
    A, B, C, D = ("var", "a"), ("var", "b"), ("var", "c"), ("var", "d")
    for lang in ("c", "cpp"):
        ops = [o for o in BIN_LEVEL if lang == "cpp" or o != "<=>"]
        trees = []
        for o1 in ops:
            for o2 in ops:
                trees.append(("bin", o1, ("bin", o2, A, B), C))
                trees.append(("bin", o1, A, ("bin", o2, B, C)))
            trees.append(("bin", o1, ("tern", A, B, C), D))
            trees.append(("bin", o1, A, ("tern", B, C, D)))
            trees.append(("tern", ("bin", o1, A, B), C, D))
            trees.append(("tern", A, ("bin", o1, B, C), D))
            trees.append(("tern", A, B, ("bin", o1, C, D)))
        trees += [("tern", ("tern", A, B, C), D, A), ("tern", A, ("tern", B, C, D), A), ("tern", A, B, ("tern", C, D, A))]
        for t in trees:
            if lang == "cpp" and "<" in [x for x in pr(t, L_ASSIGN)] and ">>" in pr(t, L_ASSIGN):
                pass
            out.append(dict(lang=lang, toks=pr(t, L_ASSIGN), expect=["=/3", "x/0"] + to_ast(t), tree=t, nontrivial=True))
    return out


def search(ctx, res, exe, drv):
    """an obligation broke and no failing input is known yet: evaluate P_impl on a much wider sample"""
    rng = ctx.rng
    cases = []
    for i in range(20000):
        lang = "cpp" if i % 2 else "c"
        t = gen_tree(rng, rng.choice([2, 3, 4, 5, 6]), lang == "cpp", rng.random() < 0.5)
        cases.append(mk_case(rng, lang, t, rng.choice([0.0, 0.0, 0.3])))
    res2 = core.Result(ctx, res.level)
    fails = run_cases(ctx, res2, exe, drv, cases, "search", count=False)
    res.extra["search_cases"] = len(cases)
    report_fails(res, [f for f in fails if f["key"] is None][:20], "search")


def corpus_case(c):
    d = dict(lang=c["lang"], toks=c["toks"], expect=c.get("expect"), nontrivial=True, origin="corpus")
    if c.get("layout"):
        src, probes = LAYOUTS[c["layout"]]
        decl = {v: "local-after-semicolon" for v in SAFE + ["z0", "z1"]}
        decl.update({v: c["layout"] for v in probes}); decl["x"] = "parameter"
        d.update(source=src, layout=c["layout"], decl=decl)
    return d


def load_corpus():
    p = os.path.join(core.VERIF, "corpus", "C07", "cases.json")
    return json.load(open(p)) if os.path.exists(p) else []


def run(ctx, res):
    rng = ctx.rng
    thorough = ctx.tier == "thorough"
    # ---- T: translator ---------------------------------------------------------------------------------------
    try:
        x = translate(ctx)
        res.oblig("T:ladder-extracted", True, "translation", "%d levels, AST_MAX_DEPTH=%d" % (len(x["levels"]), x["maxDepth"]))
        res.extra["ladder"] = [dict(name=l["name"], ops=[o for o, _ in l["ops"]], kind=l["kind"]) for l in x["levels"]]
    except Unrecognised as ex:
        res.oblig("T:ladder-extracted", False, "translation", "unrecognised shape: %s" % ex)
    core.prove(ctx, res, MODULES, THEOREMS)
    res.assumptions += [
        "the driver's classification of real tokens into the model's token classes (flags printed by harness/c07.cpp) is trusted; validated by the correspondences only",
        "theorems cover binary levels, ?:, assignment, comma, parentheses and prefix - ! ~ * &; prefix ++/--, postfix, casts, calls, subscripts, member access: model + correspondence only",
        "tokenizer passes other than prepareTernaryOpForAST are not modelled; expressions they rewrite are compared model-vs-code only",
        "isoTable (the ISO C++20 [expr] / C17 6.5 table in Lean) and the python specification are hand-written; the latter is checked against clang in the thorough tier",
    ]
    drv = ctx.driver("drv_c07")
    exe = ctx.harness("c07")

    # ---- corpus first --------------------------------------------------------------------------------------------
    corpus = load_corpus()
    ccases = [corpus_case(c) for c in corpus]
    if ccases:
        fails = run_cases(ctx, res, exe, drv, ccases, "corpus")
        report_fails(res, fails, "corpus")
        res.extra["corpus_cases"] = len(ccases)

    # ---- C1 + P_impl: random trees ----------------------------------------------------------------------------------
    n1 = 30000 if thorough else 4000
    cases = []
    for i in range(n1):
        lang = "cpp" if i % 2 else "c"
        stage2 = rng.random() < 0.6
        t = gen_tree(rng, rng.choice([2, 3, 3, 4, 5]), lang == "cpp", stage2)
        extra = rng.choice([0.0, 0.0, 0.15, 0.3])
        c = mk_case(rng, lang, t, extra)
        cases.append(c)
        res.count("stage:%d" % (2 if stage2 else 1))
        res.count("ops:%d" % min(count_ops(t), 12))
        res.count("parens:%s" % ("minimal" if extra == 0 else "redundant"))
    fails = run_cases(ctx, res, exe, drv, cases, "pipeline")
    report_fails(res, fails, "generated")
    # the non-variable side of skipDecl's early return: behind `(` an undeclared name (varId 0, could be a type) or a typedef name;
    # there skipDecl must still fire - no grammar expectation (the name may be a type), model-vs-code only
    nv = []
    for i in range(60 if thorough else 24):
        lang = "cpp" if i % 2 else "c"
        u = rng.choice(["u1", "U", "T", "size_t", "u2"])        # T: typedef int T (PROLOGUE); the others are undeclared
        v, w, z = rng.choice(INT_VARS), rng.choice(INT_VARS + ["fp"]), rng.choice(INT_VARS)
        shape = rng.choice([
            ["1", "+", "(", u, "*", w, "(", v, ")", ")"], ["(", u, "*", v, "=", z, ")", "+", "1"], ["1", "+", "(", u, "&", v, "=", z, ")"],
            ["g", "(", u, "*", w, "(", v, ")", ",", z, ")"], ["(", u, "*", v, ")", "+", z], ["2", "*", "(", u, "*", "*", v, "=", z, ")"],
            ["(", u, ")", "*", v], ["(", u, "*", ")", "p"], ["(", v, "*", u, "(", z, ")", ")", "-", "1"], ["(", "(", u, "*", v, "=", z, ")", ")", "-", z]])
        nv.append(dict(lang=lang, toks=shape, expect=None, nontrivial=True, probe=u))
        res.count("nonvar-after-paren:" + ("typedef" if u == "T" else "undeclared"))
    fails = run_cases(ctx, res, exe, drv, nv, "nonvariable-after-parenthesis")
    res.extra["nonvariable_after_paren_skipDecl_fired"] = sum(1 for c in nv if c.get("fired"))
    report_fails(res, fails, "non-variable after parenthesis")
    # `<` `>` `>>` ... chains over variables declared in every declaration position
    dc = decl_cases(rng, 60 if thorough else 14)
    fails = run_cases(ctx, res, exe, drv, dc, "declaration-positions")
    report_fails(res, fails, "declaration position")
    for c in dc:
        res.count("declpos:" + c["layout"])
    res.extra["declaration_position_cases"] = len(dc)
    # every pair of binary operators / ?: in both groupings (exhaustive over the table)
    pc = pair_cases()
    fails = run_cases(ctx, res, exe, drv, pc, "operator-pairs")
    report_fails(res, fails, "operator pair")
    res.extra["operator_pair_cases"] = len(pc)

    # ---- C2 / C3 --------------------------------------------------------------------------------------------------------
    run_raw(ctx, res, exe, drv, 3000 if thorough else 600, 6000 if thorough else 1200)

    # ---- thorough: --dump of the CLI, clang as oracle of the specification ---------------------------------------------------
    if thorough:
        run_dump(ctx, res, exe, 400)
        run_clang(ctx, res, 400, extra=[(c["tree"], c["toks"]) for c in dc if c["lang"] == "cpp"])

    # ---- violation search: an obligation is undischarged and nothing concrete (outside the known classes) was found yet ----------
    if any(not o["ok"] for o in res.obligations) and not any(v["concrete"] and v.get("key") is None for v in res.violations):
        search(ctx, res, exe, drv)


def replay(ctx, res, rp):
    drv = ctx.driver("drv_c07")
    exe = ctx.harness("c07")
    c = corpus_case(rp)
    fails = run_cases(ctx, res, exe, drv, [c], "replay")
    for f in fails:
        print("VIOLATION property=C07 replay=(replayed) %s got [%s] want [%s]" % (f["desc"], f["got"], f["want"]))
    print("replay: %d deviation(s)" % len(fails))
    return 1 if fails else 0


# ------------------------------------------------------------------------------------------------------------
# self-test (not part of the check):  python3 -m vlib.props.c07 --mutations
# hand-made mutations of the anchored code, each compiled into a private copy of one object file and linked into a
# private harness; reports which obligations of this check notice the mutation.  Nothing under /repo is touched.
# ------------------------------------------------------------------------------------------------------------
MUTATIONS = [
    ("M1 `%` moved from compileMulDiv to compileAddSub", "tokenlist.cpp",
     [('if (Token::Match(tok, "[/%]") || (tok->str() == "*"', 'if (Token::Match(tok, "[/]") || (tok->str() == "*"'),
      ('if (Token::Match(tok, "+|-") && !tok->astOperand1()) {', 'if (Token::Match(tok, "+|-|%") && !tok->astOperand1()) {')]),
    ("M2 compileShift skips the additive level", "tokenlist.cpp",
     [("static void compileShift(Token *&tok, AST_state& state)\n{\n    compileAddSub(tok, state);", "static void compileShift(Token *&tok, AST_state& state)\n{\n    compileMulDiv(tok, state);"),
      ("compileBinOp(tok, state, compileAddSub);", "compileBinOp(tok, state, compileMulDiv);")]),
    ("M3 compileBinOp swaps the operands", "tokenlist.cpp",
     [("    if (!state.op.empty()) {\n        binop->astOperand2(state.op.top());\n        state.op.pop();\n    }\n    if (!state.op.empty()) {\n        binop->astOperand1(state.op.top());",
       "    if (!state.op.empty()) {\n        binop->astOperand1(state.op.top());\n        state.op.pop();\n    }\n    if (!state.op.empty()) {\n        binop->astOperand2(state.op.top());")]),
    ("M4 prepareTernaryOpForAST forgets the comma", "tokenize.cpp",
     [('                else if (tok2->str() == ",")\n                    parenthesesNeeded = true;\n', '')]),
    ("M5 compileAssignTernary keeps state.assign across `?`", "tokenlist.cpp",
     [("            state.assign = 0;\n            compileBinOp(tok, state, compileAssignTernary);", "            compileBinOp(tok, state, compileAssignTernary);")]),
    ("M6 assignment made left-associative (callee compileLogicOr)", "tokenlist.cpp",
     [("            state.assign++;\n            const Token *tok1 = tok->next();\n            compileBinOp(tok, state, compileAssignTernary);",
       "            state.assign++;\n            const Token *tok1 = tok->next();\n            compileBinOp(tok, state, compileLogicOr);")]),
    ("M7 isPrefixUnary: `)` of a non-cast counts as prefix context", "tokenlist.cpp",
     [('    return tok->strAt(-1) == ")" && iscast(tok->linkAt(-1), cpp);\n}', '    return tok->strAt(-1) == ")";\n}')]),
    ("M9 skipDecl loses the early return for variables (fix 1fbcd63 reverted)", "tokenlist.cpp",
     [('if (!Token::Match(tok->previous(), "( %name%") || tok->varId() != 0)', 'if (!Token::Match(tok->previous(), "( %name%"))')]),
    ("M8 compileRelComp gains `==`", "tokenlist.cpp",
     [('if (Token::Match(tok, "<|<=|>=|>") && !tok->link()) {', 'if (Token::Match(tok, "<|<=|>=|>|==") && !tok->link()) {')]),
]


def mutation_selftest():
    import shutil, subprocess, random, tempfile, sys
    variant = "o1"
    b = build_repo.bdir(variant)
    work = tempfile.mkdtemp(prefix="c07mut-", dir=os.path.join(core.VERIF, ".build", "tmp"))
    drv = os.path.join(core.LEAN, ".lake", "build", "bin", "drv_c07")
    try:
        only = [a for a in sys.argv if a.startswith("M")]
        for name, fname, edits in MUTATIONS:
            if only and name.split()[0] not in only:
                continue
            src = open(os.path.join(core.REPO, "lib", fname), encoding="utf-8").read()
            mut = src
            for a, r in edits:
                if a not in mut:
                    print("%s: pattern not found, mutation skipped" % name); mut = None; break
                mut = mut.replace(a, r, 1)
            if mut is None:
                continue
            d = os.path.join(work, "lib"); os.makedirs(d, exist_ok=True)
            open(os.path.join(d, fname), "w").write(mut)
            seen = []
            # translator on the mutated source
            fake = os.path.join(work, "repo"); os.makedirs(os.path.join(fake, "lib"), exist_ok=True)
            for f in ("tokenlist.cpp", "token.cpp"):
                shutil.copy(os.path.join(d, f) if f == fname else os.path.join(core.REPO, "lib", f), os.path.join(fake, "lib", f))
            try:
                x = extract(fake)
                ref = extract()
                if x != ref:
                    seen.append("T: extracted ladder changed (Gen/AstLadder.lean differs: extracted_table_is_C / extracted_ladder_wf are re-decided)")
            except Unrecognised as ex:
                seen.append("T: translator fails closed (%s)" % str(ex)[:80])
            # compile the mutated translation unit like the repo build does and link a private harness
            wd = os.path.join(work, "mc"); os.makedirs(wd, exist_ok=True)
            subprocess.run(["python3", os.path.join(core.REPO, "tools", "matchcompiler.py"), "--read-dir=" + d, "--write-dir=" + wd,
                            "--prefix=mc_", "--line", fname], check=True, stdout=subprocess.DEVNULL)
            obj = os.path.join(work, "mut.o")
            cmd = ["g++", "-std=c++11", "-w", "-pipe", "-D" + build_repo.GUARD, "-DHAVE_BOOST", "-DHAVE_EXECINFO_H=1", "-DNDEBUG", "-O1"] + \
                  ["-I%s/%s" % (core.REPO, i) for i in build_repo.INC_LIB] + ["-c", os.path.join(wd, "mc_" + fname), "-o", obj]
            subprocess.run(cmd, check=True)
            objs = [obj if os.path.basename(o) == "lib_" + fname[:-4] + ".o" else o for o in build_repo.lib_objs(variant)]
            exe = os.path.join(work, "harness")
            subprocess.run(["g++"] + build_repo.harness_cxxflags(variant) + ["-I" + os.path.join(core.VERIF, "harness"),
                            os.path.join(core.VERIF, "harness", "c07.cpp"), "-o", exe] + objs + ["-lpthread"], check=True)
            ctx = core.Ctx("C07", "quick", 1)
            res = core.Result(ctx, LEVEL)
            try:
                rng = ctx.rng
                cases = []
                for i in range(1500):
                    lang = "cpp" if i % 2 else "c"
                    cases.append(mk_case(rng, lang, gen_tree(rng, rng.choice([2, 3, 4]), lang == "cpp", rng.random() < 0.5), rng.choice([0.0, 0.2])))
                corpus = [corpus_case(c) for c in load_corpus()]
                fails = run_cases(ctx, res, exe, drv, corpus + cases, "pipeline")
                run_raw(ctx, res, exe, drv, 300, 600)
                for o in res.obligations:
                    if not o["ok"]:
                        seen.append("C: %s (%s)" % (o["name"], o["detail"][:70]))
                known = set(e["key"] for e in core.load_known() if e.get("property") == "C07" and e.get("kind") == "finding")
                fails = [f for f in fails if f["key"] not in known]
                if fails:
                    seen.append("P_impl: %d generated expressions get a wrong tree, e.g. %s" % (len(fails), fails[0]["desc"][:60]))
            finally:
                ctx.cleanup()
            print("%s\n    %s" % (name, "\n    ".join(seen) if seen else "NOT NOTICED"))
    finally:
        shutil.rmtree(work, ignore_errors=True)


if __name__ == "__main__":
    import sys
    if "--mutations" in sys.argv:
        mutation_selftest()

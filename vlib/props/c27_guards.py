"""C27 translator, part 2: abstract interpreter over the pruned clang AST (c27_extract.py) -> guard table.

For every emission site (`reportError(...)` member call, `ErrorMessage` construction) of the check classes it computes, for each
possible (severity, certainty) outcome, a boolean formula (DNF) over
    option literals   enabled(<severity>) | enabled(<symbolic severity expression k>) | inconclusive, each with its REAL polarity:
                      `if (!isEnabled(x)) return;` leaves enabled(x), `if (isEnabled(x)) return;` and the else branch of
                      `if (isEnabled(x))` leave NOT enabled(x).  Nothing about options is dropped; only equivalences are applied
                      ((A and l) or (B and not l) = A or (B and not l) for B subset of A).  Whether a row is monotone in the
                      options (no live disabled-option test) is DECIDED in Lean over the regenerated table (Row.posOk).
    environment lits  lit k +/-  (an opaque boolean of the analysed run: a local bool variable at one version, a pure accessor of a
                      ValueFlow::Value such as `v.condition`, a Settings flag such as `checkLibrary`, `isPremiumEnabled("id")`, a
                      function parameter of a root function, an unrecognised condition)
that is IMPLIED by "this site is executed and reports with that severity/certainty".

Dominance rules (all sound weakenings, see docs/C27.md):
  * `if (C) S1 else S2`: S1 runs under T(C), S2 under F(C); if S1 always leaves (return/continue/break/throw/goto as last
    statement) the REST OF THE ENCLOSING COMPOUND runs under F(C) (and symmetrically);
  * `a && b`: b is evaluated under T(a); `a || b`: b under F(a); `c ? x : y`: x under T(c), y under F(c);
  * facts are dropped at `case`/`default`/labels (reset to the facts at the switch / function entry), at catch handlers;
  * a variable that is assigned gets a new version (facts about the old version no longer apply to reads); variables assigned in a
    loop / switch / try / lambda are havocked at its entry and exit; lambdas keep only option facts;
  * calls to member functions of the check classes are inlined top-down from the roots (functions without a caller inside the
    analysed classes, functions with a textual occurrence that no analysed call explains, functions whose address is taken);
    `getErrorMessages` is neither a root nor a caller (settings = all, --errorlist only).  Recursion: the callee is analysed once
    more with unbound parameters and only the option facts of the call site.
Summaries that are hard-wired and verified textually against the source (fail closed): Settings::isEnabled(const Value*, bool),
ValueFlow::Value::errorSeverity(), Settings::isPremiumEnabled (false when premiumArgs is empty), SimpleEnableGroup::isEnabled.
"""
import os, re, glob
from .. import core

REPO = core.REPO

# ----------------------------------------------------------------------------------------------------------------
# formulas: DNF = frozenset of conjunctions; conjunction = frozenset of literals
#   literal = ('o', atom)            the option test is TRUE     atom = ('sev', name) | ('sym', key) | ('inc',)
#           | ('n', atom)            the option test is FALSE (`!settings.severity.isEnabled(..)`): kept with its real polarity,
#                                    a row that contains one is NOT monotone in the options (decided in Lean: Row.posOk)
#           | ('l', key, pol)
# ----------------------------------------------------------------------------------------------------------------
TT = frozenset([frozenset()])
FF = frozenset()
MAXCONJ = 64


def _absorb(cs):
    cs = sorted(set(cs), key=len)
    out = []
    for c in cs:
        if not any(k <= c for k in out):
            out.append(c)
    return frozenset(out)


def _consistent(c):
    for l in c:
        if l[0] == 'l' and ('l', l[1], not l[2]) in c:
            return False
        if l[0] == 'o' and ('n', l[1]) in c:
            return False
    return True


def _compl(l):
    if l[0] == 'l':
        return ('l', l[1], not l[2])
    return ('n' if l[0] == 'o' else 'o', l[1])


def _consensus(cs):
    """equivalence-preserving simplification: for a = A + l and b = B + not-l with B a subset of A, a can drop l
    ((A and l) or (B and not l) = A or (B and not l)); with B = A this is {c + l, c + not l} -> {c}.  Keeps the join of the two
    branches of `if (b)` / `if (isEnabled(x))` from fragmenting the path facts, and removes option tests that do not matter."""
    cs = set(cs)
    changed = True
    while changed and len(cs) > 1:
        changed = False
        for a in sorted(cs, key=lambda c: (len(c), sorted(map(str, c)))):
            for l in a:
                nl = _compl(l)
                rest = a - {l}
                if any(nl in b and (b - {nl}) <= rest for b in cs if b is not a):
                    cs.discard(a)
                    cs.add(rest)
                    changed = True
                    break
            if changed:
                break
        if changed:
            cs = set(_absorb(cs))
    return cs


def f_or(*fs):
    cs = []
    for f in fs:
        cs.extend(f)
    r = _absorb(cs)
    if len(r) > 1:
        r = _absorb(_consensus(r))
    return r


def weaken(f):
    """keep only what cannot change during the run: option atoms and Settings flags (sound weakening)"""
    return _absorb([frozenset(l for l in c if l[0] in ('o', 'n') or l[1].startswith("S.")) for c in f])


def f_and(*fs):
    cur = TT
    for f in fs:
        if f is TT or f == TT:
            continue
        if len(cur) * len(f) > 4096:
            cur, f = weaken(cur), weaken(f)
            if len(cur) * len(f) > 4096:
                return TT
        nxt = []
        for a in cur:
            for b in f:
                c = a | b
                if _consistent(c):
                    nxt.append(c)
        cur = _absorb(nxt)
        if len(cur) > MAXCONJ:
            cur = weaken(cur)
            if len(cur) > MAXCONJ:
                cur = TT
    return cur


def pcify(f):
    """path facts never keep the literals of unrecognised conditions (keys starting with '~'): sound weakening that keeps the
    formulas small; such literals survive only inside severity / certainty case distinctions and bound booleans"""
    if not any(l[0] == 'l' and l[1].startswith("~") for c in f for l in c):
        return f
    return _absorb([frozenset(l for l in c if not (l[0] == 'l' and l[1].startswith("~"))) for c in f])


def weaken_keep(f):
    return f


def promote(f):
    """literals of unrecognised conditions that decide a severity / certainty (`c ? Severity::error : Severity::warning`) are
    kept in path facts: '~key' -> '?key'"""
    if not any(l[0] == 'l' and l[1].startswith("~") for c in f for l in c):
        return f
    return frozenset(frozenset(('l', "?" + l[1][1:], l[2]) if (l[0] == 'l' and l[1].startswith("~")) else l for l in c) for c in f)


def atom(a):
    return frozenset([frozenset([('o', a)])])


def natom(a):
    return frozenset([frozenset([('n', a)])])


def lit(key, pol=True):
    return frozenset([frozenset([('l', key, pol)])])


def babs_lit(key):
    if key == "NULL:nonzero":
        return B_FALSE
    return (lit(key, True), lit(key, False))


def b_not(b):
    return (b[1], b[0])


def b_and(a, b):
    return (f_and(a[0], b[0]), f_or(a[1], f_and(a[0], b[1])))


def b_or(a, b):
    return (f_or(a[0], f_and(a[1], b[0])), f_and(a[1], b[1]))


B_TRUE = (TT, FF)
B_FALSE = (FF, TT)
B_ANY = (TT, TT)

WRAP = ("ParenExpr", "ImplicitCastExpr", "ExprWithCleanups", "MaterializeTemporaryExpr", "CXXBindTemporaryExpr", "ConstantExpr",
        "SubstNonTypeTemplateParmExpr")
ASSIGN_OPS = ("=", "+=", "-=", "*=", "/=", "%=", "|=", "&=", "^=", "<<=", ">>=")
SEVERITIES = ("none", "error", "warning", "style", "performance", "portability", "information", "debug", "internal")


def strip(n):
    while isinstance(n, dict) and n.get("kind") in WRAP and n.get("inner"):
        n = n["inner"][0]
    return n


def base_type(ty):
    t = re.sub(r"\b(const|volatile|struct|class)\b", " ", ty or "")
    t = t.replace("*", " ").replace("&", " ")
    return " ".join(t.split())


def is_bool(ty):
    return base_type(ty) == "bool"


def enum_kind(ty):
    b = base_type(ty)
    if b == "Severity":
        return "sev"
    if b == "Certainty":
        return "cert"
    return None


def is_value_type(ty):
    return base_type(ty) in ("ValueFlow::Value", "Value")


def is_pure_obj(ty):
    """object expressions whose members are read as pure accessors: ValueFlow::Value, or any const-qualified class object"""
    return is_value_type(ty) or bool(re.search(r"\bconst\b", ty or "")) and not is_bool(ty) and base_type(ty) not in ("Token", "Settings", "Tokenizer", "Scope", "Variable", "Function", "Library")


def is_settings_type(ty):
    return base_type(ty) == "Settings"


def tracked(ty):
    """every local variable gets a new version when it is assigned (its keys — nonzero, eq(..), accessor literals — then
    refer to the new value)"""
    return True


def var_init(v):
    """initialiser expression of a VarDecl (clang marks its presence with the key `init`)"""
    if "init" not in v:
        return None
    ks = [c for c in kids(v) if not c.get("kind", "").endswith("Attr") and c.get("kind") not in ("FullComment",)]
    return ks[-1] if ks else None


def kids(n):
    return [c for c in n.get("inner", []) if isinstance(c, dict)]


def walk(n):
    st = [n]
    while st:
        x = st.pop()
        if not isinstance(x, dict):
            continue
        yield x
        st.extend(reversed(x.get("inner", [])))


# ----------------------------------------------------------------------------------------------------------------

class Fn:
    def __init__(self, rec, dump_idx, file):
        self.rec = rec
        self.dump = dump_idx
        self.cls = rec.get("cls")
        self.name = rec.get("name")
        self.mangled = rec.get("mangledName")
        self.key = self.mangled or "%s::%s@%s" % (self.cls, self.name, rec.get("ln"))
        self.file = rec.get("file") or file
        self.line = rec.get("ln")
        self.endline = rec.get("le")
        self.params = [c for c in kids(rec) if c.get("kind") == "ParmVarDecl"]
        self.body = next((c for c in kids(rec) if c.get("kind") == "CompoundStmt"), None)
        self.static = rec.get("storageClass") == "static"
        self.qual = "%s::%s" % (self.cls, self.name)
        self.short = "%s::%s" % ((self.cls or "").split("::")[-1], self.name)


class Frame:
    def __init__(self, fn, tag):
        self.fn = fn
        self.tag = tag
        self.bind = {}          # declid -> ('bool', babs) | ('enum', leaves) | ('obj', key)
        self.ver = {}           # declid -> int
        self.names = {}         # declid -> name
        self.volatile = set()   # declids assigned inside lambdas
        self.entry_pc = TT
        self.switch_pc = []
        self.in_lambda = 0
        self.strvars = {}

    def vkey(self, did):
        return "%s:%s#%s@%d" % (self.tag, self.names.get(did, "?"), str(did), self.ver.get(did, 0))


class Analyzer:
    def __init__(self, dumps):
        self.problems = []          # fail-closed notes
        self.fns = {}               # key -> Fn
        self.by_qual = {}           # (cls, name) -> [keys]
        self.by_name = {}           # name -> [keys]
        self.declmaps = []          # per dump: declid -> (cls, name, mangled)
        self.defaults = {}          # mangled / (cls,name) -> [default expr or None]
        self.check_classes = set()
        for di, d in enumerate(dumps):
            if "error" in d:
                self.problems.append(d["error"])
                self.declmaps.append({})
                continue
            self.declmaps.append(d["decls"])
            for cid, cn in d["classes"].items():
                self.check_classes.add(cn)
            for rec in d["functions"]:
                f = Fn(rec, di, d["file"])
                if f.body is None:
                    continue
                if f.key in self.fns:
                    continue
                self.fns[f.key] = f
                self.by_qual.setdefault((f.cls, f.name), []).append(f.key)
                self.by_name.setdefault(f.name, []).append(f.key)
            for rec in d.get("paramdefaults", []):
                self.defaults.setdefault(rec["key"], rec["defaults"])
        self.memo = {}
        self._av_cache = {}
        self._strvars = {}
        self.steered = set()
        self.rows = {}              # (file, line, fnshort, ids, sevleaf, cert) -> DNF
        self.site_info = {}
        self.calls_to = {}          # callee key -> set(caller key)
        self.call_nodes = []        # (file, ln, le, name)
        self.addr_taken = set()
        self.lits = {}
        self.site_fns = set()
        self._nodeuid = 0
        self.stats = dict(inlined=0, memo_hits=0, recursion_generic=0)

    # ---- callee resolution ---------------------------------------------------------------------------------
    def callee_of(self, call, dump):
        """-> (fnkey or None, cls or None, name or None, objexpr or None, args)"""
        ks = kids(call)
        if not ks:
            return None, None, None, None, []
        k = call.get("kind")
        callee = ks[0]
        args = ks[1:]
        c = strip(callee)
        if c.get("kind") == "MemberExpr":
            name = c.get("name")
            obj = kids(c)[0] if kids(c) else None
            cls = base_type(obj.get("ty", "")) if obj else None
            did = c.get("referencedMemberDecl")
            ent = self.declmaps[dump].get(did)
            if ent:
                cls2, name2, mangled = ent
                if mangled in self.fns:
                    return mangled, cls2, name2, obj, args
                cls = cls2 or cls
            return self._resolve(cls, name, len(args)), cls, name, obj, args
        if c.get("kind") == "DeclRefExpr" and c.get("ref", {}).get("kind") in ("CXXMethodDecl", "FunctionDecl"):
            did = c["ref"].get("id")
            name = c["ref"].get("name")
            ent = self.declmaps[dump].get(did)
            if k == "CXXOperatorCallExpr":
                return None, None, name, None, args
            if ent:
                cls2, name2, mangled = ent
                if mangled in self.fns:
                    return mangled, cls2, name2, None, args
                return self._resolve(cls2, name2, len(args)), cls2, name2, None, args
            return None, None, name, None, args
        return None, None, None, None, args

    def _resolve(self, cls, name, nargs):
        if not name:
            return None
        cands = self.by_qual.get((cls, name))
        if not cands and cls:
            # inherited / cross-class: unique name among analysed functions of a class whose name ends the same
            cands = [k for k in self.by_name.get(name, []) if self.fns[k].cls and (self.fns[k].cls == cls or self.fns[k].cls.endswith("::" + cls))]
        if not cands:
            return None
        ok = [k for k in cands if len(self.fns[k].params) >= nargs]
        exact = [k for k in ok if len(self.fns[k].params) == nargs]
        if len(exact) == 1:
            return exact[0]
        if len(ok) == 1:
            return ok[0]
        if len(ok) > 1:
            return ("ambiguous", tuple(sorted(ok)))
        return None

    # ---- pre-pass: call graph, site functions, address-taken -----------------------------------------------
    def prepass(self):
        for key, f in self.fns.items():
            for n in walk(f.body):
                k = n.get("kind")
                if k in ("CXXMemberCallExpr", "CallExpr"):
                    ck, cls, name, obj, args = self.callee_of(n, f.dump)
                    if name:
                        self.call_nodes.append((f.file, n.get("ln"), n.get("le") or n.get("ln"), name, key))
                    if name == "reportError" and (cls in ("Check",) or (cls or "").startswith("Check")):
                        self.site_fns.add(key)
                    if isinstance(ck, tuple):
                        for c in ck[1]:
                            self.calls_to.setdefault(c, set()).add(key)
                    elif ck:
                        self.calls_to.setdefault(ck, set()).add(key)
                elif k in ("CXXConstructExpr", "CXXTemporaryObjectExpr") and base_type(n.get("ty", "")) == "ErrorMessage" and \
                        any(enum_kind(a.get("ty", "")) == "sev" for a in kids(n)):
                    self.site_fns.add(key)
            # address taken: DeclRefExpr to a method that is not the callee of a call
            callee_ids = set()
            for n in walk(f.body):
                if n.get("kind") in ("CallExpr", "CXXMemberCallExpr", "CXXOperatorCallExpr") and kids(n):
                    c = strip(kids(n)[0])
                    if c.get("kind") == "DeclRefExpr":
                        callee_ids.add(id(c))
            for n in walk(f.body):
                if n.get("kind") == "DeclRefExpr" and n.get("ref", {}).get("kind") == "CXXMethodDecl" and id(n) not in callee_ids:
                    ent = self.declmaps[f.dump].get(n["ref"].get("id"))
                    if ent and ent[2] in self.fns:
                        self.addr_taken.add(ent[2])
        # relevant = reaches a site
        rel = set(self.site_fns)
        changed = True
        callers_of = self.calls_to
        callees = {}
        for callee, cs in callers_of.items():
            for c in cs:
                callees.setdefault(c, set()).add(callee)
        while changed:
            changed = False
            for c, es in callees.items():
                if c not in rel and es & rel:
                    rel.add(c)
                    changed = True
        self.relevant = rel

    def _code_lines(self, p):
        try:
            text = open(p, encoding="utf-8", errors="replace").read()
        except OSError:
            return []
        text = re.sub(r"/\*.*?\*/", lambda m: re.sub(r"[^\n]", " ", m.group(0)), text, flags=re.S)
        out = []
        off = 0         # nesting depth inside an inactive `#ifdef CHECK_INTERNAL` block (the build does not define it)
        for i, line in enumerate(text.split("\n"), 1):
            st = line.strip()
            if off:
                if re.match(r"#\s*if", st):
                    off += 1
                elif re.match(r"#\s*endif", st):
                    off -= 1
                elif off == 1 and re.match(r"#\s*else", st):
                    off = 0
                out.append((i, ""))
                continue
            if re.match(r"#\s*ifdef\s+CHECK_INTERNAL\b", st) or re.match(r"#\s*if\s+defined\s*\(?\s*CHECK_INTERNAL\b", st):
                off = 1
                out.append((i, ""))
                continue
            code = re.sub(r'"([^"\\]|\\.)*"', '""', line)
            code = re.sub(r"'([^'\\]|\\.)'", "' '", code)
            code = re.sub(r"//.*$", "", code)
            out.append((i, code))
        return out

    def textual_external_callers(self):
        """occurrences `name(` of relevant member functions in lib/ and cli/ that no analysed call / declaration explains"""
        names = {}
        for k in self.relevant:
            f = self.fns[k]
            if f.name in ("runChecks", "getErrorMessages", "analyseWholeProgram", "getFileInfo", "loadFileInfoFromXml") or \
                    f.name.startswith("operator") or f.name == (f.cls or "").split("::")[-1] or f.name.startswith("~"):
                continue
            names.setdefault(f.name, []).append(k)
        names["reportError"] = []
        explained = {}
        for (file, ln, le, name, caller) in self.call_nodes:
            if name in names:
                explained.setdefault((os.path.basename(file or ""), name), []).append((ln or 0, le or ln or 0))
        decl_lines = {}
        for k, f in self.fns.items():
            if f.name in names:
                decl_lines.setdefault((os.path.basename(f.file or ""), f.name), set()).add(f.line)
        rx = re.compile(r"\b(" + "|".join(sorted(map(re.escape, names), key=len, reverse=True)) + r")\s*\(")
        ext = {}
        self.unexplained_sites = []
        files = sorted(glob.glob(os.path.join(REPO, "lib", "*.cpp")) + glob.glob(os.path.join(REPO, "lib", "*.h")) +
                       glob.glob(os.path.join(REPO, "cli", "*.cpp")))
        for p in files:
            bn = os.path.basename(p)
            lines = self._code_lines(p)
            words = set(re.findall(r"\bCheck\w*", "\n".join(c for _, c in lines)))
            for i, code in lines:
                for m in rx.finditer(code):
                    name = m.group(1)
                    if name != "reportError" and not any((self.fns[k].cls or "").split("::")[0] in words for k in names[name]):
                        continue
                    if name == "reportError" and not bn.startswith("check"):
                        continue
                    if any(a <= i <= b for a, b in explained.get((bn, name), ())):
                        continue
                    if i in decl_lines.get((bn, name), ()):
                        continue
                    pre = code[:m.start()].rstrip()
                    if re.search(r"[\w>\*&]$", pre) and not re.search(r"\b(return|else|case|throw|new|delete|co_return|co_yield)$", pre):
                        continue        # `T name(`: declaration (header) / definition of a function of that name
                    where = "%s:%d" % (os.path.relpath(p, REPO), i)
                    if name == "reportError":
                        self.unexplained_sites.append(where)
                        continue
                    for k in names[name]:
                        if (self.fns[k].cls or "").split("::")[0] in words:
                            ext.setdefault(k, []).append(where)
        return ext

    # ---- expression evaluation -----------------------------------------------------------------------------------
    def uid(self, n, fr):
        """key of an unrecognised condition / expression: unique per AST node ('~' = never added to path facts, see pcify)"""
        return "~%s:e%s@L%s" % (fr.tag, str(n.get("id", "")), n.get("ln", "?"))

    def objkey(self, n, fr):
        n = strip(n)
        k = n.get("kind")
        if k == "DeclRefExpr":
            did = n.get("ref", {}).get("id")
            b = fr.bind.get(did)
            if b and b[0] == 'obj':
                return b[1]
            if n.get("ref", {}).get("kind") in ("VarDecl", "ParmVarDecl", "BindingDecl"):
                fr.names.setdefault(did, n["ref"].get("name"))
                if did in fr.volatile:
                    return None
                return fr.vkey(did)
            return None
        if k == "UnaryOperator" and n.get("opcode") in ("&", "*") and kids(n):
            return self.objkey(kids(n)[0], fr)
        if k == "CXXOperatorCallExpr":
            ks = kids(n)
            if len(ks) == 2 and strip(ks[0]).get("ref", {}).get("name") in ("operator*", "operator->"):
                return self.objkey(ks[1], fr)
        return None

    def stable_key(self, n, fr):
        """operand of an (in)equality whose value is fixed while its variable keeps its version"""
        k = n.get("kind")
        if k == "DeclRefExpr":
            r = n.get("ref", {})
            if r.get("kind") == "EnumConstantDecl":
                return "enum:" + str(r.get("name"))
            if r.get("kind") in ("VarDecl", "ParmVarDecl") and r.get("id") not in fr.volatile:
                fr.names.setdefault(r.get("id"), r.get("name"))
                b = fr.bind.get(r.get("id"))
                if b and b[0] == 'obj':
                    return b[1]
                if b and b[0] == 'const':
                    return "lit:" + str(b[1])
                return fr.vkey(r.get("id"))
        if k in ("IntegerLiteral", "CharacterLiteral"):
            return "lit:" + str(n.get("value"))
        if k == "CXXBoolLiteralExpr":
            return "lit:" + str(n.get("value"))
        return None

    def settings_path(self, n):
        """`mSettings->a.b` -> 'a.b' when the root object has type Settings, else None"""
        n = strip(n)
        path = []
        while n.get("kind") == "MemberExpr":
            obj = kids(n)[0] if kids(n) else None
            path.append(n.get("name"))
            if obj is None:
                return None
            if is_settings_type(obj.get("ty", "")):
                return ".".join(reversed(path))
            n = strip(obj)
        return None

    def enum_abs(self, n, fr):
        """-> list of (dnf, leaf); leaf = ('c', name) | ('sym', key) | ('unk', key)"""
        n = strip(n)
        k = n.get("kind")
        if k == "DeclRefExpr":
            r = n.get("ref", {})
            if r.get("kind") == "EnumConstantDecl":
                return [(TT, ('c', r.get("name")))]
            did = r.get("id")
            b = fr.bind.get(did)
            if b and b[0] == 'enum':
                return b[1]
            fr.names.setdefault(did, r.get("name"))
            if did in fr.volatile:
                return [(TT, ('sym', self.uid(n, fr)))]
            return [(TT, ('sym', fr.vkey(did)))]
        if k == "ConditionalOperator":
            c, a, b = kids(n)
            cb = self.bool_abs(c, fr)
            cb = (promote(cb[0]), promote(cb[1]))
            return [(f_and(cb[0], p), l) for p, l in self.enum_abs(a, fr)] + [(f_and(cb[1], p), l) for p, l in self.enum_abs(b, fr)]
        if k in ("CXXStaticCastExpr", "CStyleCastExpr", "CXXFunctionalCastExpr") and kids(n) and enum_kind(kids(n)[-1].get("ty", "")):
            return self.enum_abs(kids(n)[-1], fr)
        if k == "CXXDefaultArgExpr":
            return [(TT, ('sym', self.uid(n, fr)))]
        if k == "MemberExpr":
            ok = self.objkey(kids(n)[0], fr) if kids(n) else None
            if ok:
                return [(TT, ('sym', "%s.%s" % (ok, n.get("name"))))]
        return [(TT, ('sym', self.uid(n, fr)))]

    def sev_enabled(self, leaves):
        """(T, F) of `settings.severity.isEnabled(<severity expression>)` — both polarities are kept"""
        t, f = [], []
        for p, l in leaves:
            a = ('sev', l[1]) if l[0] == 'c' else ('sym', l[1])
            t.append(f_and(p, atom(a)))
            f.append(f_and(p, natom(a)))
        return (f_or(*t), f_or(*f))

    def value_lits(self, vexpr, fr, n):
        ok = self.objkey(vexpr, fr) if vexpr is not None else None
        if ok is None:
            ok = self.uid(n, fr)
        return ok

    def bool_abs(self, n, fr):
        """(T, F): formulas implied by `n is true` / `n is false`"""
        if not isinstance(n, dict):
            return B_ANY
        k = n.get("kind")
        if k in ("ImplicitCastExpr",) and n.get("castKind") in ("PointerToBoolean", "IntegralToBoolean", "MemberPointerToBoolean", "FloatingToBoolean"):
            inner = strip(kids(n)[0]) if kids(n) else {}
            if inner.get("kind") == "MemberExpr" and kids(inner):
                obj = kids(inner)[0]
                if is_pure_obj(obj.get("ty", "")):
                    ok = self.objkey(obj, fr)
                    if ok:
                        return babs_lit("%s.%s" % (ok, inner.get("name")))
            if inner.get("kind") == "DeclRefExpr" and inner.get("ref", {}).get("kind") in ("VarDecl", "ParmVarDecl"):
                did = inner["ref"].get("id")
                fr.names.setdefault(did, inner["ref"].get("name"))
                if did not in fr.volatile and "*" in inner["ref"].get("ty", ""):
                    ok = self.objkey(inner, fr)
                    if ok:
                        return babs_lit(ok + ":nonzero")
            if inner.get("kind") in ("IntegerLiteral",):
                return B_FALSE if str(inner.get("value")) == "0" else B_TRUE
            if inner.get("kind") in ("CXXNullPtrLiteralExpr", "GNUNullExpr"):
                return B_FALSE
            return babs_lit(self.uid(n, fr))
        if k in WRAP:
            return self.bool_abs(kids(n)[0], fr) if kids(n) else B_ANY
        if k == "CXXBoolLiteralExpr":
            return B_TRUE if n.get("value") in (True, "true") else B_FALSE
        if k == "UnaryOperator" and n.get("opcode") == "!":
            return b_not(self.bool_abs(kids(n)[0], fr))
        if k == "BinaryOperator":
            op = n.get("opcode")
            a, b = kids(n)
            if op == "&&":
                return b_and(self.bool_abs(a, fr), self.bool_abs(b, fr))
            if op == "||":
                return b_or(self.bool_abs(a, fr), self.bool_abs(b, fr))
            if op in ("==", "!="):
                ka, kb = enum_kind(strip(a).get("ty", "")), enum_kind(strip(b).get("ty", ""))
                if ka and ka == kb:
                    la, lb = self.enum_abs(a, fr), self.enum_abs(b, fr)
                    eq, ne = [], []
                    for pa, xa in la:
                        for pb, xb in lb:
                            p = f_and(pa, pb)
                            if xa[0] == 'c' and xb[0] == 'c':
                                (eq if xa[1] == xb[1] else ne).append(p)
                            elif xa == xb:
                                eq.append(p)
                            else:
                                key = "eq(%s,%s)" % tuple(sorted([str(xa[1]), str(xb[1])]))
                                eq.append(f_and(p, lit(key, True)))
                                ne.append(f_and(p, lit(key, False)))
                    r = (f_or(*eq), f_or(*ne))
                    return r if op == "==" else b_not(r)
                if is_bool(strip(a).get("ty", "")) and is_bool(strip(b).get("ty", "")):
                    x, y = self.bool_abs(a, fr), self.bool_abs(b, fr)
                    eqv = (f_or(f_and(x[0], y[0]), f_and(x[1], y[1])), f_or(f_and(x[0], y[1]), f_and(x[1], y[0])))
                    return eqv if op == "==" else b_not(eqv)
            if op == ",":
                return self.bool_abs(b, fr)
            if op in ("==", "!="):
                sa, sb = strip(a), strip(b)
                nulls = ("CXXNullPtrLiteralExpr", "GNUNullExpr")
                r = None
                if sb.get("kind") in nulls or (sb.get("kind") == "IntegerLiteral" and str(sb.get("value")) == "0" and "*" in sa.get("ty", "")):
                    ok = self.objkey(sa, fr)
                    if ok:
                        r = b_not(babs_lit(ok + ":nonzero"))
                elif sa.get("kind") in nulls:
                    ok = self.objkey(sb, fr)
                    if ok:
                        r = b_not(babs_lit(ok + ":nonzero"))
                else:
                    ka, kb = self.stable_key(sa, fr), self.stable_key(sb, fr)
                    if ka and kb and ka.startswith("lit:") and kb.startswith("lit:"):
                        r = B_TRUE if ka == kb else B_FALSE
                    elif ka and kb:
                        r = babs_lit("eq(%s,%s)" % tuple(sorted([ka, kb])))
                if r is not None:
                    return r if op == "==" else b_not(r)
            return babs_lit(self.uid(n, fr))
        if k == "ConditionalOperator":
            c, a, b = kids(n)
            cb, x, y = self.bool_abs(c, fr), self.bool_abs(a, fr), self.bool_abs(b, fr)
            return (f_or(f_and(cb[0], x[0]), f_and(cb[1], y[0])), f_or(f_and(cb[0], x[1]), f_and(cb[1], y[1])))
        if k == "DeclRefExpr":
            r = n.get("ref", {})
            did = r.get("id")
            if r.get("kind") in ("VarDecl", "ParmVarDecl") and is_bool(r.get("ty", "") or n.get("ty", "")):
                b = fr.bind.get(did)
                if b and b[0] == 'bool':
                    return b[1]
                fr.names.setdefault(did, r.get("name"))
                if did in fr.volatile:
                    return babs_lit(self.uid(n, fr))
                return babs_lit(fr.vkey(did))
            return babs_lit(self.uid(n, fr))
        if k == "MemberExpr":
            sp = self.settings_path(n)
            if sp and is_bool(n.get("ty", "")):
                return babs_lit("S." + sp)
            obj = kids(n)[0] if kids(n) else None
            if obj is not None and is_pure_obj(obj.get("ty", "")) and is_bool(n.get("ty", "")):
                ok = self.objkey(obj, fr)
                if ok:
                    return babs_lit("%s.%s" % (ok, n.get("name")))
            return babs_lit(self.uid(n, fr))
        if k == "CXXMemberCallExpr":
            ks = kids(n)
            me = strip(ks[0]) if ks else {}
            args = ks[1:]
            if me.get("kind") == "MemberExpr" and kids(me):
                obj = kids(me)[0]
                oty = obj.get("ty", "")
                name = me.get("name")
                if name == "isEnabled" and "SimpleEnableGroup<Severity>" in oty and self.settings_path(obj) == "severity" and len(args) == 1:
                    return self.sev_enabled(self.enum_abs(args[0], fr))
                if name == "isEnabled" and "SimpleEnableGroup<Certainty>" in oty and self.settings_path(obj) == "certainty" and len(args) == 1:
                    la = self.enum_abs(args[0], fr)
                    if all(l == ('c', 'inconclusive') for _, l in la):
                        ps = f_or(*[p for p, _ in la])
                        return (f_and(ps, atom(('inc',))), f_and(ps, natom(('inc',))))
                    return babs_lit(self.uid(n, fr))
                if name == "isPremiumEnabled" and is_settings_type(oty) and len(args) == 1:
                    a = strip(args[0])
                    if a.get("kind") == "StringLiteral":
                        return babs_lit("S.premium:" + a.get("value", "").strip('"'))
                    return babs_lit("S.premium:?" + self.uid(n, fr))
                if name == "isEnabled" and is_settings_type(oty) and len(args) == 2:
                    # Settings::isEnabled(const ValueFlow::Value *value, bool inconclusiveCheck)  (summary verified textually)
                    vk = self.value_lits(args[0], fr, n)
                    cond, darg, vinc = babs_lit(vk + ".condition"), babs_lit(vk + ".defaultArg"), babs_lit(vk + ".isInconclusive")
                    if strip(args[1]).get("kind") == "CXXDefaultArgExpr":
                        ic = B_FALSE
                    else:
                        ic = self.bool_abs(args[1], fr)
                    t = f_and(f_or(f_and(cond[1], darg[1]), atom(('sev', 'warning'))),
                              f_or(f_and(ic[1], vinc[1]), atom(('inc',))))
                    f = f_or(f_and(natom(('sev', 'warning')), f_or(cond[0], darg[0])),
                             f_and(natom(('inc',)), f_or(ic[0], vinc[0])))
                    return (t, f)
                if is_pure_obj(oty) and not args:
                    ok = self.objkey(obj, fr)
                    if ok:
                        if name == "errorSeverity" and is_value_type(oty):
                            cond, darg = babs_lit(ok + ".condition"), babs_lit(ok + ".defaultArg")
                            return (f_and(cond[1], darg[1]), f_or(cond[0], darg[0]))
                        return babs_lit("%s.%s" % (ok, name))
            return babs_lit(self.uid(n, fr))
        return babs_lit(self.uid(n, fr))

    # ---- statements ------------------------------------------------------------------------------------------------
    def assigned_vars(self, n):
        """tracked-type variables (bool / Severity / Certainty / ValueFlow::Value pointers) that may be written inside n"""
        if not isinstance(n, dict):
            return frozenset()
        c = self._av_cache.get(id(n))
        if c is not None:
            return c
        out = set()
        for x in walk(n):
            k = x.get("kind")
            if k in ("BinaryOperator", "CompoundAssignOperator") and x.get("opcode") in ASSIGN_OPS and kids(x):
                t = strip(kids(x)[0])
                if t.get("kind") == "DeclRefExpr" and tracked(t.get("ref", {}).get("ty", "")):
                    out.add(t.get("ref", {}).get("id"))
            elif k == "UnaryOperator" and x.get("opcode") in ("++", "--") and kids(x):
                t = strip(kids(x)[0])
                if t.get("kind") == "DeclRefExpr" and tracked(t.get("ref", {}).get("ty", "")):
                    out.add(t.get("ref", {}).get("id"))
        out |= self.escaping_vars(n)
        out.discard(None)
        out = frozenset(out)
        self._av_cache[id(n)] = out
        return out

    def escaping_vars(self, n):
        """non-const bool / enum local variables referenced as lvalues outside a plain read (address taken, bound to a
        reference parameter, ...): treated as written there"""
        out = set()

        def rec(x, parent_reads):
            if not isinstance(x, dict):
                return
            k = x.get("kind")
            if k == "DeclRefExpr":
                r = x.get("ref", {})
                if r.get("kind") in ("VarDecl", "ParmVarDecl") and not parent_reads:
                    ty = r.get("ty", "")
                    if (is_bool(ty) or enum_kind(ty)) and "*" not in ty and not re.search(r"\bconst\b", ty):
                        out.add(r.get("id"))
                return
            if k in ("BinaryOperator", "CompoundAssignOperator") and x.get("opcode") in ASSIGN_OPS and kids(x):
                ks = kids(x)
                t = strip(ks[0])
                if t.get("kind") != "DeclRefExpr":
                    rec(ks[0], False)
                for c in ks[1:]:
                    rec(c, False)
                return
            reads = (k == "ImplicitCastExpr" and x.get("castKind") == "LValueToRValue")
            for c in x.get("inner", []):
                rec(c, reads or (parent_reads and k in ("ParenExpr",)))
        rec(n, False)
        return out

    def havoc(self, fr, vars_):
        for did in vars_:
            if did is None:
                continue
            fr.ver[did] = fr.ver.get(did, 0) + 1
            fr.bind.pop(did, None)

    def always_exits(self, n):
        if not isinstance(n, dict):
            return False
        k = n.get("kind")
        if k in ("ReturnStmt", "BreakStmt", "ContinueStmt", "GotoStmt", "CXXThrowExpr"):
            return True
        if k in ("ExprWithCleanups",) and kids(n):
            return self.always_exits(kids(n)[0])
        if k == "CompoundStmt":
            ks = kids(n)
            return bool(ks) and self.always_exits(ks[-1])
        if k == "IfStmt" and n.get("hasElse"):
            ks = [c for c in n.get("inner", [])]
            return self.always_exits(ks[-1]) and self.always_exits(ks[-2])
        if k == "AttributedStmt" and kids(n):
            return self.always_exits(kids(n)[-1])
        return False

    def declare(self, v, fr, pc, out):
        did = v.get("id")
        fr.names[did] = v.get("name")
        fr.ver.setdefault(did, 0)
        ty = v.get("ty", "")
        init = var_init(v)
        if init is not None:
            self.visit_expr(init, fr, pc, out)
        if did in fr.volatile:
            return
        if is_bool(ty) and "*" not in ty:
            own = babs_lit(fr.vkey(did))
            if init is not None:
                ib = self.bool_abs(init, fr)
                fr.bind[did] = ('bool', (f_and(own[0], ib[0]), f_and(own[1], ib[1])))
            else:
                fr.bind[did] = ('bool', own)
        elif enum_kind(ty) and "*" not in ty and init is not None:
            fr.bind[did] = ('enum', self.enum_abs(init, fr))
        elif init is not None and is_pure_obj(ty) and ("*" in ty or "&" in ty):
            ok = self.objkey(init, fr)
            if ok:
                fr.bind[did] = ('obj', ok)

    def assign(self, x, fr):
        """effect of an assignment expression on the tracked variable (after its operands were visited)"""
        t = strip(kids(x)[0])
        if t.get("kind") != "DeclRefExpr":
            return
        did = t.get("ref", {}).get("id")
        ty = t.get("ref", {}).get("ty", "")
        rhs = kids(x)[1] if len(kids(x)) > 1 else None
        val = None
        if x.get("opcode") == "=" and rhs is not None and did not in fr.volatile:
            if is_bool(ty) and "*" not in ty:
                val = ('bool', self.bool_abs(rhs, fr))
            elif enum_kind(ty) and "*" not in ty:
                val = ('enum', self.enum_abs(rhs, fr))
            elif is_value_type(ty) and "*" in ty:
                ok = self.objkey(rhs, fr)
                if ok:
                    val = ('obj', ok)
        self.havoc(fr, [did])
        if val is not None:
            if val[0] == 'bool':
                own = babs_lit(fr.vkey(did))
                val = ('bool', (f_and(own[0], val[1][0]), f_and(own[1], val[1][1])))
            fr.bind[did] = val

    def eval_cond(self, n, fr, pc, out):
        """evaluate a condition in evaluation order: visits calls / sites / writes AND returns (T, F) with every read taken at
        the version that is current when it is evaluated (`f(&x) && !x` reads the x written by f)"""
        if not isinstance(n, dict):
            return B_ANY
        k = n.get("kind")
        if k in ("ParenExpr", "ExprWithCleanups", "ConstantExpr") and kids(n):
            return self.eval_cond(kids(n)[0], fr, pc, out)
        if k == "ImplicitCastExpr" and n.get("castKind") in ("NoOp", "LValueToRValue") and kids(n) and is_bool(n.get("ty", "")) and \
                kids(n)[0].get("kind") != "DeclRefExpr" and kids(n)[0].get("kind") != "MemberExpr":
            return self.eval_cond(kids(n)[0], fr, pc, out)
        if k == "UnaryOperator" and n.get("opcode") == "!" and kids(n):
            return b_not(self.eval_cond(kids(n)[0], fr, pc, out))
        if k == "BinaryOperator" and n.get("opcode") in ("&&", "||"):
            a, b = kids(n)
            ab = self.eval_cond(a, fr, pc, out)
            if n["opcode"] == "&&":
                bb = self.eval_cond(b, fr, f_and(pc, pcify(ab[0])), out)
                return b_and(ab, bb)
            bb = self.eval_cond(b, fr, f_and(pc, pcify(ab[1])), out)
            return b_or(ab, bb)
        self.visit_expr(n, fr, pc, out)
        return self.bool_abs(n, fr)

    def visit_expr(self, n, fr, pc, out):
        """find calls / sites / assignments inside an expression; pc = facts valid when the expression is evaluated"""
        if not isinstance(n, dict) or pc == FF:
            return
        k = n.get("kind")
        if k == "BinaryOperator" and n.get("opcode") in ("&&", "||"):
            self.eval_cond(n, fr, pc, out)
            return
        if k == "ConditionalOperator":
            c, a, b = kids(n)
            cb = self.eval_cond(c, fr, pc, out)
            self.visit_expr(a, fr, f_and(pc, pcify(cb[0])), out)
            self.visit_expr(b, fr, f_and(pc, pcify(cb[1])), out)
            return
        if k == "LambdaExpr":
            body = None
            for c in kids(n):
                if c.get("kind") == "CompoundStmt":
                    body = c
            if body is not None:
                saved = (dict(fr.bind), fr.entry_pc, list(fr.switch_pc))
                fr.in_lambda += 1
                wpc = weaken(pc)
                fr.entry_pc = wpc
                fr.switch_pc = []
                # locals of the enclosing function keep their bindings only when they are option facts: drop all variable bindings that carry lits
                fr.bind = {d: b for d, b in fr.bind.items() if b[0] == 'obj'}
                self.havoc(fr, self.assigned_vars(body))
                self.exec_stmt(body, fr, wpc, out)      # (the end facts of a lambda body are irrelevant)
                fr.in_lambda -= 1
                self.havoc(fr, self.assigned_vars(body))
                bind_after = fr.bind
                fr.bind, fr.entry_pc, fr.switch_pc = saved
                for d in list(fr.bind):
                    if d in self.assigned_vars(body):
                        fr.bind.pop(d, None)
            return
        if k in ("BinaryOperator", "CompoundAssignOperator") and n.get("opcode") in ASSIGN_OPS:
            ks = kids(n)
            for c in ks[1:]:
                self.visit_expr(c, fr, pc, out)
            self.visit_expr(ks[0], fr, pc, out)
            self.assign(n, fr)
            return
        if k == "UnaryOperator" and n.get("opcode") in ("++", "--"):
            t = strip(kids(n)[0])
            if t.get("kind") == "DeclRefExpr":
                self.havoc(fr, [t.get("ref", {}).get("id")])
            return
        if k in ("CXXMemberCallExpr", "CallExpr"):
            self.handle_call(n, fr, pc, out)
            return
        if k in ("CXXConstructExpr", "CXXTemporaryObjectExpr") and base_type(n.get("ty", "")) == "ErrorMessage":
            self.handle_errmsg(n, fr, pc, out)
        if k in ("DeclStmt", "CompoundStmt", "IfStmt", "ForStmt", "WhileStmt", "ReturnStmt"):
            self.exec_stmt(n, fr, pc, out)      # statement expression / unexpected nesting
            return
        for c in kids(n):
            self.visit_expr(c, fr, pc, out)
        self.escapes(n, kids(n), fr)
        return

    def escapes(self, n, children, fr):
        """an lvalue use of a tracked variable that is not a plain read (bound to a reference parameter, address taken, ...):
        unknown write at this point"""
        if n.get("kind") == "ImplicitCastExpr" and n.get("castKind") == "LValueToRValue":
            return
        for c in children:
            cc = c
            while cc.get("kind") == "ParenExpr" and kids(cc):
                cc = kids(cc)[0]
            if cc.get("kind") == "DeclRefExpr":
                r = cc.get("ref", {})
                ty = r.get("ty", "")
                if r.get("kind") in ("VarDecl", "ParmVarDecl") and (is_bool(ty) or enum_kind(ty)) and "*" not in ty and \
                        not re.search(r"\bconst\b", ty):
                    self.havoc(fr, [r.get("id")])

    def ids_of(self, n, fr, depth=0):
        """possible id strings of an id expression: list of patterns, a trailing '*' = any suffix, ['*'] = unknown"""
        n = strip(n)
        k = n.get("kind")
        if depth > 12:
            return ['*']
        if k == "StringLiteral":
            v = n.get("value", "")
            return [v[1:-1] if len(v) >= 2 and v[0] == '"' else v]
        if k in ("CXXConstructExpr", "CXXFunctionalCastExpr", "CXXTemporaryObjectExpr", "CXXStaticCastExpr", "CXXMemberCallExpr") and k != "CXXMemberCallExpr":
            ks = [c for c in kids(n) if c.get("kind") != "CXXDefaultArgExpr"]
            if len(ks) == 1:
                return self.ids_of(ks[0], fr, depth + 1)
            if not ks and "string" in (n.get("ty", "")):
                return [""]
        if k == "ConditionalOperator":
            c, a, b = kids(n)
            return sorted(set(self.ids_of(a, fr, depth + 1) + self.ids_of(b, fr, depth + 1)))
        if k == "CXXOperatorCallExpr":
            ks = kids(n)
            op = strip(ks[0]).get("ref", {}).get("name") if ks else None
            if op == "operator+" and len(ks) == 3:
                la, lb = self.ids_of(ks[1], fr, depth + 1), self.ids_of(ks[2], fr, depth + 1)
                out = set()
                for x in la:
                    for y in lb:
                        out.add(x if x.endswith("*") else x + y)
                if len(out) > 24:
                    return ['*']
                return sorted(out)
        if k in ("CallExpr", "CXXMemberCallExpr"):
            ks = kids(n)
            c = strip(ks[0])
            nm = c.get("name") or c.get("ref", {}).get("name")
            if nm == "getMessageId" and len(ks) == 3:
                base = self.ids_of(ks[2], fr, depth + 1)
                if base != ['*']:
                    o = []
                    for b in base:
                        o += [b, b + "Cond", "safe" + b[:1].upper() + b[1:]]
                    return sorted(set(o))
            if nm == "c_str" and c.get("kind") == "MemberExpr" and kids(c):
                return self.ids_of(kids(c)[0], fr, depth + 1)
            if nm == "move" and len(ks) == 2:
                return self.ids_of(ks[1], fr, depth + 1)
        if k == "DeclRefExpr":
            did = n.get("ref", {}).get("id")
            v = fr.bind.get(("ids", did))
            if v:
                return list(v)
            v = fr.strvars.get(did)
            if v:
                return list(v)
        if k in ("CXXNullPtrLiteralExpr", "GNUNullExpr"):
            return []
        return ['*']

    def string_vars(self, fn):
        """id-like local string variables: patterns from the initialiser and every assigned literal; `+=` makes them prefixes"""
        decls, assigned, appended = {}, {}, set()
        fr = Frame(fn, "ids")
        fr.strvars = {}
        for x in walk(fn.body):
            k = x.get("kind")
            if k == "VarDecl" and re.search(r"\bstring\b|char \*|char\*|char\s*\[", x.get("ty", "")):
                decls[x.get("id")] = var_init(x)
            elif k == "CXXOperatorCallExpr" and len(kids(x)) == 3:
                op = strip(kids(x)[0]).get("ref", {}).get("name")
                t = strip(kids(x)[1])
                if t.get("kind") == "DeclRefExpr" and op in ("operator=", "operator+="):
                    did = t.get("ref", {}).get("id")
                    if op == "operator+=":
                        appended.add(did)
                    else:
                        assigned.setdefault(did, []).append(kids(x)[2])
            elif k == "BinaryOperator" and x.get("opcode") == "=" and len(kids(x)) == 2:
                t = strip(kids(x)[0])
                if t.get("kind") == "DeclRefExpr" and "char" in t.get("ref", {}).get("ty", ""):
                    assigned.setdefault(t.get("ref", {}).get("id"), []).append(kids(x)[1])
        out = {}
        for did, init in decls.items():
            pats = []
            srcs = ([init] if init is not None else []) + assigned.get(did, [])
            if not srcs:
                continue
            for e in srcs:
                pats += self.ids_of(e, fr)
            pats = sorted(set(pats))
            if '*' in pats or not pats:
                continue
            if did in appended:
                pats = sorted(set(p if p.endswith("*") else p + "*" for p in pats))
            out[did] = pats
            fr.strvars[did] = pats
        return out

    def emit(self, fr, n, pc, sev_leaves, cert_leaves, ids, kind, out):
        fn = fr.fn
        for ps, ls in sev_leaves:
            for pcert, lc in cert_leaves:
                f = f_and(pc, ps, pcert)
                if f == FF:
                    continue
                if lc[0] == 'c':
                    certs = [lc[1]]
                else:
                    certs = ["normal", "inconclusive"]
                for c in certs:
                    site = (fn.file, n.get("ln"), fn.short, tuple(ids), kind)
                    out.append((site, ls, c, f))

    def handle_errmsg(self, n, fr, pc, out):
        args = kids(n)
        si = next((i for i, a in enumerate(args) if enum_kind(strip(a).get("ty", "") or a.get("ty", "")) == "sev"), None)
        if si is None:
            return
        ci = next((i for i, a in enumerate(args) if enum_kind(strip(a).get("ty", "") or a.get("ty", "")) == "cert"), None)
        sev = self.enum_abs(args[si], fr)
        cert = self.enum_abs(args[ci], fr) if ci is not None else [(TT, ('c', 'normal'))]
        ids = ['*']
        # (callstack, list, severity, id, msg, cwe, certainty)  |  (callstack, file1, severity, msg, id, [cwe,] certainty)
        if si + 1 < len(args):
            first = args[1] if len(args) > 1 else {}
            if "TokenList" in (first.get("ty", "") + strip(first).get("ty", "")):
                ids = self.ids_of(args[si + 1], fr)
            elif si + 2 < len(args):
                ids = self.ids_of(args[si + 2], fr)
        self.emit(fr, n, pc, sev, cert, ids, "ErrorMessage", out)

    def handle_call(self, n, fr, pc, out):
        ck, cls, name, obj, args = self.callee_of(n, fr.fn.dump)
        # visit the object expression and the arguments first (nested calls)
        ks = kids(n)
        if ks:
            c0 = strip(ks[0])
            if c0.get("kind") == "MemberExpr":
                for c in kids(c0):
                    self.visit_expr(c, fr, pc, out)
        for a in args:
            self.visit_expr(a, fr, pc, out)
        self.escapes(n, args, fr)
        # an option test handed to a callee that is not analysed as a member of a check class: the callee's result (typically a
        # selected value) is steered by the options
        if name and name not in ("reportError", "isEnabled") and not isinstance(ck, (str, tuple)):
            for a in args:
                if not is_bool(strip(a).get("ty", "") or a.get("ty", "")):
                    continue
                direct = any(x.get("kind") == "MemberExpr" and x.get("name") == "isEnabled" and kids(x) and
                             "SimpleEnableGroup" in kids(x)[0].get("ty", "") for x in walk(a))
                sa = strip(a)
                if not direct and sa.get("kind") == "DeclRefExpr":
                    # a variable that is nothing but an option test (`const bool printWarning = ...isEnabled(Severity::warning);`)
                    t = self.bool_abs(sa, fr)[0]
                    direct = t != TT and len(t) > 0 and all(any(l[0] == 'o' for l in c) and all(l[0] == 'o' or (l[0] == 'l' and ":" + str(sa.get("ref", {}).get("name")) + "#" in l[1]) for l in c) for c in t)
                if direct:
                    self.steered.add((os.path.basename(fr.fn.file or ""), fr.fn.short, name))
        if name == "reportError" and (cls == "Check" or (cls or "").startswith("Check")):
            si = next((i for i, a in enumerate(args) if enum_kind(strip(a).get("ty", "") or a.get("ty", "")) == "sev"), None)
            if si is None:
                self.problems.append("reportError without a Severity argument at %s:%s" % (fr.fn.file, n.get("ln")))
                return
            ci = next((i for i, a in enumerate(args) if enum_kind(strip(a).get("ty", "") or a.get("ty", "")) == "cert"), None)
            sev = self.enum_abs(args[si], fr)
            if ci is None or strip(args[ci]).get("kind") == "CXXDefaultArgExpr":
                cert = [(TT, ('c', 'normal'))]
            else:
                cert = self.enum_abs(args[ci], fr)
            ids = self.ids_of(args[si + 1], fr) if si + 1 < len(args) else ['*']
            self.emit(fr, n, pc, sev, cert, ids, "reportError", out)
            return
        targets = []
        if isinstance(ck, tuple):
            targets = list(ck[1])
        elif ck:
            targets = [ck]
        for t in targets:
            if t not in self.relevant:
                continue
            callee = self.fns[t]
            if callee.name == "getErrorMessages":
                continue
            self.inline(callee, args, fr, pc, out, n)

    def inline(self, callee, args, fr, pc, out, callnode):
        binds = []
        dflt = self.defaults.get(callee.key) or []
        for i, p in enumerate(callee.params):
            a = args[i] if i < len(args) else None
            if a is not None and strip(a).get("kind") == "CXXDefaultArgExpr":
                a = None
                d = dflt[i] if i < len(dflt) else None
                if d is not None:
                    a = d
            ty = p.get("ty", "")
            if a is None:
                binds.append(None)
            elif is_bool(ty) and "*" not in ty and "&" not in ty:
                binds.append(('bool', self.bool_abs(a, fr)))
            elif enum_kind(ty) and "*" not in ty:
                binds.append(('enum', tuple(self.enum_abs(a, fr))))
            elif base_type(ty) in ("int", "unsigned int", "nonneg int", "long", "unsigned long", "long long", "unsigned", "std::size_t", "size_t") and \
                    "*" not in ty and "&" not in ty and strip(a).get("kind") == "IntegerLiteral":
                binds.append(('const', str(strip(a).get("value"))))
            elif re.search(r"\bstring\b|char \*|char\*|char \[", ty) or (re.search(r"\bchar\b", ty) and "[" in ty):
                v = self.ids_of(a, fr)
                binds.append(('ids', tuple(v)) if v and v != ['*'] else None)
            elif (is_pure_obj(ty) and "&" in ty) or ty.rstrip().endswith("*") or ty.rstrip().endswith("*const"):
                ok = self.objkey(a, fr)
                if ok is None and strip(a).get("kind") in ("CXXNullPtrLiteralExpr", "GNUNullExpr"):
                    ok = "NULL"
                binds.append(('obj', ok) if ok else None)
            else:
                binds.append(None)
        stack = fr.stack
        if callee.key == fr.fn.key and self.passthrough(callee, args, fr):
            # direct recursion that hands every tracked parameter on unchanged: the inner activation satisfies the same entry
            # facts as the current one, whose rows (weaker path facts, all environments) already cover it
            self.stats["recursion_passthrough"] = self.stats.get("recursion_passthrough", 0) + 1
            return
        if callee.key in stack:
            gk = "generic:" + callee.key
            if gk in stack:
                return
            self.stats["recursion_generic"] += 1
            res = self.analyze(callee, None, stack + (gk,))
            wpc = weaken(pc)
            for site, ls, c, f in res:
                out.append((site, ls, c, f_and(wpc, f)))
            return
        res = self.analyze(callee, tuple(binds), stack + (callee.key,))
        for site, ls, c, f in res:
            g = f_and(pc, f)
            if g != FF:
                out.append((site, ls, c, g))

    def passthrough(self, fn, args, fr):
        for i, p in enumerate(fn.params):
            ty = p.get("ty", "")
            if not tracked(ty):
                continue
            if i >= len(args):
                return False
            a = strip(args[i])
            if a.get("kind") != "DeclRefExpr" or a.get("ref", {}).get("id") != p.get("id"):
                return False
            if p.get("id") in fr.all_assigned or fr.ver.get(p.get("id"), 0) != 0:
                return False
        return True

    def analyze(self, fn, binds, stack):
        mk = (fn.key, binds, stack if any(s.startswith("generic:") for s in stack) else None)
        if binds is not None:
            try:
                hash(mk)
            except TypeError:
                mk = None
        if mk is not None and mk in self.memo:
            self.stats["memo_hits"] += 1
            return self.memo[mk]
        self.stats["inlined"] += 1
        fr = Frame(fn, "%s@%s" % (fn.short, fn.line))
        fr.stack = stack
        fr.all_assigned = self.assigned_vars(fn.body)
        fr.switch_vars = []
        if fn.key not in self._strvars:
            self._strvars[fn.key] = self.string_vars(fn)
        fr.strvars = self._strvars[fn.key]
        for i, p in enumerate(fn.params):
            did = p.get("id")
            fr.names[did] = p.get("name")
            fr.ver[did] = 0
        vol = set()
        for x in walk(fn.body):
            if x.get("kind") == "LambdaExpr":
                for c in kids(x):
                    if c.get("kind") == "CompoundStmt":
                        vol |= self.assigned_vars(c)
        fr.volatile = vol
        for i, p in enumerate(fn.params):
            did = p.get("id")
            ty = p.get("ty", "")
            b = binds[i] if binds is not None and i < len(binds) else None
            if did in vol:
                continue
            if is_bool(ty) and "*" not in ty and "&" not in ty:
                own = babs_lit(fr.vkey(did))
                if b:
                    fr.bind[did] = ('bool', (f_and(own[0], b[1][0]), f_and(own[1], b[1][1])))
                else:
                    fr.bind[did] = ('bool', own)
            elif b and b[0] == 'enum':
                fr.bind[did] = ('enum', list(b[1]))
            elif b and b[0] == 'obj':
                fr.bind[did] = b
            elif b and b[0] == 'ids':
                fr.bind[("ids", did)] = list(b[1])
            elif b and b[0] == 'const' and did not in fr.all_assigned:
                fr.bind[did] = b
        out = []
        self.exec_stmt(fn.body, fr, TT, out)
        if mk is not None:
            self.memo[mk] = out
        return out

    def exec_block_items(self, items, fr, pc, out):
        """sequential statements; returns the facts valid when control falls through the end (FF = never)"""
        cur = pc
        for s in items:
            if not isinstance(s, dict) or not s:
                continue
            k = s.get("kind")
            if k in ("CaseStmt", "DefaultStmt"):
                # reached by a jump from the switch head (or by fall-through): only the facts of the switch entry hold
                cur = fr.switch_pc[-1] if fr.switch_pc else fr.entry_pc
                self.havoc(fr, fr.switch_vars[-1] if fr.switch_vars else fr.all_assigned)
                sub = kids(s)
                if sub:
                    cur = self.exec_block_items([sub[-1]], fr, cur, out)
                continue
            if k == "LabelStmt":
                cur = fr.entry_pc
                self.havoc(fr, fr.all_assigned)
                if kids(s):
                    cur = self.exec_block_items([kids(s)[-1]], fr, cur, out)
                continue
            cur = self.exec_stmt(s, fr, cur, out)
        return cur

    def exec_if(self, s, fr, pc, out):
        """returns the facts valid after the statement = (facts at the end of then) OR (facts at the end of else)"""
        inner = list(s.get("inner", []))
        idx = 0
        if s.get("hasInit"):
            self.exec_stmt(inner[idx], fr, pc, out)
            idx += 1
        if s.get("hasVar"):
            self.exec_stmt(inner[idx], fr, pc, out)
            idx += 1
        cond = inner[idx]
        then = inner[idx + 1] if idx + 1 < len(inner) else None
        els = inner[idx + 2] if s.get("hasElse") and idx + 2 < len(inner) else None
        cb = self.eval_cond(cond, fr, pc, out)
        bind0 = dict(fr.bind)
        pt, pe = pcify(cb[0]), pcify(cb[1])
        end_t = f_and(pc, pt)
        if then is not None:
            end_t = self.exec_stmt(then, fr, end_t, out)
        bind_t = fr.bind
        fr.bind = dict(bind0)
        end_e = f_and(pc, pe)
        if els is not None:
            end_e = self.exec_stmt(els, fr, end_e, out)
        bind_e = fr.bind
        a_t = self.assigned_vars(then) if then is not None else frozenset()
        a_e = self.assigned_vars(els) if els is not None else frozenset()
        if end_t == FF and end_e != FF:
            fr.bind = bind_e
        elif end_e == FF and end_t != FF:
            fr.bind = bind_t
        else:
            # join: a variable assigned in a branch takes the value of the branch that was executed; the facts that hold at the
            # end of that branch are kept with it (`if (c) { if (!printInconclusive) continue; flag = true; }`)
            merged = dict(bind0)
            for did in (a_t | a_e):
                if did is None:
                    continue
                bt, be, b0 = bind_t.get(did), bind_e.get(did), bind0.get(did)
                kind = next((b[0] for b in (bt, be, b0) if b), None)
                fr.ver[did] = fr.ver.get(did, 0) + 1
                merged.pop(did, None)
                if did in fr.volatile:
                    continue
                if kind == 'bool':
                    vt = bt[1] if bt and bt[0] == 'bool' else B_ANY
                    ve = be[1] if be and be[0] == 'bool' else B_ANY
                    own = babs_lit(fr.vkey(did))
                    merged[did] = ('bool', (f_and(own[0], f_or(f_and(weaken_keep(end_t), vt[0]), f_and(weaken_keep(end_e), ve[0]))),
                                            f_and(own[1], f_or(f_and(weaken_keep(end_t), vt[1]), f_and(weaken_keep(end_e), ve[1])))))
                elif kind == 'enum' and bt and be and bt[0] == 'enum' and be[0] == 'enum':
                    lv = [(f_and(promote(cb[0]), weaken_keep(end_t), p), l) for p, l in bt[1]] + \
                         [(f_and(promote(cb[1]), weaken_keep(end_e), p), l) for p, l in be[1]]
                    merged[did] = ('enum', [(p, l) for p, l in lv if p != FF])
            fr.bind = merged
        return f_or(end_t, end_e)

    STMT_KINDS = ("CompoundStmt", "IfStmt", "DeclStmt", "ForStmt", "WhileStmt", "DoStmt", "CXXForRangeStmt", "SwitchStmt", "ReturnStmt",
                  "CXXTryStmt", "BreakStmt", "ContinueStmt", "NullStmt", "AttributedStmt", "GotoStmt", "CaseStmt", "DefaultStmt", "LabelStmt")

    def exec_stmt(self, s, fr, pc, out):
        """returns the facts valid when control falls through to the next statement (FF = it never does)"""
        if not isinstance(s, dict) or not s:
            return pc
        if pc == FF:
            return FF
        k = s.get("kind")
        if k == "CompoundStmt":
            return self.exec_block_items(kids(s), fr, pc, out)
        if k == "IfStmt":
            return self.exec_if(s, fr, pc, out)
        if k in ("CaseStmt", "DefaultStmt", "LabelStmt"):
            return self.exec_block_items([s], fr, pc, out)
        if k == "DeclStmt":
            for v in kids(s):
                if v.get("kind") == "VarDecl":
                    self.declare(v, fr, pc, out)
                elif v.get("kind") == "DecompositionDecl":
                    for c in kids(v):
                        self.visit_expr(c, fr, pc, out)
            return pc
        if k in ("ForStmt", "WhileStmt", "DoStmt", "CXXForRangeStmt"):
            av = self.assigned_vars(s)
            inner = list(s.get("inner", []))

            def run(c, p):
                if not isinstance(c, dict) or not c:
                    return p
                if c.get("kind") in self.STMT_KINDS:
                    return self.exec_stmt(c, fr, p, out)
                self.visit_expr(c, fr, p, out)
                return p
            body_pc = pc
            if k == "ForStmt":
                # [init, condvar, cond, inc, body]
                while len(inner) < 5:
                    inner.append({})
                run(inner[0], pc)
                self.havoc(fr, av)
                bind0 = dict(fr.bind)
                run(inner[1], pc)
                if isinstance(inner[2], dict) and inner[2]:
                    cb = self.eval_cond(inner[2], fr, pc, out)
                    body_pc = f_and(pc, pcify(cb[0]))
                run(inner[4], body_pc)
                run(inner[3], pc)
            elif k == "CXXForRangeStmt":
                for c in inner[:-1]:
                    run(c, pc)
                self.havoc(fr, av)
                bind0 = dict(fr.bind)
                run(inner[-1] if inner else {}, pc)
            elif k == "WhileStmt":
                self.havoc(fr, av)
                bind0 = dict(fr.bind)
                cs = [c for c in inner if isinstance(c, dict) and c]
                for c in cs[:-2]:
                    run(c, pc)
                if len(cs) >= 2:
                    cb = self.eval_cond(cs[-2], fr, pc, out)
                    body_pc = f_and(pc, pcify(cb[0]))
                if cs:
                    run(cs[-1], body_pc)
            else:
                self.havoc(fr, av)
                bind0 = dict(fr.bind)
                for c in inner:
                    run(c, pc)
            self.havoc(fr, av)
            fr.bind = {d: b for d, b in bind0.items() if d not in av}
            return pc
        if k == "SwitchStmt":
            av = self.assigned_vars(s)
            inner = [c for c in s.get("inner", []) if isinstance(c, dict) and c]
            for c in inner[:-1]:
                self.exec_stmt(c, fr, pc, out) if c.get("kind") == "DeclStmt" else self.visit_expr(c, fr, pc, out)
            self.havoc(fr, av)
            fr.switch_pc.append(pc)
            fr.switch_vars.append(av)
            bind0 = dict(fr.bind)
            if inner:
                body = inner[-1]
                # the body is entered by a jump to a label: statements before the first label are not executed
                self.exec_stmt(body, fr, pc, out)
            fr.switch_pc.pop()
            fr.switch_vars.pop()
            self.havoc(fr, av)
            fr.bind = {d: b for d, b in bind0.items() if d not in av}
            return pc
        if k == "CXXTryStmt":
            inner = kids(s)
            av = self.assigned_vars(s)
            bind0 = dict(fr.bind)
            if inner:
                self.exec_stmt(inner[0], fr, pc, out)
            for h in inner[1:]:
                self.havoc(fr, av)
                fr.bind = {d: b for d, b in bind0.items() if d not in av}
                for c in kids(h):
                    if c.get("kind") == "CompoundStmt":
                        self.exec_stmt(c, fr, pc, out)
            self.havoc(fr, av)
            fr.bind = {d: b for d, b in bind0.items() if d not in av}
            return pc
        if k == "ReturnStmt":
            for c in kids(s):
                self.visit_expr(c, fr, pc, out)
            return FF
        if k == "AttributedStmt":
            cur = pc
            for c in kids(s):
                if c.get("kind", "") in self.STMT_KINDS or c.get("kind", "").endswith("Expr"):
                    cur = self.exec_stmt(c, fr, cur, out)
            return cur
        if k in ("BreakStmt", "ContinueStmt", "GotoStmt"):
            return FF
        if k == "NullStmt":
            return pc
        self.visit_expr(s, fr, pc, out)
        t = s
        while t.get("kind") in ("ExprWithCleanups", "ParenExpr") and kids(t):
            t = kids(t)[0]
        if t.get("kind") == "CXXThrowExpr":
            return FF
        return pc

    # ---- driver ------------------------------------------------------------------------------------------------------
    def run(self):
        self.prepass()
        ext = self.textual_external_callers()
        self.external = ext
        roots = []
        for k in sorted(self.relevant):
            f = self.fns[k]
            if f.name == "getErrorMessages":
                continue
            allc = [c for c in self.calls_to.get(k, ()) if c != k]
            callers = [c for c in allc if self.fns[c].name != "getErrorMessages"]
            why = None
            if not allc:
                why = "no analysed caller"
            elif k in ext:
                why = "textual occurrence not explained by an analysed call: " + ", ".join(ext[k][:3])
            elif k in self.addr_taken:
                why = "address taken"
            if why:
                roots.append((k, why))
        self.roots = roots
        rows = {}
        for k, why in roots:
            f = self.fns[k]
            f_all = []
            for x in walk(f.body):
                pass
            res = self.analyze(f, None, (k,))
            for site, ls, c, fm in res:
                key = (site, ls, c)
                rows[key] = f_or(rows.get(key, FF), fm)
        self.rows = rows
        return rows

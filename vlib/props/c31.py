"""C31 — file selection and path matching follow the documented rules.

Obligations
  theorems      Cppcheck.PathCanon.* / Cppcheck.PathMatch.* / Cppcheck.FileLister.*  (Props/C31.lean)
  T  exts       the extension sets of lib/path.cpp (cpp_src_exts, c_src_exts, header_exts), extracted from the
                source on every run, equal the tables of the Lean model (exhaustive)
  C  pathiter   real PathMatch::PathIterator(a,b,syntax).read()        == model Iter.read
  C  simplify   real Path::simplifyPath                                 == model simplifyPath
  C  pathmatch  real PathMatch::match (static, all Syntax/Filemode; object with a pattern list) == model pathMatch
  C  pathutil   real isRelativePattern / Path::isAbsolute / join / getRelativePath == model
  C  accept     real Path::acceptFile / identify / getFilenameExtension == model
  C  lister     real FileLister::recursiveAddFiles on real temporary directory trees == model addFiles
  C  cli-args   real CmdLineParser::parseFromArgs (mIgnoredPaths, mPathNames, Result) == model parseIgnoreArgs
  C  cli-e2e    built cppcheck binary, `cppcheck -i <u>… <targets>` inside real trees with the same name on several levels:
                `Checking <file> ...` lines == model (normalisation + lister + simplifyPath)
P_impl (evaluated on the implementation, the model only classifies):
  pathmatch     real match(pattern, path, base, mode, syntax) == documented rules (executable spec `pathMatchSpecB`)
  pathiter      real read() == documented canonical form `canon`
  simplify      real simplifyPath is idempotent and equals the canonical form up to its conventions
  lister        real listing == sorted, duplicate-free, exactly { f | accept(f) and not ignoredAlong(real match, f) }
  cli-args      every -i value reaches the matcher with only quotation marks / native separators normalised
  cli-e2e       Checking lines == documented rule applied to the patterns AS THE USER WROTE THEM (userIgnoreSpecB)
Known deviation classes (each has a Lean counterexample theorem and a corpus witness, see docs/C31.md) are keyed;
anything else is a VIOLATION.
"""
import json, os, re, itertools
from .. import core, build_repo

ID = "C31"
LEVEL = "proof"
RULE = ("cases = (pattern, path, base path, file mode, syntax) tuples: paths from a component grammar over a tiny name alphabet "
        "with '.', '..', '//', trailing '/', relative/absolute; patterns derived from the path (component suffixes, './'- and "
        "base-relative, absolute, globs '*' '?' '**' substituted for characters/components, trailing '/') plus one-character "
        "edits of pattern and path (near misses); iterator/simplifyPath inputs from the same grammar (windows roots included); "
        "directory trees (depth <= 3, names with dots, spaces, non-ASCII bytes, glob characters) with ignore patterns derived "
        "from their own names; non-trivial = pattern has a wildcard or a separator and the decision is not the same for the "
        "whole edit group, path has a special component, tree has a nested ignore or an unaccepted file")
EXPLANATION = ("Lean theorems (all lengths, both syntaxes, about the repaired code 4dc0347): the backtracking loop of PathMatch::match "
               "terminates within matchFuel iterations and decides exactly the declarative rule SpecMatch (glob of the canonical pattern "
               "against a part of the canonical path that starts at the start / behind a separator and ends at a separator / the end) "
               "for every pattern; PathMatch::match as a whole (fast paths, real/relative patterns, directory patterns, both iterators) "
               "= PathMatchSpec inside the documented domain - the rule does not mention the code's `pattern == path` shortcut, which is "
               "proved covered by the rule (fast_path_spec) unless the base path is relative and non-empty (finding C31-6, API level only); "
               "PathIterator reads the documented canonical form for every root that ends with a separator and, without a root, no '..' "
               "above the start; lister output = sorted, duplicate-free, exactly accepted and not ignored on the way down for every tree, "
               "matcher and acceptance test; the command line: argument loop for -i / --file-filter / path names, normalisation of the "
               "-i values, per-path-name listing, file filter, de-duplication across path names = the documented rules applied to the "
               "values as the user wrote them (cli_select_exact: the function the driver executes, op clisel); suppression file patterns: "
               "the same theorem at empty base path (suppression_file_pattern_rule; the call site in suppressions.cpp belongs to C23). "
               "NOT proved, tie only (this clause of the statement is at level 'other'): 'reports them under canonical paths' - spath() = "
               "simplecpp::simplifyPath, modelled line by line incl. the size_t wrap-around, idempotence and canonical form are REFUTED in "
               "general by counterexample theorems (known finding C31-5) and no positive theorem is proved; the Checking lines of the "
               "end-to-end tie are compared with the model's simplifyPathO on every run. Outside the model: windows build branches "
               "(#ifdef _WIN32), symlinks, stat/opendir failures, DT_UNKNOWN, Emacs marker probing, --file-filter=- / =+, project "
               "imports (importproject.cpp ignorePaths), every other option of parseFromArgs.")
THEOREMS = [
    "Cppcheck.PathMatch.match_terminates",
    "Cppcheck.PathMatch.pathmatch_eq_spec",
    "Cppcheck.PathMatch.pathmatch_eq_spec_before_repair",
    "Cppcheck.PathMatch.pathmatch_sound",
    "Cppcheck.PathMatch.pathMatch_eq_spec",
    "Cppcheck.PathMatch.pathMatchSpecB_iff",
    "Cppcheck.PathMatch.pathmatch_star_counterexample_before_repair",
    "Cppcheck.PathMatch.pathmatch_dirpattern_counterexample_before_repair",
    "Cppcheck.PathCanon.pathiter_eq_canon",
    "Cppcheck.PathCanon.pathiter_eq_canon_counterexample_dsep",
    "Cppcheck.PathCanon.pathiter_eq_canon_counterexample_rootdd",
    "Cppcheck.PathCanon.pathiter_eq_canon_counterexample_relative_escape",
    "Cppcheck.PathCanon.simplifyPath_idempotent_counterexample",
    "Cppcheck.PathCanon.simplifyPath_eq_canon_counterexample",
    "Cppcheck.FileLister.lister_exact",
    "Cppcheck.FileLister.lister_perm",
    "Cppcheck.FileLister.lister_nodup",
    "Cppcheck.FileLister.lister_sorted",
    "Cppcheck.FileLister.lister_no_path",
    "Cppcheck.FileLister.lister_missing",
    "Cppcheck.FileLister.cli_ignore_eq_rule",
    "Cppcheck.FileLister.cli_selection_exact",
    "Cppcheck.FileLister.cli_simplifyPath_normalisation_counterexample",
    "Cppcheck.PathMatch.fast_path_spec",
    "Cppcheck.PathMatch.pathMatch_shortcut_counterexample_relative_base",
    "Cppcheck.PathMatch.pathMatch_shortcut_counterexample_windows_root",
    "Cppcheck.PathMatch.suppression_file_pattern_rule",
    "Cppcheck.FileLister.file_filter_eq_rule",
    "Cppcheck.FileLister.cli_dedup_spec",
    "Cppcheck.FileLister.splitArgs_path",
    "Cppcheck.FileLister.splitArgs_i_separate",
    "Cppcheck.FileLister.splitArgs_i_joined",
    "Cppcheck.FileLister.splitArgs_filter",
    "Cppcheck.FileLister.parseIgnoreArgs_values",
    "Cppcheck.FileLister.cli_select_exact",
]
MODULES = ["Cppcheck.Props.C31"]

KEY_SPWRAP = "simplifypath-wrap-above-root"
KEY_SHORTCUT = "pathmatch-shortcut-outside-rule"


def hx(b):
    return core.hx(b)


MAX_UNCLASSIFIED = 8


def deviation(res, what, replay, key):
    """register a deviation of the IMPLEMENTATION from the documented rules: one representative per known class
    (the first one seen = the corpus witness), every unclassified one up to a cap; all of them are counted"""
    res.count("deviation:" + (key or "UNCLASSIFIED"))
    if key is not None:
        if any(v.get("key") == key for v in res.violations):
            return
    elif sum(1 for v in res.violations if v.get("key") is None) >= MAX_UNCLASSIFIED:
        return
    res.violation(what, replay, concrete=True, key=key)


def L(b):
    """bytes -> printable latin-1 text for reports"""
    return b.decode("latin-1")


# ---- generators ----------------------------------------------------------------------------------
NAMES = [b"a", b"b", b"src", b"lib", b"foo.cpp", b"x.c", b"m.h", b".hid", b"a b", b"caf\xe9", b"...", b"..a", b"a.", b"A",
         b"Foo.CPP", b"t*", b"q?", b"test1.cpp", b"ab", b"ba"]
BASES = [b"", b"/", b"/base", b"/base/", b"/b a/c", b"rel", b"..", b"/base/./x/.."]


def gen_comps(rng, n=None, special=0.3):
    n = rng.choice([0, 1, 1, 2, 2, 3, 3, 4, 5]) if n is None else n
    out = []
    for _ in range(n):
        r = rng.random()
        if r < special * 0.4:
            out.append(b".")
        elif r < special * 0.8:
            out.append(b"..")
        elif r < special:
            out.append(b"")
        else:
            out.append(rng.choice(NAMES))
    return out


def gen_path(rng, absolute=None, special=0.3):
    comps = gen_comps(rng, special=special)
    p = b"/".join(comps)
    if absolute is None:
        absolute = rng.random() < 0.5
    if absolute:
        p = b"/" + p
    if rng.random() < 0.15:
        p += b"/"
    return p


def edit1(rng, s, alpha=b"a/.*?b"):
    """one-character edit"""
    k = rng.randrange(3)
    if not s:
        return bytes([rng.choice(alpha)])
    i = rng.randrange(len(s))
    if k == 0:
        return s[:i] + s[i + 1:]
    if k == 1:
        return s[:i] + bytes([rng.choice(alpha)]) + s[i + 1:]
    return s[:i] + bytes([rng.choice(alpha)]) + s[i:]


def globify(rng, name):
    if not name or name in (b".", b".."):
        return name
    r = rng.random()
    if r < 0.25:
        return b"*"
    if r < 0.5:
        i = rng.randrange(len(name))
        return name[:i] + b"?" + name[i + 1:]
    if r < 0.8:
        i = rng.randrange(len(name) + 1)
        j = rng.randrange(i, len(name) + 1)
        return name[:i] + b"*" + name[j:]
    if r < 0.9:
        i = rng.randrange(len(name) + 1)
        return name[:i] + rng.choice([b"**", b"?*", b"*?", b"***"]) + name[i:]
    return name


def gen_pattern(rng, path, base):
    """pattern derived from the path so that it matches or nearly matches"""
    comps = [c for c in path.split(b"/") if c not in (b"", b".")]
    real_comps = [c for c in comps if c != b".."]
    r = rng.random()
    if not real_comps or r < 0.08:
        pat = gen_path(rng, special=0.15)
        return pat if pat else b"a"
    k = rng.randrange(1, min(3, len(real_comps)) + 1)
    cut = rng.randrange(0, len(real_comps) - k + 1) if rng.random() < 0.3 else len(real_comps) - k
    sel = list(real_comps[cut:cut + k])
    for i in range(len(sel)):
        if rng.random() < 0.35:
            sel[i] = globify(rng, sel[i])
    if len(sel) >= 2 and rng.random() < 0.2:
        i = rng.randrange(len(sel))
        sel[i:i + 1] = [b"**"]
    if rng.random() < 0.1:
        sel.insert(rng.randrange(len(sel) + 1), rng.choice([b".", b"..", b"", b"zz/.."]))
    pat = b"/".join(sel)
    r = rng.random()
    if r < 0.2:
        pat = b"./" + b"/".join(real_comps[:cut] + sel) if rng.random() < 0.6 else b"./" + pat
    elif r < 0.3 and path.startswith(b"/"):
        pat = b"/" + b"/".join(real_comps[:cut] + sel)
    elif r < 0.4 and base.startswith(b"/") and not path.startswith(b"/"):
        pat = base.rstrip(b"/") + b"/" + b"/".join(real_comps[:cut] + sel)
    elif r < 0.45:
        pat = b"../" + pat
    if rng.random() < 0.2:
        pat += b"/"
    return pat or b"*"


def gen_pm_cases(rng, n):
    """groups of (syn, mode, pattern, path, base); a group = one seed case + its one-character edits"""
    groups = []
    for _ in range(n):
        base = rng.choice(BASES) if rng.random() < 0.6 else b"/base"
        path = gen_path(rng, special=0.2)
        pat = gen_pattern(rng, path, base)
        syn = "w" if rng.random() < 0.12 else "u"
        if syn == "w" and rng.random() < 0.5:
            pat = pat.replace(b"/", b"\\") if rng.random() < 0.5 else pat.swapcase()
        if rng.random() < 0.1:
            # the `pattern == path` shortcut (and its one-character neighbours below)
            path = pat
        g = []
        for mode in ("r", "d"):
            g.append((syn, mode, pat, path, base))
        for _ in range(2):
            g.append((syn, rng.choice("rd"), edit1(rng, pat), path, base))
            g.append((syn, rng.choice("rd"), pat, edit1(rng, path, b"a/.b"), base))
        groups.append(g)
    return groups


def small_strings(alpha, n, lo=0):
    for k in range(lo, n + 1):
        for t in itertools.product(alpha, repeat=k):
            yield bytes(t)


WROOTS = [b"C:", b"C:\\", b"c:/", b"\\\\", b"//./", b"\\\\?\\", b"//.", b"\\\\Server\\Share", b"/", b"\\"]


def gen_pi_cases(rng, n):
    out = []
    for _ in range(n):
        syn = "w" if rng.random() < 0.25 else "u"
        a = gen_path(rng, special=0.45)
        b = gen_path(rng, absolute=rng.random() < 0.1, special=0.45) if rng.random() < 0.6 else None
        if syn == "w":
            if rng.random() < 0.6:
                a = rng.choice(WROOTS) + a.lstrip(b"/")
            if rng.random() < 0.5:
                a = a.replace(b"/", b"\\")
            if b is not None and rng.random() < 0.3:
                b = b.replace(b"/", b"\\")
        if rng.random() < 0.05:
            a, b = None, a
        out.append((syn, a, b))
    return out


def gen_sp_cases(rng, n):
    out = []
    for _ in range(n):
        p = gen_path(rng, special=0.5)
        r = rng.random()
        if r < 0.1:
            p = b"/" + p
        elif r < 0.2:
            p = p.replace(b"/", b"\\")
        elif r < 0.25:
            p = edit1(rng, p, b"/.\\a")
        out.append(p)
    return out


EXTS = [b".cpp", b".cxx", b".cc", b".c++", b".tpp", b".txx", b".ipp", b".ixx", b".c", b".cl", b".h", b".hpp", b".h++", b".hxx", b".hh",
        b".C", b".CPP", b".Cc", b".H", b".Hpp", b".CL", b".txt", b".cp", b".cppx", b"", b".", b".c.", b".java", b".inl", b".cu"]


def gen_af_cases(rng, n):
    out = []
    for _ in range(n):
        stem = rng.choice([b"a", b"dir.d/a", b"x.y", b"", b"a b", b"/abs/p", b"dir.cpp/noext", b"q\xff"])
        p = stem + rng.choice(EXTS)
        extra = rng.sample([b".txt", b".inl", b".cu", b".CPP", b".h", b"", b"."], rng.choice([0, 0, 1, 2]))
        out.append((p, extra))
    return out


FILE_NAMES = [b"foo.cpp", b"x.c", b"d.c", b"e.cpp", b"test1.cpp", b"caf\xe9.cpp", b"A.C", b"Foo.CPP", b"t*.cpp", b"q?.c", b"\x01\x7f.cc", b"y.cl",
              b"z.ixx", b"a b.cxx", b"..a.c", b"a..c", b"...cpp", b"m.h", b"n.txt", b"README", b"a.", b".hid", b"lib.c++", b"u.tpp", b"w.hpp"]
DIR_NAMES = [b"a", b"b", b"src", b"lib", b"sub", b"gen", b"a b", b".hid", b"...", b"..a", b"v1.2", b"x.cpp", b"caf\xe9", b"t*", b"build", b"\x02d"]


def gen_tree(rng, depth, maxch=5):
    """list of nodes: ('f', name) | ('d', name, children); sibling names are distinct"""
    out, used = [], set()
    for _ in range(rng.randrange(2 if depth >= 2 else 0, maxch + 2)):
        isdir = depth > 0 and rng.random() < 0.4
        nm = rng.choice(DIR_NAMES if isdir else FILE_NAMES)
        if nm in used:
            continue
        used.add(nm)
        if isdir:
            out.append(("d", nm, gen_tree(rng, depth - 1, maxch)))
        else:
            out.append(("f", nm))
    return out


def tree_tokens(nodes):
    t = []
    for nd in nodes:
        if nd[0] == "f":
            t += ["f", hx(nd[1])]
        else:
            t += ["d", hx(nd[1]), str(len(nd[2]))] + tree_tokens(nd[2])
    return t


def tree_paths(nodes, prefix=b""):
    """[(relative path, kind)]"""
    out = []
    for nd in nodes:
        p = prefix + nd[1]
        out.append((p, nd[0]))
        if nd[0] == "d":
            out += tree_paths(nd[2], p + b"/")
    return out


def find_node(nodes, names):
    cur = ("d", b"", nodes)
    for nm in names:
        if cur[0] != "d":
            return None
        nxt = [c for c in cur[2] if c[1] == nm]
        if not nxt:
            return None
        cur = nxt[0]
    return cur


def gen_ls_case(rng, casedir):
    top = gen_tree(rng, 3)
    allp = tree_paths(top)
    dirs = [p for p, k in allp if k == "d"]
    files = [p for p, k in allp if k == "f"]
    # start path
    r = rng.random()
    if r < 0.45 and dirs:
        node = rng.choice([d for d in dirs if b"/" not in d] or dirs) if rng.random() < 0.6 else rng.choice(dirs)
    elif r < 0.55 and files:
        node = rng.choice(files)
    elif r < 0.93:
        node = b""
    else:
        node = None
    if node is None:
        patharg, nodepath = rng.choice([b"nonexistent", b"", b"no/such"]), "!"
    else:
        rel = node if node else b"."
        v = rng.random()
        if v < 0.4:
            patharg = rel
        elif v < 0.55:
            patharg = b"./" + rel
        elif v < 0.7:
            patharg = rel + b"/"
        elif v < 0.8:
            patharg = casedir + b"/" + node if node else casedir
        elif v < 0.88:
            patharg = rel + b"//"
        else:
            patharg = rel.replace(b"/", b"/./", 1)
        nodepath = hx(node)
        n = find_node(top, [c for c in node.split(b"/") if c])
        if n is not None and n[0] == "f" and patharg.endswith(b"/"):
            # stat("file/") fails with ENOTDIR
            nodepath = "!" if patharg.endswith(b"//") else nodepath
    base = casedir if rng.random() < 0.8 else rng.choice([b"", b"/elsewhere", casedir + b"/"])
    ign = []
    for _ in range(rng.choice([0, 1, 1, 2, 3])):
        if not allp:
            ign.append(rng.choice([b"src/", b"*.c"]))
            continue
        nested = [x for x in allp if b"/" in x[0]]
        p, k = rng.choice(nested) if nested and rng.random() < 0.6 else rng.choice(allp)
        comps = p.split(b"/")
        v = rng.random()
        if v < 0.3:
            pat = comps[-1] + (b"/" if k == "d" or rng.random() < 0.15 else b"")
        elif v < 0.45:
            pat = b"/".join(comps[-2:]) + (b"/" if k == "d" else b"")
        elif v < 0.55:
            pat = b"./" + p
        elif v < 0.65:
            pat = casedir + b"/" + p + (b"/" if k == "d" and rng.random() < 0.5 else b"")
        elif v < 0.85:
            pat = b"/".join(comps[:-1] + [globify(rng, comps[-1])]) if rng.random() < 0.5 else globify(rng, comps[-1])
            if k == "d" and rng.random() < 0.5:
                pat += b"/"
        elif v < 0.93:
            pat = comps[0] + b"/**/" + comps[-1] if len(comps) > 1 else b"**/" + comps[0]
        else:
            pat = edit1(rng, p)
        ign.append(pat or b"*")
    extra = rng.sample([b".txt", b".h", b""], rng.choice([0, 0, 0, 1]))
    return dict(casedir=casedir, patharg=patharg, nodepath=nodepath, base=base, ign=ign, extra=extra, top=top)


def ls_line(c):
    return " ".join(["ls", hx(c["casedir"]), hx(c["patharg"]), c["nodepath"], hx(c["base"]), str(len(c["ign"]))] + [hx(i) for i in c["ign"]] +
                    [str(len(c["extra"]))] + [hx(e) for e in c["extra"]] + [str(len(c["top"]))] + tree_tokens(c["top"]))


# ---- reference for P_impl on the lister (python, uses the REAL matcher's answers) -------------------
def corrected_path(p):
    return p[:-1] if p.endswith(b"/") else p


def listing_queries(c):
    """all (path, mode) questions the specification of the selection asks the matcher, and all files with chains"""
    if c["nodepath"] == "!" or not c["patharg"]:
        return [], None
    node_rel = core.unhx(c["nodepath"])
    node = find_node(c["top"], [x for x in node_rel.split(b"/") if x])
    if node is None:
        return [], None
    root = corrected_path(c["patharg"])
    files = []

    def walk(nd, path, chain):
        if nd[0] == "f":
            files.append((path, chain))
        else:
            for ch in nd[2]:
                walk(ch, path + b"/" + ch[1], chain + [path])
    walk(node, root, [])
    q = set()
    q.add((root, "r"))
    for f, chain in files:
        q.add((f, "r"))
        for d in chain:
            q.add((d, "d"))
            q.add((d, "r"))
    return sorted(q), (root, files)


def expected_listing(root, files, match, accept):
    out = []
    for f, chain in files:
        ignored = match[(root, "r")] or any(d != root and (match[(d, "d")] or match[(d, "r")]) for d in chain) or (f != root and match[(f, "r")])
        acc = f == root or accept[f][0]
        if acc and not ignored:
            out.append((f, 0 if f == root else accept[f][1]))
    out.sort(key=lambda x: x[0])
    return out


# ---- translator: extension tables ----------------------------------------------------------------
def extract_exts(res):
    src = open(os.path.join(core.REPO, "lib", "path.cpp"), encoding="utf-8", errors="replace").read()
    got = {}
    for name in ("cpp_src_exts", "c_src_exts", "header_exts"):
        m = re.search(r"static const std::unordered_set<std::string> %s = \{([^}]*)\};" % name, src)
        if not m:
            return None, "extension set %s not found in lib/path.cpp" % name
        body = m.group(1)
        items = re.findall(r'"([^"\\]*)"', body)
        rest = re.sub(r'"[^"\\]*"', "", body)
        if rest.replace(",", "").strip():
            return None, "unrecognised shape in %s: %r" % (name, rest.strip()[:60])
        got[name] = items
    # the uses of the tables inside identify / acceptFile (fail closed on a changed shape)
    m = re.search(r"Standards::Language Path::identify\(.*?\n\}\n", src, re.S)
    if not m:
        return None, "Path::identify not found"
    body = m.group(0)
    want = ['if (ext == ".C")', "c_src_exts.find(ext) != c_src_exts.end()", "if (!caseInsensitiveFilesystem())", "strTolower(ext);", 'if (ext == ".h") {',
            "cpp_src_exts.find(ext) != cpp_src_exts.end()", "header_exts.find(ext) != header_exts.end()"]
    pos = 0
    for w in want:
        k = body.find(w, pos)
        if k < 0:
            return None, "Path::identify changed shape: %r not found in order" % w
        pos = k
    return got, ""


# ---- running -----------------------------------------------------------------------------------
# the model the correspondence runs against is the repaired code (commit 4dc0347 = proposed/C31-pathmatch.diff);
# the behaviour before the repair exists in the Lean model only as `Variant.old` for the counterexample theorems.
VARIANT = ["1111"]


def run_drv(drv, lines, timeout=900):
    return core.run_lines(drv, [VARIANT[0]], lines, timeout=timeout)


def run_both(ctx, exe, drv, lines, timeout=900):
    rc, a, ea = core.run_lines(exe, [], lines, timeout=timeout)
    rc2, b, eb = run_drv(drv, lines, timeout=timeout)
    if len(a) != len(lines):
        raise core.CheckBroken("C31 harness produced %d lines for %d ops (rc=%s): %s" % (len(a), len(lines), rc, ea[-500:]))
    if len(b) != len(lines):
        raise core.CheckBroken("C31 driver produced %d lines for %d ops (rc=%s): %s" % (len(b), len(lines), rc2, eb[-500:]))
    return a, b


def pm_line(c):
    return "pm %s %s %s %s %s" % (c[0], c[1], hx(c[2]), hx(c[3]), hx(c[4]))


def pm_desc(c):
    return "match(pattern=%r, path=%r, base=%r, mode=%s, syntax=%s)" % (L(c[2]), L(c[3]), L(c[4]), {"r": "regular", "d": "directory"}[c[1]], {"u": "unix", "w": "windows"}[c[0]])


def parse_spec(line):
    f = line.split(" ")
    d = dict(x.split("=", 1) for x in f[1:])
    d["spec"] = f[0]
    return d


def classify_pm(d, impl, model):
    """'premise:…' if the case lies outside the documented domain, None otherwise (= a violation)"""
    if impl != model:
        return None
    ks = d["pk"] + d["xk"]
    if "o" in ks or "l" in ks:
        return "premise:windows-open-root"
    if "e" in ks:
        return "premise:relative-escape"
    # the `pattern == path` shortcut of the code answers true where the rule says false: only for a pattern spelled exactly
    # like the path that is neither absolute nor base-relative, with a non-empty relative base path or (windows syntax) a
    # root of its own (FastPathOk false) - proved: pathMatch_shortcut_counterexample_*
    if d.get("fp") == "0" and impl == "1" and d["spec"] == "0":
        return KEY_SHORTCUT
    return None


def check_pm(ctx, res, exe, drv, groups, name):
    """correspondence + P_impl on groups of pm cases; returns number of unclassified violations"""
    flat = [c for g in groups for c in g]
    lines = [pm_line(c) for c in flat]
    impl, model = run_both(ctx, exe, drv, lines)
    rc, spec, err = run_drv(drv, ["spec" + l[2:] for l in lines])
    if len(spec) != len(lines):
        raise core.CheckBroken("C31 driver spec stream: %d lines for %d ops: %s" % (len(spec), len(lines), err[-300:]))
    # non-triviality: decided per edit group
    nt = []
    i = 0
    for g in groups:
        outs = set(impl[i:i + len(g)])
        for c in g:
            nt.append(len(outs) > 1 and (any(ch in c[2] for ch in b"*?/")))
        i += len(g)
    ntmap = dict(zip(lines, nt))
    core.correspond(ctx, res, name, lines, impl, model, nontrivial=lambda op, out: ntmap.get(op, False))
    bad = 0
    for c, i_, m_, s_ in zip(flat, impl, model, spec):
        d = parse_spec(s_)
        res.count("pm:syntax=" + c[0]); res.count("pm:mode=" + c[1]); res.count("pm:impl=" + i_)
        res.count("pm:glob" if any(ch in c[2] for ch in b"*?") else "pm:literal")
        if d["ok"] == "1":
            res.count("pm:inside-theorem-hypotheses")
        if c[2] == c[3]:
            res.count("pm:pattern-equals-path")
        if i_ == d["spec"]:
            continue
        key = classify_pm(d, i_, m_)
        if key and key.startswith("premise:"):
            res.count("outside-" + key)
            continue
        if key is None:
            bad += 1
        deviation(res, "PathMatch::%s = %s on the real code, documented rules give %s (canonical pattern %r, canonical path %r)" %
                  (pm_desc(c), i_, d["spec"], L(core.unhx(d["P"])), L(core.unhx(d["X"]))),
                  dict(op="pm", syntax=c[0], mode=c[1], pattern=L(c[2]), path=L(c[3]), base=L(c[4]), impl=i_, model=m_, documented=d["spec"],
                       classes=dict(pattern=d["pk"], path=d["xk"], starOk=d["so"], dirSepOk=d["ds"])), key)
    return bad


def check_pi(ctx, res, exe, drv, cases, name):
    lines = ["pi %s %s %s" % (s, "N" if a is None else hx(a), "N" if b is None else hx(b)) for s, a, b in cases]
    impl, model = run_both(ctx, exe, drv, lines)
    rc, can, err = run_drv(drv, ["canon" + l[2:] for l in lines])
    if len(can) != len(lines):
        raise core.CheckBroken("C31 driver canon stream: %s" % err[-300:])

    def nt(op, out):
        f = op.split(" ")
        raw = (b"" if f[2] == "N" else core.unhx(f[2])) + b"/" + (b"" if f[3] == "N" else core.unhx(f[3]))
        return b"." in raw or b"//" in raw or raw.endswith(b"/")
    core.correspond(ctx, res, name, lines, impl, model, nontrivial=nt)
    bad = 0
    for c, i_, m_, s_ in zip(cases, impl, model, can):
        f = s_.split(" ")
        d = dict(x.split("=", 1) for x in f[1:])
        res.count("pi:syntax=" + c[0])
        if d["ok"] == "1":
            res.count("pi:inside-theorem-hypotheses")
        if i_ == f[0]:
            continue
        k = d["k"]
        if i_ != m_:
            key = None
        elif "o" in k or "l" in k:
            key = "premise:windows-open-root"
        elif "e" in k:
            key = "premise:relative-escape"
        else:
            key = None
        if key and key.startswith("premise:"):
            res.count("outside-" + key)
            continue
        if key is None:
            bad += 1
        deviation(res, "PathIterator(%r, %r, %s).read() = %r on the real code, documented canonical form is %r" %
                  (None if c[1] is None else L(c[1]), None if c[2] is None else L(c[2]), c[0], L(core.unhx(i_)), L(core.unhx(f[0]))),
                  dict(op="pi", syntax=c[0], a=None if c[1] is None else L(c[1]), b=None if c[2] is None else L(c[2]), impl=L(core.unhx(i_)),
                       documented=L(core.unhx(f[0])), classes=k), key)
    return bad


# python reference of the canonical form (forward, component stack) used only to state P_impl for simplifyPath
def canon_ref(p):
    rooted = p.startswith(b"/")
    st = []
    for c in p.split(b"/"):
        if c in (b"", b"."):
            continue
        if c == b"..":
            if st and st[-1] != b"..":
                st.pop()
            elif not rooted:
                st.append(c)
        else:
            st.append(c)
    return (b"/" if rooted else b"") + b"/".join(st)


def escapes_root(p):
    d = 0
    for c in p.split(b"/"):
        if c in (b"", b"."):
            continue
        if c == b"..":
            d -= 1
            if d < 0:
                return True
        else:
            d += 1
    return False


def sp_norm(s):
    if s == b".":
        return b""
    if len(s) > 1 and s.endswith(b"/"):
        return s[:-1]
    return s


def check_sp(ctx, res, exe, drv, paths, name):
    lines = ["sp " + hx(p) for p in paths]
    impl, model = run_both(ctx, exe, drv, lines)
    core.correspond(ctx, res, name, lines, impl, model, nontrivial=lambda op, out: any(x in core.unhx(op.split(" ")[1]) for x in (b"..", b"./", b"//", b"\\")))
    rc, again, err = core.run_lines(exe, [], ["sp " + o for o in impl], timeout=900)
    rc, wr, err = run_drv(drv, ["spx " + hx(p) for p in paths])
    bad = 0
    for p, i_, a_, w_, m_ in zip(paths, impl, again, wr, model):
        out = core.unhx(i_)
        q = p.replace(b"\\", b"/")
        unc = q.startswith(b"//")
        q1 = (b"/" + q.lstrip(b"/")) if unc else q
        problems = []
        if a_ != i_:
            problems.append("not idempotent: simplifyPath(%r) = %r, simplifyPath of that = %r" % (L(p), L(out), L(core.unhx(a_))))
        premise = q1.startswith(b"/") and escapes_root(q1)
        if p and not premise:
            want = canon_ref(q1)
            got = sp_norm(out[1:] if unc and out.startswith(b"//") else out)
            if got != want or (unc and not out.startswith(b"//")):
                problems.append("simplifyPath(%r) = %r, canonical form is %r" % (L(p), L(out), L(want)))
        if premise:
            res.count("sp:leading-dotdot-above-root")
        for pr in problems:
            key = KEY_SPWRAP if (w_ == "wraps=1" and i_ == m_) else None
            if key is None:
                bad += 1
            deviation(res, pr, dict(op="sp", path=L(p), impl=L(out), second=L(core.unhx(a_)), wraps=w_), key)
    return bad


def check_ls(ctx, res, exe, drv, cases, name):
    lines = [ls_line(c) for c in cases]
    impl, model = run_both(ctx, exe, drv, lines)

    def nt(op, out):
        return out.split(" ")[1] not in ("0",) if out.startswith("E") else False
    core.correspond(ctx, res, name, lines, impl, model, nontrivial=nt)
    # P_impl: exactness with respect to the real matcher / acceptFile
    qlines, alines, plan = [], [], []
    for c in cases:
        qs, info = listing_queries(c)
        plan.append((qs, info))
        for (p, m) in qs:
            qlines.append("pml u %s %s %s %d %s" % (m, hx(p), hx(c["base"]), len(c["ign"]), " ".join(hx(i) for i in c["ign"])))
        if info:
            for f, chain in info[1]:
                alines.append("af %s %d %s" % (hx(f), len(c["extra"]), " ".join(hx(e) for e in c["extra"])))
    rc, qa, err = core.run_lines(exe, [], qlines, timeout=900) if qlines else (0, [], "")
    rc, aa, err = core.run_lines(exe, [], alines, timeout=900) if alines else (0, [], "")
    qi = ai = 0
    bad = 0
    for c, (qs, info), out in zip(cases, plan, impl):
        m = {}
        for q in qs:
            m[q] = qa[qi] == "1"; qi += 1
        acc = {}
        if info:
            for f, chain in info[1]:
                x = aa[ai].split(" "); ai += 1
                acc[f] = (x[0] == "1", int(x[1]))
        f = out.split(" ")
        if not out.startswith("E"):
            bad += 1
            deviation(res, "recursiveAddFiles harness answer %r" % out, dict(op="ls", case=ls_case_json(c)), None)
            continue
        got = [(core.unhx(x.rsplit(":", 1)[0]), int(x.rsplit(":", 1)[1])) for x in f[2:]]
        err_txt = core.unhx(f[0][1:])
        res.count("ls:files=%d" % min(len(got), 6))
        res.count("ls:ignore-patterns=%d" % len(c["ign"]))
        if not c["patharg"]:
            want, want_err = [], b"no path specified"
        elif info is None:
            want, want_err = [], b""
        else:
            want, want_err = expected_listing(info[0], info[1], m, acc), b""
            if any(m[(d, "d")] or m[(d, "r")] for fl, ch in info[1] for d in ch if d != info[0]):
                res.count("ls:nested-ignore-hit")
        paths = [g[0] for g in got]
        problems = []
        if len(set(paths)) != len(paths):
            problems.append("duplicate paths")
        if paths != sorted(paths):
            problems.append("not sorted")
        if got != want or err_txt != want_err:
            problems.append("listing %r (err %r) differs from accepted-and-not-ignored %r (err %r)" % ([L(p) for p, l in got], L(err_txt), [L(p) for p, l in want], L(want_err)))
        for pr in problems:
            bad += 1
            deviation(res, "FileLister::recursiveAddFiles(%r) with ignore %r: %s" % (L(c["patharg"]), [L(i) for i in c["ign"]], pr),
                      dict(op="ls", case=ls_case_json(c), impl=out), None)
    return bad


def ls_case_json(c):
    def tj(nodes):
        return [[n[0], L(n[1])] if n[0] == "f" else [n[0], L(n[1]), tj(n[2])] for n in nodes]
    return dict(patharg=L(c["patharg"]), nodepath=c["nodepath"], base_is_casedir=c["base"] == c["casedir"], base=L(c["base"]),
                ign=[L(i) for i in c["ign"]], extra=[L(e) for e in c["extra"]], top=tj(c["top"]))


def ls_case_from_json(j, casedir):
    def tb(nodes):
        return [("f", n[1].encode("latin-1")) if n[0] == "f" else ("d", n[1].encode("latin-1"), tb(n[2])) for n in nodes]
    base = casedir if j.get("base_is_casedir") else j["base"].encode("latin-1")
    return dict(casedir=casedir, patharg=j["patharg"].encode("latin-1"), nodepath=j["nodepath"], base=base,
                ign=[i.encode("latin-1") for i in j["ign"]], extra=[e.encode("latin-1") for e in j["extra"]], top=tb(j["top"]))


def check_misc(ctx, res, exe, drv, rng, n):
    lines = []
    for p, extra in gen_af_cases(rng, n):
        lines.append("af %s %d %s" % (hx(p), len(extra), " ".join(hx(e) for e in extra)))
    for p in [b"", b".", b"..", b"./", b"../", b".\\", b"..\\x", b".a", b"..a", b"...", b"/", b"/a", b"a", b"a/.", b".\\a", b"./a/b"] + [gen_path(rng) for _ in range(n // 4)]:
        lines.append("rp " + hx(p))
    for _ in range(n // 4):
        a, b = gen_path(rng), gen_path(rng)
        if rng.random() < 0.3:
            a = a.replace(b"/", b"\\")
        lines.append("jn %s %s" % (hx(a), hx(b)))
        bps = [gen_path(rng, absolute=True, special=0.0) for _ in range(rng.choice([1, 2]))]
        ab = rng.choice(bps).rstrip(b"/") + rng.choice([b"/x/y.c", b"x", b"", b"/"]) if rng.random() < 0.7 else gen_path(rng, absolute=True)
        lines.append("grp %s %d %s" % (hx(ab), len(bps), " ".join(hx(x) for x in bps)))
    impl, model = run_both(ctx, exe, drv, lines)
    core.correspond(ctx, res, "pathutil-accept", lines, impl, model, nontrivial=lambda op, out: True)



# ---- the command line: -i values (cli/cmdlineparser.cpp) -----------------------------------------------------------
def py_normalize_ignored(u):
    """independent statement of what may happen to an -i value on its way to the matcher: quotation marks dropped,
    native separators converted - nothing else (in particular a leading './' must survive)"""
    return u.replace(b'"', b"").replace(b"\\", b"/")


def py_relative_user(u):
    q = u.replace(b'"', b"")
    return q in (b".", b"..") or q[:2] in (b"./", b".\\") or q[:3] in (b"../", b"..\\")


CLI_DIRS = [b"gen", b"lib", b"src", b"a"]
CLI_FILES = [b"a.c", b"b.c", b"gen.c", b"x.cpp", b"m.h", b"n.txt"]


def gen_cli_tree(rng, depth=3):
    out, used = [], set()
    for _ in range(rng.randrange(2, 6)):
        isdir = depth > 0 and rng.random() < 0.45
        nm = rng.choice(CLI_DIRS if isdir else CLI_FILES)
        if nm in used:
            continue
        used.add(nm)
        out.append(("d", nm, gen_cli_tree(rng, depth - 1)) if isdir else ("f", nm))
    return out


def gen_user_pattern(rng, allp, casedir):
    """an -i value as a user would write it, derived from the names in the tree"""
    if allp and rng.random() < 0.9:
        p, k = rng.choice(allp)
    else:
        p, k = rng.choice([(b"gen", "d"), (b"b.c", "f"), (b"lib/gen", "d")])
    comps = p.split(b"/")
    v = rng.random()
    if v < 0.3:
        pat = comps[-1]
    elif v < 0.45:
        pat = b"/".join(comps[-2:])
    elif v < 0.6:
        pat = p
    elif v < 0.75:
        pat = globify(rng, comps[-1]) if rng.random() < 0.6 else b"/".join(comps[:-1] + [globify(rng, comps[-1])])
    elif v < 0.85:
        pat = b"**/" + comps[-1]
    else:
        pat = edit1(rng, p, b"abg/.*")
    pat = pat or b"gen"
    w = rng.random()
    if w < 0.35:
        pat = b"./" + pat
    elif w < 0.42:
        pat = b"../" + os.path.basename(casedir) + b"/" + pat
    elif w < 0.5:
        pat = casedir + b"/" + pat
    elif w < 0.55:
        pat = b"./" + b"/./".join(pat.split(b"/"))
    if k == "d" and rng.random() < 0.5 or rng.random() < 0.08:
        pat += b"/"
    x = rng.random()
    if x < 0.12:
        pat = pat.replace(b"/", b"\\")
    elif x < 0.18:
        pat = b'"' + pat + b'"'
    if pat.startswith(b"-"):
        pat = b"./" + pat
    return pat


def gen_cli_args(rng, n):
    """argument vectors for the real CmdLineParser: -i values in both spellings, path names, error cases"""
    out = []
    pool = [(b"gen", "d"), (b"lib/gen", "d"), (b"lib/gen/b.c", "f"), (b"src/a.c", "f"), (b"a b/x.cpp", "f")]
    for _ in range(n):
        args = []
        for _ in range(rng.choice([1, 1, 2, 3])):
            v = gen_user_pattern(rng, pool, b"/w/case")
            r = rng.random()
            if r < 0.05:
                v = b""
            elif r < 0.08:
                v = b"-" + v
            if rng.random() < 0.5 and v:
                args.append(b"-i" + v)
            else:
                args += [b"-i", v]
        for _ in range(rng.choice([0, 0, 0, 1, 2])):
            f = gen_user_pattern(rng, pool, b"/w/case")
            args.append(b"--file-filter=" + (f if rng.random() < 0.93 else rng.choice([b"", b"+"])))
        r = rng.random()
        if r < 0.9:
            args.append(rng.choice([b".", b"src", b"lib\\gen", b'"a b"', b"./x/../src/"]))
        if rng.random() < 0.1:
            rng.shuffle(args)
        out.append(args)
    return out


def check_cli_args(ctx, res, exe, drv, argsets, name):
    lines = ["cli %d %s" % (len(a), " ".join(hx(x) for x in a)) for a in argsets]
    impl, model = run_both(ctx, exe, drv, lines)
    core.correspond(ctx, res, name, lines, impl, model, nontrivial=lambda op, out: out.startswith("S"))
    bad = 0
    for args, o in zip(argsets, impl):
        if not o.startswith("S"):
            res.count("cli:rejected")
            continue
        f = o.split(" ")
        ni = int(f[1])
        got = [core.unhx(x) for x in f[2:2 + ni]]
        nf = int(f[2 + ni])
        gotf = [core.unhx(x) for x in f[3 + ni:3 + ni + nf]]
        wantf = [a[14:] for a in args if a.startswith(b"--file-filter=")]
        if gotf != wantf:
            bad += 1
            deviation(res, "--file-filter values %r reach the matcher as %r (documented: verbatim)" % ([L(x) for x in wantf], [L(x) for x in gotf]),
                      dict(op="cliargs", args=[L(a) for a in args], impl=o), None)
        res.count("cli:filters=%d" % min(nf, 2))
        # the -i values as written, in order (only well-formed vectors reach here)
        written, i = [], 0
        while i < len(args):
            a = args[i]
            if a == b"-i":
                if i + 1 < len(args) and args[i + 1]:
                    written.append(args[i + 1])
                i += 2
            elif a.startswith(b"-i"):
                written.append(a[2:]); i += 1
            else:
                i += 1
        want = [py_normalize_ignored(u) for u in written]
        for u, w, g in zip(written, want, got + [None] * len(want)):
            res.count("cli:value-relative" if py_relative_user(u) else "cli:value-free")
            if g != w:
                bad += 1
                deviation(res, "the -i value %r reaches the matcher as %r (documented: only quotation marks and native separators are "
                               "normalised, %r); relative-to-cwd anchoring %s" % (L(u), None if g is None else L(g), L(w),
                                                                                  "LOST" if g is not None and py_relative_user(u) and not py_relative_user(g) else "kept"),
                          dict(op="cliargs", args=[L(a) for a in args], impl=o), None)
        if len(got) != len(want):
            bad += 1
            deviation(res, "%d -i values written, %d delivered: %r" % (len(want), len(got), [L(a) for a in args]),
                      dict(op="cliargs", args=[L(a) for a in args], impl=o), None)
    return bad


def make_tree(root, nodes):
    os.makedirs(root, exist_ok=True)
    for nd in nodes:
        p = os.path.join(root, nd[1])
        if nd[0] == "f":
            with open(p, "wb") as fh:
                fh.write(b"int x;\n")
        else:
            make_tree(p, nd[2])


def gen_cli_case(rng, casedir):
    top = gen_cli_tree(rng)
    allp = tree_paths(top)
    dirs = [p for p, k in allp if k == "d" and b"/" not in p]
    alld = [p for p, k in allp if k == "d"]
    pats = [gen_user_pattern(rng, allp, casedir) for _ in range(rng.choice([0, 1, 1, 1, 2]))]
    filters = []
    if rng.random() < 0.3:
        for _ in range(rng.choice([1, 1, 2])):
            f = gen_user_pattern(rng, allp, casedir)
            filters.append(f.replace(b'"', b"") if rng.random() < 0.9 else f)
    r = rng.random()
    if r < 0.5 or not dirs:
        targets = [b"."]
    elif r < 0.7:
        d = rng.choice(dirs)
        targets = [rng.choice([d, b"./" + d, d + b"/", casedir + b"/" + d])]
    elif r < 0.85:
        targets = sorted(set(rng.sample(dirs, min(2, len(dirs)))))
    else:
        # overlapping path names: the same files are found twice and must be checked once
        d = rng.choice(alld)
        targets = rng.choice([[b".", d], [d, b"."], [d, b"./" + d + b"/"], [d.split(b"/")[0], d]])
    return dict(casedir=casedir, top=top, pats=pats, filters=filters, targets=targets)


def cli_case_json(c):
    def tj(nodes):
        return [[n[0], L(n[1])] if n[0] == "f" else [n[0], L(n[1]), tj(n[2])] for n in nodes]
    return dict(pats=[L(p) for p in c["pats"]], filters=[L(p) for p in c.get("filters", [])], targets=[L(t) for t in c["targets"]], top=tj(c["top"]))


def cli_case_from_json(j, casedir):
    def tb(nodes):
        return [("f", n[1].encode("latin-1")) if n[0] == "f" else ("d", n[1].encode("latin-1"), tb(n[2])) for n in nodes]
    return dict(casedir=casedir, top=tb(j["top"]), pats=[p.encode("latin-1") for p in j["pats"]], filters=[p.encode("latin-1") for p in j.get("filters", [])],
                targets=[t.encode("latin-1") for t in j["targets"]])


def cli_argv(c):
    return [x for p in c["pats"] for x in (b"-i", p)] + [b"--file-filter=" + f for f in c.get("filters", [])] + list(c["targets"])


def check_cli_e2e(ctx, res, exe, drv, cases, name, cppcheck=None):
    """the built cppcheck binary on real trees: `cppcheck [-i <u>]… [--file-filter=<f>]… <path names>` run inside the tree; the
    `Checking <file> ...` lines must equal (1) the model's selection `cliSelect` (driver op `clisel`: argument loop,
    normalisation, lister per path name, file filter, de-duplication, simplifyPath) and (2) P_impl: the documented rules
    applied to the values as the user wrote them"""
    import subprocess
    binary = cppcheck or ctx.cppcheck
    real = []
    for c in cases:
        make_tree(c["casedir"], c["top"])
        r = subprocess.run([binary.encode()] + cli_argv(c), cwd=c["casedir"], stdout=subprocess.PIPE, stderr=subprocess.STDOUT, timeout=300)
        real.append([m.group(1) for m in re.finditer(rb"^Checking (.*) \.\.\.$", r.stdout, re.M)])
    # model: the whole selection in Lean
    ml = []
    for c in cases:
        av = cli_argv(c)
        ml.append(" ".join(["clisel", hx(c["casedir"]), str(len(av))] + [hx(a) for a in av] + [str(len(c["top"]))] + tree_tokens(c["top"])))
    rc, mo, err = run_drv(drv, ml)
    if len(mo) != len(ml):
        raise core.CheckBroken("C31 driver clisel stream: %d lines for %d ops: %s" % (len(mo), len(ml), err[-300:]))
    model_sel = [[core.unhx(x) for x in o.split(" ")[2:]] if o.startswith("S") else ([] if o == "F" else None) for o in mo]
    # P_impl: the rules on the user's text
    qlines, plan = [], []
    for c in cases:
        files = []
        for t in c["targets"]:
            root = corrected_path(t.replace(b'"', b"").replace(b"\\", b"/"))
            rel = root[len(c["casedir"]):] if root.startswith(c["casedir"]) else root
            node = find_node(c["top"], [x for x in rel.split(b"/") if x and x != b"."])
            if node is None:
                continue

            def walk(nd, path, chain):
                if nd[0] == "f":
                    files.append((root, path, chain))
                else:
                    for ch in nd[2]:
                        walk(ch, path + b"/" + ch[1], chain + [path])
            walk(node, root, [])
        qs = set()
        for root, f, chain in files:
            qs.add((root, "r")); qs.add((f, "r"))
            for d in chain:
                qs.add((d, "d")); qs.add((d, "r"))
        qs = sorted(qs)
        fq = sorted(set(f for root, f, chain in files))
        plan.append((files, qs, fq))
        for (p, m) in qs:
            for u in c["pats"]:
                qlines.append("uspec %s %s %s %s" % (m, hx(u), hx(p), hx(c["casedir"])))
        for f in fq:
            for flt in c.get("filters", []):
                qlines.append("spec u r %s %s %s" % (hx(flt), hx(f), hx(c["casedir"])))
    rc, qa, err = run_drv(drv, qlines) if qlines else (0, [], "")
    qi = 0
    bad = 0
    rows = []
    for c, (files, qs, fq), got, msel in zip(cases, plan, real, model_sel):
        npat, nflt = len(c["pats"]), len(c.get("filters", []))
        m = {}
        for q in qs:
            m[q] = any(qa[qi + j] == "1" for j in range(npat)); qi += npat
        fm = {}
        for f in fq:
            fm[f] = any(qa[qi + j].split(" ")[0] == "1" for j in range(nflt)); qi += nflt
        per_root = {}
        for root, f, chain in files:
            ignored = m[(root, "r")] or any(d != root and (m[(d, "d")] or m[(d, "r")]) for d in chain) or (f != root and m[(f, "r")])
            ext = f[f.rfind(b"."):] if b"." in f else b""
            acc = f == root or ext in (b".c", b".cpp")
            if acc and not ignored:
                per_root.setdefault(root, []).append(f)
        want, seen = [], set()
        for t in c["targets"]:
            root = corrected_path(t.replace(b'"', b"").replace(b"\\", b"/"))
            for x in sorted(per_root.get(root, [])):
                if nflt and not fm[x]:
                    continue
                key = os.path.normpath(x if x.startswith(b"/") else c["casedir"] + b"/" + x)
                if key in seen:
                    res.count("clie2e:duplicate-dropped")
                    continue
                seen.add(key)
                sp = os.path.normpath(x)
                want.append(sp)
        desc = "cppcheck %s in a tree with %s" % (" ".join(repr(L(a)) for a in cli_argv(c)), sorted(L(p) for p, k in tree_paths(c["top"]) if k == "f"))
        res.case(name + "|" + desc, bool(got) and sorted(got) != sorted(p for p, k in tree_paths(c["top"]) if k == "f"),
                 dict(tie=name, op=desc, impl=[L(g) for g in got], model=None if msel is None else [L(g) for g in msel]) if len(res.samples) < 12 and len(got) > 1 else None)
        res.count("clie2e:checked=%d" % min(len(got), 5))
        res.count("clie2e:relative-pattern" if any(py_relative_user(p) for p in c["pats"]) else "clie2e:free-pattern")
        if nflt:
            res.count("clie2e:with-file-filter")
        if len(c["targets"]) > 1:
            res.count("clie2e:several-path-names")
        rows.append((got == msel, desc, got, msel))
        if got != want:
            bad += 1
            deviation(res, "%s: Checking lines %r, documented rules for the values as written select %r" % (desc, [L(g) for g in got], [L(w) for w in want]),
                      dict(op="clie2e", case=cli_case_json(c), impl=[L(g) for g in got], documented=[L(w) for w in want],
                           model=None if msel is None else [L(g) for g in msel]), None)
    mism = [x for x in rows if not x[0]]
    res.traces_validated += len(cases) - len(mism)
    res.oblig("correspondence:" + name, not mism, "correspondence",
              "" if not mism else "%d of %d command lines differ; first: %s impl=%s model=%s" %
              (len(mism), len(cases), mism[0][1], [L(g) for g in mism[0][2]], None if mism[0][3] is None else [L(g) for g in mism[0][3]]))
    return bad


def load_corpus():
    p = os.path.join(core.VERIF, "corpus", "C31", "cases.json")
    return json.load(open(p)) if os.path.exists(p) else []


def b_(s):
    return None if s is None else s.encode("latin-1")


def run_corpus(ctx, res, exe, drv):
    """witnesses of the known deviation classes and minimised past disagreements: replayed first on every run"""
    corpus = load_corpus()
    pm = [[(c["syntax"], c["mode"], b_(c["pattern"]), b_(c["path"]), b_(c["base"]))] for c in corpus if c["op"] == "pm"]
    pi = [(c["syntax"], b_(c["a"]), b_(c["b"])) for c in corpus if c["op"] == "pi"]
    sp = [b_(c["path"]) for c in corpus if c["op"] == "sp"]
    ls = [ls_case_from_json(c["case"], os.path.join(ctx.tmp, "lsc", str(k)).encode()) for k, c in enumerate(corpus) if c["op"] == "ls"]
    ca = [[b_(a) for a in c["args"]] for c in corpus if c["op"] == "cliargs"]
    ce = [cli_case_from_json(c["case"], os.path.join(ctx.tmp, "clic", str(k)).encode()) for k, c in enumerate(corpus) if c["op"] == "clie2e"]
    if pm:
        check_pm(ctx, res, exe, drv, pm, "corpus-pathmatch")
    if pi:
        check_pi(ctx, res, exe, drv, pi, "corpus-pathiter")
    if sp:
        check_sp(ctx, res, exe, drv, sp, "corpus-simplify")
    if ls:
        check_ls(ctx, res, exe, drv, ls, "corpus-lister")
    if ca:
        check_cli_args(ctx, res, exe, drv, ca, "corpus-cli-args")
    if ce:
        check_cli_e2e(ctx, res, exe, drv, ce, "corpus-cli-end-to-end")
    # the witness of the remaining known finding must still be SEEN (otherwise the check is broken or the code changed)
    seen = set(v.get("key") for v in res.violations if v.get("key"))
    for c in corpus:
        k = c.get("key")
        if k == KEY_SPWRAP and k not in seen:
            res.notes.append("corpus witness of %s no longer deviates on the real code" % k)
            res.count("corpus-witness-not-reproduced")
    res.extra["corpus_cases"] = len(corpus)


ASSUMPTIONS = [
    "byte strings contain no NUL (C strings / file names)",
    "CanonDomain: the root of a path ends with a separator (not the windows forms C:dir, //.), a string without a root does not climb above its start with '..'",
    "FastPathOk for pattern == path: base path empty or absolute (relative non-empty base path: finding C31-6)",
    "command line: the current directory is absolute; -i / --file-filter values that are neither absolute nor ./-relative do not climb above their own start (UserPatternOk / FilterOk)",
    "directory trees are well formed (distinct sibling names without separator) for Nodup / sortedness; no symbolic links (abspath = canonical path)",
    "POSIX build: Path::isAbsolute = starts with '/', case-sensitive file system, cppHeaderProbe = false",
]


def run(ctx, res):
    import time
    res.assumptions = list(ASSUMPTIONS)
    rng = ctx.rng
    thorough = ctx.tier == "thorough"
    t0 = time.time()
    core.prove(ctx, res, MODULES, THEOREMS)
    res.extra["t_prove_s"] = round(time.time() - t0, 1)
    drv = ctx.driver("drv_c31")
    exe = ctx.harness("c31", with_cli=True)

    # ---- T: extension tables -----------------------------------------------------------------------
    got, why = extract_exts(res)
    rc, out, err = run_drv(drv, ["exts"])
    model_tabs = dict(x.split("=", 1) for x in out[0].split(" ")) if out else {}
    ok = got is not None and model_tabs.get("cpp", "").split(",") == got["cpp_src_exts"] and model_tabs.get("c", "").split(",") == got["c_src_exts"] and \
        model_tabs.get("hdr", "").split(",") == got["header_exts"]
    res.oblig("T:extension-tables", ok, "translation", why or ("" if ok else "lib/path.cpp: %s  model: %s" % (got, model_tabs)))

    run_corpus(ctx, res, exe, drv)

    # ---- C + P_impl ----------------------------------------------------------------------------------
    unclassified = 0
    unclassified += check_pm(ctx, res, exe, drv, gen_pm_cases(rng, 4000 if thorough else 900), "pathmatch")
    if thorough:
        ex = []
        pats = list(small_strings(b"/.a*?", 4, 1))
        paths = list(small_strings(b"/.a", 5))
        for p in pats:
            for x in rng.sample(paths, 10):
                ex.append([("u", m, p, x, b) for m in "rd" for b in (b"", b"/b")])
        unclassified += check_pm(ctx, res, exe, drv, ex, "pathmatch-small-exhaustive-patterns")
    # PathMatch objects with pattern lists
    lines = []
    for g in gen_pm_cases(rng, 150 if not thorough else 600):
        pats = [c[2] for c in g[:4]]
        c = g[0]
        lines.append("pml %s %s %s %s %d %s" % (c[0], c[1], hx(c[3]), hx(c[4]), len(pats), " ".join(hx(p) for p in pats)))
    impl, model = run_both(ctx, exe, drv, lines)
    core.correspond(ctx, res, "pathmatch-list", lines, impl, model, nontrivial=lambda op, out: True)

    pis = gen_pi_cases(rng, 6000 if thorough else 1500)
    if thorough:
        pis += [("u", a, None) for a in small_strings(b"/.a", 7)] + [("w", a, None) for a in small_strings(b"/.aC:\\?", 4)]
        pis += [("u", a, b) for a in small_strings(b"/.a", 3) for b in small_strings(b"/.a", 3)]
    else:
        pis += [("u", a, None) for a in small_strings(b"/.a", 5)]
    unclassified += check_pi(ctx, res, exe, drv, pis, "pathiter")

    sps = gen_sp_cases(rng, 6000 if thorough else 1500) + (list(small_strings(b"/.a\\", 8)) if thorough else list(small_strings(b"/.a", 6)))
    unclassified += check_sp(ctx, res, exe, drv, sps, "simplifyPath")

    check_misc(ctx, res, exe, drv, rng, 1200 if thorough else 400)

    unclassified += check_cli_args(ctx, res, exe, drv, gen_cli_args(rng, 1500 if thorough else 400), "cli-args")
    cen = 220 if thorough else 30
    unclassified += check_cli_e2e(ctx, res, exe, drv, [gen_cli_case(rng, os.path.join(ctx.tmp, "cli", str(k)).encode()) for k in range(cen)], "cli-end-to-end")

    lsn = 1200 if thorough else 300
    cases = [gen_ls_case(rng, os.path.join(ctx.tmp, "ls", str(k)).encode()) for k in range(lsn)]
    unclassified += check_ls(ctx, res, exe, drv, cases, "lister")

    # ---- violation search when an obligation broke and no concrete failing input is known yet ----------------
    if any(not o["ok"] for o in res.obligations) and not any(v["concrete"] and not v.get("key") for v in res.violations):
        search(ctx, res, exe, drv)


def search(ctx, res, exe, drv):
    """wider / exhaustive-small exploration with P_impl evaluated on the implementation"""
    rng = ctx.rng
    res2 = core.Result(ctx, res.level)
    n = 0
    ex = []
    paths = list(small_strings(b"/.a", 5))
    for p in small_strings(b"/.a*?", 4, 1):
        for x in rng.sample(paths, 12):
            ex.append([("u", m, p, x, b) for m in "rd" for b in (b"", b"/b", b"/")])
    n += check_pm(ctx, res2, exe, drv, ex, "search-pathmatch-small")
    n += check_pm(ctx, res2, exe, drv, gen_pm_cases(rng, 6000), "search-pathmatch")
    n += check_pi(ctx, res2, exe, drv, [("u", a, None) for a in small_strings(b"/.a", 8)] + gen_pi_cases(rng, 5000), "search-pathiter")
    n += check_sp(ctx, res2, exe, drv, list(small_strings(b"/.a", 8)) + gen_sp_cases(rng, 5000), "search-simplify")
    cases = [gen_ls_case(rng, os.path.join(ctx.tmp, "lss", str(k)).encode()) for k in range(1500)]
    n += check_ls(ctx, res2, exe, drv, cases, "search-lister")
    res.extra["search_evaluations"] = res2.evaluations
    known = set(v.get("key") for v in res.violations)
    for v in res2.violations:
        if v.get("key") is None or v.get("key") not in known:
            res.violations.append(v)
            if len(res.violations) > 40:
                break


def replay(ctx, res, rp):
    drv = ctx.driver("drv_c31")
    exe = ctx.harness("c31", with_cli=True)
    op = rp.get("op")
    if op == "pm":
        check_pm(ctx, res, exe, drv, [[(rp["syntax"], rp["mode"], b_(rp["pattern"]), b_(rp["path"]), b_(rp["base"]))]], "replay")
    elif op == "pi":
        check_pi(ctx, res, exe, drv, [(rp["syntax"], b_(rp["a"]), b_(rp["b"]))], "replay")
    elif op == "sp":
        check_sp(ctx, res, exe, drv, [b_(rp["path"])], "replay")
    elif op == "ls":
        check_ls(ctx, res, exe, drv, [ls_case_from_json(rp["case"], os.path.join(ctx.tmp, "lsr").encode())], "replay")
    elif op == "cliargs":
        check_cli_args(ctx, res, exe, drv, [[b_(a) for a in rp["args"]]], "replay")
    elif op == "clie2e":
        check_cli_e2e(ctx, res, exe, drv, [cli_case_from_json(rp["case"], os.path.join(ctx.tmp, "clir").encode())], "replay")
    else:
        print("replay: nothing to replay in this file (no concrete failing input was recorded)")
        return 0
    bad = [o for o in res.obligations if not o["ok"]]
    for v in res.violations:
        print("VIOLATION property=C31 replay=(replayed)%s %s" % (" known-class=" + v["key"] if v.get("key") else "", v["what"][:500]))
    for o in bad:
        print("replay: model and implementation disagree: %s" % o["detail"][:400])
    print("replay: %d deviation(s) from the documented rules, %d model/implementation disagreement(s)" % (len(res.violations), len(bad)))
    return 1 if res.violations or bad else 0

"""C12 — configuration selection honours -D/-U and covers guarded code.

Obligations
  theorems   Cppcheck.Configs.*  (lean/Cppcheck/Props/C12.lean): coverage of every guarded region (main theorem
             every_region_covered_fixElse for the fold as it is since commit 4aed040; full statement refuted by proved
             counterexamples: F16 on the code, F15 on the fold before the commit; `safe` proved to be exactly the covered
             class; full statement proved for the modelled repair of F16), -D / -U composition, budget.
  C1         real Preprocessor::getConfigs() == model getConfigs on printed directive lists (family trees, -D/-U,
             repeated macros, #define, malformed nesting), and real Preprocessor::getcode() (simplecpp) == model
             conditional-inclusion semantics `emit` for every returned configuration
  C2         real Settings::getMaxConfigs() == model; real `cppcheck` runs: the `Checking f: cfg...` lines and the reported
             planted findings == model `analysed` / `emit`
P_impl       in-process: every region is live (real getcode) in >= 1 configuration returned by the real getConfigs;
             CLI: every region's planted arrayIndexOutOfBounds is reported when the configurations fit --max-configs;
             the same UNDER -U: every region of the Lean specification `Items.reach [] undefs t` (= live in some configuration
             that leaves the -U macros undefined, theorem reach_spec; evaluated through the driver) must be live / reported;
             with -D X every checked configuration defines X, with -U X none does.
"""
import json, os, re, subprocess
from .. import core, build_repo

ID = "C12"
LEVEL = "proof"
RULE = ("cases = directive lists printed as C files: (a) trees of the property's family (nested #ifdef/#ifndef/#if defined()/"
        "#if !defined()/#else over pairwise distinct macros, one planted out-of-bounds write per region), (b) the same with -D/-U, "
        "(b') family trees with -U on their own macros, half of them built around `#ifdef X .. #else <nested conditionals> #endif` with -U X, "
        "(c) repeated macros, #define inside, unbalanced nesting; non-trivial = at least two conditionals and one region; "
        "distinct = canonical op text")
EXPLANATION = ("Lean theorems about an executable copy of getConfigs/cfg/hasDefine/isUndefined and of the selection loop of "
               "checkInternal: headline every_region_analysed_partial (family tree, `#if !defined` conditionals containing regions only = ndLeaf, "
               "|getConfigs()| <= --max-configs, which length_getConfigs_le bounds by 1 + 2 * #conditionals: every region is live in an ANALYSED "
               "configuration), built on every_region_covered_fixElse (the fold as it is since commit 4aed040; obligation "
               "T:fold-variant-is-Flags.code ties the source to that variant); the full statement is refuted by a proved "
               "counterexample for the code as it is (F16, known finding) and for the fold before 4aed040 (F15, fixed), "
               "proved for exactly the trees accepted by the decidable predicate `safe` (sufficiency and necessity: "
               "every_region_covered_iff_safe) and for every tree under the repaired algorithm; -D/-U/budget theorems. Tie: in-process correspondence of configurations and of per-configuration "
               "live regions (real simplecpp) plus CLI runs. Outside the model: #elif, #if expressions other than defined()/"
               "!defined(), #error, include guards / included files, library defines, token-hash purging of equal configurations.")
THEOREMS = ["Cppcheck.Configs.every_region_covered_of_safe", "Cppcheck.Configs.region_uncovered_counterexample",
            "Cppcheck.Configs.region_uncovered_counterexample_notdefined", "Cppcheck.Configs.every_region_covered_partial",
            "Cppcheck.Configs.region_uncovered_of_unsafe", "Cppcheck.Configs.every_region_covered_iff_safe",
            "Cppcheck.Configs.every_region_covered_fixElse",
            "Cppcheck.Configs.safe_repaired", "Cppcheck.Configs.every_region_covered_repaired",
            "Cppcheck.Configs.analysed_all_within_budget", "Cppcheck.Configs.covered_within_budget",
            "Cppcheck.Configs.D_in_every_config", "Cppcheck.Configs.U_in_no_extracted_config", "Cppcheck.Configs.U_in_no_config",
            "Cppcheck.Configs.U_in_no_config_D", "Cppcheck.Configs.reach_spec",
            "Cppcheck.Configs.length_getConfigs_le", "Cppcheck.Configs.every_region_analysed_partial",
            "Cppcheck.Configs.every_region_analysed_of_size_partial", "Cppcheck.Configs.every_region_analysed_counterexample",
            "Cppcheck.Configs.every_region_covered_ndLeaf_partial", "Cppcheck.Configs.live_spec_eq_driver",
            "Cppcheck.Configs.purge_keeps_code_partial", "Cppcheck.Configs.purge_keeps_coverage_partial",
            "Cppcheck.Configs.purge_loses_region_counterexample"]
MODULES = ["Cppcheck.Props.C12"]

CPLUSPLUS = "__cplusplus"
KEY_F15 = "else-pops-enclosing-level"
KEY_F16 = "if-not-defined-paired-with-defined"

# ---- trees ------------------------------------------------------------------------------------------
# item = ("r", id) | ("c", kind, macro, thn, els|None) ; kind in d (#ifdef) n (#ifndef) D (#if defined) N (#if !defined)

NAMEPOOL = (["M%d" % i for i in range(0, 24)] + list("ABCDEFGHXYZ") + ["AA", "AB", "BA", "A1", "FOO", "FOO_BAR", "BAR", "x", "_y1", "WIN32",
            "DEBUG", "NDEBUG", "HAVE_X", "HAVE_XY", "defined", "b", "zz"])   # never `a`, `f<k>`, `int`, `void`: the planted code uses them


def gen_tree(rng, names, budget, depth=0, kinds="ddnDN", p_else=0.45, p_region=0.55, repeat=False):
    """items list; `budget` = [remaining conditionals]; region ids are assigned afterwards"""
    items = []
    n = rng.choice([1, 1, 2, 2, 3]) if depth else rng.choice([1, 2, 2, 3, 4])
    for _ in range(n):
        if rng.random() < p_region:
            items.append(["r", None])
        if budget[0] > 0 and (depth < 5) and rng.random() < (0.8 if depth < 2 else 0.5):
            budget[0] -= 1
            k = rng.choice(kinds)
            m = rng.choice(names) if repeat else names.pop()
            thn = gen_tree(rng, names, budget, depth + 1, kinds, p_else, p_region, repeat)
            els = gen_tree(rng, names, budget, depth + 1, kinds, p_else, p_region, repeat) if rng.random() < p_else else None
            items.append(["c", k, m, thn, els])
            if rng.random() < 0.3:
                items.append(["r", None])
    return items


def number(items, ctr=None):
    ctr = ctr if ctr is not None else [0]
    for it in items:
        if it[0] == "r":
            if it[1] is None:
                it[1] = ctr[0]; ctr[0] += 1
        else:
            number(it[3], ctr)
            if it[4] is not None:
                number(it[4], ctr)
    return items


def flatten(items):
    out = []
    for it in items:
        if it[0] == "r":
            out.append("r%d" % it[1])
        elif it[0] == "m":
            out.append("m" + core.hx(it[1]))
        else:
            out.append(it[1] + core.hx(it[2]))
            out += flatten(it[3])
            if it[4] is not None:
                out.append("e"); out += flatten(it[4])
            out.append("x")
    return out


def regions(items):
    out = []
    for it in items:
        if it[0] == "r":
            out.append(it[1])
        elif it[0] == "c":
            out += regions(it[3]) + (regions(it[4]) if it[4] is not None else [])
    return out


def macros(items):
    out = []
    for it in items:
        if it[0] == "c":
            out += [it[2]] + macros(it[3]) + (macros(it[4]) if it[4] is not None else [])
    return out


def nconds(items):
    return len(macros(items))


FLAGS = [True, False]       # (fixElse, fixNotDef) of the working tree, set by detect_flags() in run()


def kcls(k, fl=None):
    fl = FLAGS if fl is None else fl
    return "pos" if k in "dD" else ("neg" if k == "n" or fl[1] else "nd")


def loss(items, fl=None, undefs=()):
    """surplus pops of the fold: one per conditional with #else that pushes no #ifndef candidate (none once fixElse is in)"""
    fl = FLAGS if fl is None else fl
    if fl[0]:
        return 0
    n = 0
    for it in items:
        if it[0] == "c":
            n += loss(it[3], fl, undefs) + (loss(it[4], fl, undefs) if it[4] is not None else 0) + \
                (1 if (it[4] is not None and (kcls(it[1], fl) != "neg" or it[2] in undefs)) else 0)
    return n


def drop(stk, n):
    return stk[:max(0, len(stk) - n)]


def predict(items, fl=None, undefs=()):
    """known-finding classifier, independent of the Lean model: for every region of a family tree (distinct macros, no -D/-U)
    the defect class that loses it, or None.  Mirrors the decidable predicate `safe` of Model/Configs.lean (checked against
    it through the driver on every run):
      F15  a macro the region needs was popped off configs_if by an earlier `#if.. #else #endif` (kind != ifndef) nested in
           the same top-level conditional
      F16  the region sits in / below a `#if !defined(X)` conditional and needs a further macro (X is pushed for the wrong branch)
    `undefs`: macros given by -U; a conditional on such a macro pushes the empty entry for both branches (only regions that are
    reachable under -U are ever looked up)."""
    fl = FLAGS if fl is None else fl
    undefs = set(undefs)
    status = {}
    ph = [None] if fl[0] else []

    def check(S, P):
        names = set(x for x in S if x)
        need = set(m for m, _ in P)
        extra, missing = names - need, need - names
        if not extra and not missing:
            return None
        if extra or any(k == "nd" for m, k in P if m in missing):
            return KEY_F16
        return KEY_F15

    def walk(its, stk, P, verdict):
        for it in its:
            if it[0] == "r":
                status[it[1]] = verdict
                continue
            if it[0] != "c":
                continue
            _, k, m, thn, els = it
            c = kcls(k, fl)
            if m in undefs:
                walk(thn, stk + [None], P, verdict)
                if els is not None:
                    walk(els, drop(stk, loss(thn, fl, undefs)) + ph, P, verdict)
            elif c == "pos":
                walk(thn, stk + [m], P + [(m, "push")], check(stk + [m], P + [(m, "push")]))
                if els is not None:
                    walk(els, drop(stk, loss(thn, fl, undefs)) + ph, P, verdict)
            elif c == "neg":
                walk(thn, stk + [None], P, verdict)
                if els is not None:
                    s2 = drop(stk, loss(thn, fl, undefs)) + [m]
                    walk(els, s2, P + [(m, "push")], check(s2, P + [(m, "push")]))
            else:
                walk(thn, stk + [m], P, verdict)
                if els is not None:
                    walk(els, drop(stk, loss(thn, fl, undefs)) + ph, P + [(m, "nd")], check(stk + [m], P + [(m, "nd")]))
            stk = drop(stk, loss([it], fl, undefs))

    walk(items, [], [], None)
    return status


def describe(items, ind=0):
    out = []
    for it in items:
        if it[0] == "r":
            out.append(" " * ind + "R%d" % it[1])
        elif it[0] == "m":
            out.append(" " * ind + "#define " + it[1])
        else:
            out.append(" " * ind + {"d": "#ifdef %s", "n": "#ifndef %s", "D": "#if defined(%s)", "N": "#if !defined(%s)"}[it[1]] % it[2])
            out += describe(it[3], ind + 1)
            if it[4] is not None:
                out.append(" " * ind + "#else"); out += describe(it[4], ind + 1)
            out.append(" " * ind + "#endif")
    return out


def flagstr(fl=None):
    fl = FLAGS if fl is None else fl
    return "%d%d" % (1 if fl[0] else 0, 1 if fl[1] else 0)


def gc_op(words, ud="", undefs=(), flags=None):
    flags = flags or flagstr()
    return "gc %s %s %s %s %s" % (flags, core.hx(ud), ",".join(core.hx(u) for u in undefs) or "-", core.hx(CPLUSPLUS), " ".join(words))


def parse_gc(line):
    m = re.match(r"^C (\S*) \| L (\S+)$", line)
    if not m:
        return None
    cfgs = [core.unhx(h).decode("latin-1") for h in m.group(1).split(",")] if m.group(1) else []
    if m.group(2) == "?":
        return cfgs, None
    lives = [set(int(x) for x in l.split(".")) if l != "-" else set() for l in m.group(2).split("/")]
    return cfgs, lives


def cfg_names(c):
    """macro names a configuration string defines (python mirror of splitcfg + simplecpp's name split; used by P_impl only)"""
    out = []
    ps = c.split(";")
    if ps and ps[-1] == "":
        ps.pop()
    for p in ps:
        out.append(re.split(r"[=(]", p)[0])
    return out


# ---- generators of op streams --------------------------------------------------------------------------------------

def family_tree(rng, size, kinds="ddnDN", p_else=0.45):
    names = list(NAMEPOOL)
    rng.shuffle(names)
    t = number(gen_tree(rng, names, [size], 0, kinds, p_else))
    return t


def add_twins(rng, items, ctr=None, p=0.6):
    """give some `#if .. #else .. #endif` conditionals a pair of twin regions (ids 1000+2j / 1000+2j+1): the two branches then
    hold the same multiset of tokens with the planted finding in a different line (what a duplicate-configuration purge with an
    order-insensitive hash would collapse)"""
    ctr = ctr if ctr is not None else [0]
    for it in items:
        if it[0] == "c":
            add_twins(rng, it[3], ctr, p)
            if it[4] is not None:
                add_twins(rng, it[4], ctr, p)
                if rng.random() < p and ctr[0] < 40:
                    j = ctr[0]; ctr[0] += 1
                    it[3].insert(rng.randrange(len(it[3]) + 1), ["r", 1000 + 2 * j])
                    it[4].insert(rng.randrange(len(it[4]) + 1), ["r", 1001 + 2 * j])
    return items


def twin_tree(rng, size=None):
    names = list(NAMEPOOL)
    rng.shuffle(names)
    t = gen_tree(rng, names, [size or rng.choice([1, 2, 3, 4])], 0, "ddnD", 0.8, 0.4)
    if not conds_with_else(t):
        t = t + [["c", rng.choice("dnD"), names.pop(), [], []]]
    ctr = [0]
    add_twins(rng, t, ctr, 0.8)
    # and one conditional whose two branches are nothing but the twins (optionally nested): its two configurations hold
    # exactly the same multiset of tokens
    j = ctr[0]
    pure = ["c", rng.choice("ddnD"), names.pop(), [["r", 1000 + 2 * j]], [["r", 1001 + 2 * j]]]
    if rng.random() < 0.5:
        pure = ["c", rng.choice("dD"), names.pop(), [["r", None], pure], None]
    t.insert(rng.randrange(len(t) + 1), pure)
    return number(t)


def region_text(k):
    """the printer of harness/c12.cpp (regions only), used to rebuild the code of a configuration from its live regions"""
    if k >= 1000:
        j = (k - 1000) // 2
        bad, good = "a[%d]=0;" % (100 + j), "a[0]=0;"
        return "void p%d(void){int a[2]; %s\n %s}\n" % (j, bad if k % 2 == 0 else good, good if k % 2 == 0 else bad)
    return "void f%d(void){int a[1]; a[%d]=0;}\n" % (k, k + 1)


def line_regions(src):
    """line number -> region whose planted out-of-bounds write sits in that line"""
    out = {}
    for n, line in enumerate(src.split("\n"), 1):
        m = re.search(r"void f(\d+)\(", line)
        if m:
            out[n] = int(m.group(1)); continue
        m = re.search(r"a\[(1\d\d)\]=0;", line)
        if m:
            out[n] = 1000 + 2 * (int(m.group(1)) - 100) + (0 if line.startswith("void p") else 1)
    return out


def gen_defines(rng, ms):
    """userDefines / undefs around the macros of the tree, as cmdlineparser composes them"""
    pool = list(ms) + ["AA", "A", "ZZ", "M1", "B"]
    ds = []
    for _ in range(rng.choice([1, 1, 2, 3])):
        m = rng.choice(pool)
        v = rng.choice(["=1", "=1", "=0", "=M", "=" + m, "(x)=x", "=a;b" if rng.random() < 0.05 else "=2"])
        if m + v not in ds:
            ds.append(m + v)
    us = []
    for _ in range(rng.choice([0, 0, 1, 2])):
        us.append(rng.choice(pool))
    return ";".join(ds), sorted(set(us))


def conds_with_else(items):
    out = []
    for it in items:
        if it[0] == "c":
            if it[4] is not None:
                out.append(it[2])
            out += conds_with_else(it[3]) + (conds_with_else(it[4]) if it[4] is not None else [])
    return out


def tree_under_U(rng, size=None):
    """family tree together with a -U set taken from its own macros; half of the cases are built around
    `#ifdef X ... #else <nested conditionals> #endif` (resp. `#ifndef X <nested conditionals> #endif`) with -U X"""
    size = size or rng.choice([2, 3, 4, 6, 8])
    if rng.random() < 0.5:
        t = family_tree(rng, size)
        ms = macros(t)
        if not ms:
            return t, []
        pref = conds_with_else(t)
        us = set()
        for _ in range(rng.choice([1, 1, 2])):
            us.add(rng.choice(pref) if pref and rng.random() < 0.7 else rng.choice(ms))
        return t, sorted(us)
    names = list(NAMEPOOL)
    rng.shuffle(names)
    x = names.pop()
    budget = [size]
    live = gen_tree(rng, names, budget, 1, "ddnDN", 0.5, 0.6)          # the branch that is active under -U x
    while not macros(live):
        live = gen_tree(rng, names, [max(2, size)], 1, "ddnDN", 0.5, 0.6)
    dead = gen_tree(rng, names, [rng.choice([0, 1, 2])], 1, "ddnDN", 0.5, 0.6)
    k = rng.choice("dDdDnN")
    node = ["c", k, x, dead, live] if k in "dD" else ["c", k, x, live, dead if rng.random() < 0.6 else None]
    items = [node]
    if rng.random() < 0.5:
        items = [["r", None]] + items
    if rng.random() < 0.5:
        items.append(["c", rng.choice("dn"), names.pop(), [["r", None]], None])
    if rng.random() < 0.4:      # nest the whole thing
        items = [["c", rng.choice("ddnD"), names.pop(), items, None if rng.random() < 0.6 else [["r", None]]], ["r", None]]
    return number(items), [x]


def malformed(rng):
    ws = []
    names = ["A", "B", "C", "AB", "M1", CPLUSPLUS]
    r = 0
    for _ in range(rng.randrange(2, 14)):
        k = rng.random()
        if k < 0.4:
            ws.append(rng.choice("dnDN") + core.hx(rng.choice(names)))
        elif k < 0.55:
            ws.append("e")
        elif k < 0.8:
            ws.append("x")
        elif k < 0.9:
            ws.append("m" + core.hx(rng.choice(names)))
        else:
            ws.append("r%d" % r); r += 1
    return ws


def with_defines(rng, t):
    """insert #define lines into a tree (extension stream)"""
    out = []
    for it in t:
        if rng.random() < 0.25:
            out.append(["m", rng.choice(macros(t) or ["A"])])
        if it[0] == "c":
            out.append(["c", it[1], it[2], with_defines(rng, it[3]), with_defines(rng, it[4]) if it[4] is not None else None])
        else:
            out.append(it)
    return out


def load_corpus():
    p = os.path.join(core.VERIF, "corpus", "C12", "cases.json")
    return json.load(open(p)) if os.path.exists(p) else []


# ---- translator: which variant of the fold does the working tree contain? ---------------------------------------------

def _norm(text):
    text = re.sub(r"/\*.*?\*/", " ", text, flags=re.S)
    text = re.sub(r"//[^\n]*", " ", text)
    return re.sub(r"\s+", " ", text).strip()


ELSE_CODE = _norm("""
    const std::string &confCandidate = configs_ifndef.back();
    if (ret.find(confCandidate) == ret.end()) {
        const std::set<std::string>::iterator it = ret.find(confCandidate + "=" + confCandidate);
        if (it != ret.end()) {
            ret.erase(it);
        }
        configs_if.push_back(configs_ifndef.back());
        ret.insert(cfg(configs_if, userDefines));
    }
    }""")
ELSE_FIXED = _norm("""
    const std::string &confCandidate = configs_ifndef.back();
    if (ret.find(confCandidate) == ret.end()) {
        const std::set<std::string>::iterator it = ret.find(confCandidate + "=" + confCandidate);
        if (it != ret.end()) {
            ret.erase(it);
        }
        configs_if.push_back(configs_ifndef.back());
        ret.insert(cfg(configs_if, userDefines));
    } else {
        configs_if.emplace_back();
    }
    }""")
PUSH_CODE = ('if (cmdtok->str() != "ifndef") {',
             'configs_if.push_back((cmdtok->str() == "ifndef") ? std::string() : config); '
             'configs_ifndef.push_back((cmdtok->str() == "ifndef") ? std::move(config) : std::string()); ret.insert(cfg(configs_if,userDefines));')
PUSH_FIXED = ('if (!ifndef) {',
              'configs_if.push_back(ifndef ? std::string() : config); '
              'configs_ifndef.push_back(ifndef ? std::move(config) : std::string()); ret.insert(cfg(configs_if,userDefines));')


def detect_flags(res):
    """T: read the two places of the static getConfigs() fold that the model's `Flags` describe; fail closed on any other shape"""
    src = open(os.path.join(core.REPO, "lib", "preprocessor.cpp"), encoding="utf-8", errors="replace").read()
    i = src.find("static void getConfigs(const simplecpp::TokenList &tokens")
    j = src.find("std::set<std::string> Preprocessor::getConfigs() const", i)
    if i < 0 or j < 0:
        res.oblig("T:getConfigs-fold-shape", False, "translation", "static getConfigs(...) not found in lib/preprocessor.cpp")
        return None
    body = _norm(src[i:j])
    m = re.search(r'\} else if \(!configs_ifndef\.empty\(\)\) \{ (.*?) \} else if \(cmdtok->str\(\) == "endif"', body)
    why = []
    fe = fn = None
    if not m:
        why.append("#else branch not found")
    elif m.group(1) == ELSE_CODE:
        fe = False
    elif m.group(1) == ELSE_FIXED:
        fe = True
    else:
        why.append("unrecognised #else branch: " + m.group(1)[:300])
    m1 = re.search(r"(if \([^{}]*\) \{) const std::string::size_type eq = config\.find\('='\);", body)
    m2 = re.search(r"configs_if\.push_back\([^;]*\); configs_ifndef\.push_back\([^;]*\); ret\.insert\(cfg\(configs_if,userDefines\)\);", body)
    if not m1 or not m2:
        why.append("push of the #if entry not found")
    elif (m1.group(1), m2.group(0)) == PUSH_CODE:
        fn = False
    elif (m1.group(1), m2.group(0)) == PUSH_FIXED:
        fn = True
    else:
        why.append("unrecognised push: %s / %s" % (m1.group(1), m2.group(0)[:200]))
    import hashlib
    res.extra["getConfigs_fold_sha1"] = hashlib.sha1(body.encode()).hexdigest()
    res.oblig("T:getConfigs-fold-shape", not why, "translation", "; ".join(why))
    if why:
        return None
    return [fe, fn]


HASH_CODE = _norm("""
    std::string hashData;
    for (const Token* tok = front(); tok; tok = tok->next()) {
        hashData += std::to_string(tok->flags());
        hashData += std::to_string(tok->varId());
        hashData += std::to_string(tok->tokType());
        hashData += tok->str();
        hashData += tok->originalName();
    }
    return (std::hash<std::string>{})(hashData);""")


def detect_hash_shape(res):
    """T: TokenList::calculateHash must be one string hash over the concatenation of all tokens' fields (order sensitive by
    construction); any other shape (e.g. a token-by-token fold) is not recognised => undischarged, the collision search decides"""
    src = open(os.path.join(core.REPO, "lib", "tokenlist.cpp"), encoding="utf-8", errors="replace").read()
    m = re.search(r"std::size_t TokenList::calculateHash\(\) const\s*\{(.*?)\n\}", src, re.S)
    ok = bool(m) and _norm(m.group(1)) == HASH_CODE
    res.oblig("T:calculateHash-shape", ok, "translation",
              "" if ok else "TokenList::calculateHash is not the recognised whole-string hash: %s" % (_norm(m.group(1))[:400] if m else "not found"))
    return ok


HASH_TOKENS = ["a", "b", "x", "out", "lo", "hi", "0", "1", "2", "=", ";", "[", "]", "(", ")", "{", "}", "+", "int", "return", "if"]


def hash_collisions(ctx, res, exe, config_codes):
    """P_impl for the duplicate-configuration purge: the real TokenList::calculateHash must separate DIFFERENT token lists:
    (a) permutations of one another, (b) lists differing by a pair of equal tokens, (c) the configurations of one file."""
    rng = ctx.rng
    groups = []          # (class, [token-list texts]) : all members of a group must get pairwise different hashes
    for _ in range(60):
        base = [rng.choice(HASH_TOKENS) for _ in range(rng.choice([2, 3, 5, 8, 12]))]
        perm = list(base)
        for _ in range(20):
            rng.shuffle(perm)
            if perm != base:
                break
        if perm != base:
            groups.append(("permutation", [" ".join(base), " ".join(perm)]))
        t = rng.choice(HASH_TOKENS)
        i = rng.randrange(len(base) + 1); j = rng.randrange(len(base) + 2)
        more = list(base); more.insert(i, t); more.insert(j, t)
        groups.append(("pair-of-equal-tokens", [" ".join(base), " ".join(more)]))
    groups.append(("permutation", ["out [ 2 ] = lo ; out [ 0 ] = hi ;", "out [ 0 ] = lo ; out [ 2 ] = hi ;"]))
    for codes in config_codes:
        uniq = sorted(set(codes))
        if len(uniq) > 1:
            groups.append(("configurations-of-one-file", uniq))
    texts = sorted(set(x for _, g in groups for x in g))
    rc, out, err = core.run_lines(exe, [], ["th " + core.hx(x) for x in texts], timeout=600)
    h = dict(zip(texts, out))
    bad = []
    for cls, g in groups:
        res.count("hash:" + cls)
        seen = {}
        for x in g:
            if h.get(x) in seen and seen[h[x]] != x:
                bad.append((cls, seen[h[x]], x, h[x]))
            seen.setdefault(h.get(x), x)
    res.extra["hash_lists"] = len(texts)
    for cls, x, y, hv in bad[:6]:
        report(res, "TokenList::calculateHash gives the same value (%s) for two different token lists (%s): the later configuration would be "
                    "purged as a duplicate and its code analysed in no configuration\n  %s\n  %s" % (hv, cls, x[:300], y[:300]),
               dict(kind="hash", cls=cls, a=x, b=y, hash=hv, replay_cmd="./check.py C12 --replay <this file>"), None)
    return bad


_reported = {}


def report(res, what, replay, key):
    """at most a few replay entries per class; everything is counted"""
    n = _reported.get(key, 0)
    _reported[key] = n + 1
    if n < (2 if key else 10):
        res.violation(what, replay, concrete=True, key=key)


# ---- the check ----------------------------------------------------------------------------------------------

def run_gc(ctx, res, exe, drv, cases, name):
    """cases: list of dict(words, ud, undefs, tree|None, family(bool), origin).  Runs harness + driver, registers the
    correspondence, returns parsed implementation outputs."""
    ops = [gc_op(c["words"], c.get("ud", ""), c.get("undefs", ())) for c in cases]
    rc, impl, err = core.run_lines(exe, [], ops, timeout=900)
    rc2, model, err2 = core.run_lines(drv, [], ops, timeout=900)
    if len(impl) != len(ops):
        raise core.CheckBroken("C12 harness produced %d lines for %d ops (rc=%s): %s" % (len(impl), len(ops), rc, err[-500:]))

    def nontriv(op, out):
        return sum(1 for w in op.split()[5:] if w[0] in "dnDN") >= 2 and " r" in op
    core.correspond(ctx, res, name, ops, impl, model, nontrivial=nontriv)
    need = [c for c in cases if c.get("family") and c.get("undefs") and not c.get("ud") and c.get("tree") is not None]
    if need:
        rops = ["reach - %s %s" % (",".join(core.hx(u) for u in c["undefs"]), " ".join(c["words"])) for c in need]
        rc3, ro, err3 = core.run_lines(drv, [], rops, timeout=600)
        for c, o in zip(need, ro):
            c["reach"] = set(int(x) for x in o[2:].split(".")) if o.startswith("R ") and o[2:] not in ("-", "?") else set()
    return ops, [parse_gc(l) for l in impl], impl, model


def p_impl_inprocess(ctx, res, cases, parsed, impl_lines):
    """P_impl on the implementation's own outputs: coverage (family, no -D), -D / -U honoured."""
    for c, pr, raw in zip(cases, parsed, impl_lines):
        if pr is None:
            res.violation("harness output not understood: %s" % raw, dict(case=c), concrete=False)
            continue
        cfgs, lives = pr
        ud, undefs = c.get("ud", ""), c.get("undefs", ())
        # -U: no returned configuration defines an undefined macro; (the -D part is decided on `analysed`, CLI tie)
        for cf in cfgs:
            bad = [u for u in undefs if u in cfg_names(cf)]
            if bad:
                report(res, "-U %s but getConfigs returned configuration %r that defines it" % (bad[0], cf),
                       dict(kind="inprocess", words=c["words"], ud=ud, undefs=list(undefs), cfgs=cfgs), None)
        if not c.get("family") or lives is None or ud:
            continue
        t = c["tree"]
        if len(set(macros(t))) != len(macros(t)):
            continue
        # regions that some configuration consistent with -U contains: the Lean specification `Items.reach` (driver)
        allr = c["reach"] if undefs else set(regions(t))
        covered = set().union(*lives) if lives else set()
        lost = sorted(allr - covered)
        pred = predict(t, undefs=undefs)
        res.count("family-trees" + ("-U" if undefs else ""))
        if lost:
            res.count("family-trees-with-lost-region" + ("-U" if undefs else ""))
        for r in allr:
            if pred.get(r) and r not in lost:
                res.count("classifier-overpredicts")
        for r in lost:
            key = pred.get(r)
            res.count("lost:" + str(key))
            report(res, "%sregion R%d is live in none of the %d configurations returned by Preprocessor::getConfigs (%s)\n%s" %
                   (("with -U%s (region reachable when these macros are undefined): " % ",".join(undefs)) if undefs else "", r, len(cfgs),
                    ", ".join(repr(x) for x in cfgs), "\n".join(describe(t))),
                   dict(kind="inprocess", words=c["words"], ud="", undefs=list(undefs), region=r, cfgs=cfgs, classified=key,
                        replay_cmd="./check.py C12 --replay <this file>"), key)


IDX = re.compile(r"accessed at index (\d+)")


def cli_args(opt):
    ud, undefs = opt.get("ud", ""), opt.get("undefs", [])
    args = []
    if opt.get("force"):
        args.append("--force")
    if opt.get("maxc"):
        args.append("--max-configs=%d" % opt["maxc"])
    for dpiece in (ud.split(";") if ud else []):
        args.append("-D" + dpiece)
    for u in undefs:
        args.append("-U" + u)
    return args


def run_cppcheck(ctx, src, args):
    """run the real cppcheck on the printed file; returns (checked configurations, reported regions, raw)"""
    d = os.path.join(ctx.tmp, "cli%d" % ctx.rng.getrandbits(40))
    os.makedirs(d)
    open(os.path.join(d, "x.c"), "wb").write(src)
    cmd = [ctx.cppcheck, "--template={id}@{line}@{message}", "x.c"] + list(args)
    rc, o, e = core.sh(cmd, cwd=d, timeout=300)
    lr = line_regions(src.decode("latin-1"))
    checked = []
    for l in o.split("\n"):
        m = re.match(r"^Checking x\.c: (.*)\.\.\.$", l)
        if m:
            checked.append(m.group(1))
    regs = set()
    for l in e.split("\n"):
        if l.startswith("arrayIndexOutOfBounds@"):
            m = re.match(r"^arrayIndexOutOfBounds@(\d+)@", l)
            if m and int(m.group(1)) in lr:
                regs.add(lr[int(m.group(1))])
    return checked, regs, (o + e)


def run_cli(ctx, exe, words, args):
    rc, out, err = core.run_lines(exe, [], ["src " + " ".join(words)])
    return run_cppcheck(ctx, core.unhx(out[0]), args)


def cli_cases(ctx, res, exe, drv, todo):
    """todo: list of (tree, opt).  Real cppcheck runs compared with the model's selection loop (fed with the
    implementation's own getConfigs) and the model's conditional-inclusion semantics; P_impl evaluated on each run."""
    words = [flatten(t) for t, _ in todo]
    rc, srcs, err = core.run_lines(exe, [], ["src " + " ".join(w) for w in words])
    gops = [gc_op(w, o.get("ud", ""), o.get("undefs", [])) for w, (_, o) in zip(words, todo)]
    rc, gimpl, err = core.run_lines(exe, [], gops)
    rc, gmodel, err = core.run_lines(drv, [], gops)
    sels = []
    for (t, o), gi in zip(todo, gimpl):
        cfgs, _ = parse_gc(gi)
        sels.append("sel %d %d 0 %s %s" % (1 if o.get("force") else 0, o.get("maxc") or 0, core.hx(o.get("ud", "")), ",".join(core.hx(c) for c in cfgs)))
    rc, smodel, err = core.run_lines(drv, [], sels)
    rc, simpl, err = core.run_lines(exe, [], sels)
    rops = ["reach - %s %s" % (",".join(core.hx(u) for u in o.get("undefs", [])) or "-", " ".join(w)) for w, (_, o) in zip(words, todo)]
    rc, reach_out, err = core.run_lines(drv, [], rops)
    details = []
    for k, (t, opt) in enumerate(todo):
        ud, undefs = opt.get("ud", ""), opt.get("undefs", [])
        args = cli_args(opt)
        checked, regs, raw = run_cppcheck(ctx, core.unhx(srcs[k]), args)
        cfgs, lives = parse_gc(gimpl[k])
        mm = re.match(r"^M (\d+) \| A (\S*)$", smodel[k])
        maxc = int(mm.group(1))
        analysed = [core.unhx(h).decode("latin-1") for h in mm.group(2).split(",")] if mm.group(2) else []
        ok_max = simpl[k] == "M %d" % maxc
        # `Checking x.c: cfg...` is printed for every analysed configuration except an empty first one
        expect_lines = [c for i, c in enumerate(analysed) if c != "" or i > 0]
        # regions the model expects to be reported: live (model semantics) in an analysed configuration.  With
        # maxConfigs <= 1 only the user's configuration is analysed = what the model calls the empty configuration under -D
        mcfgs, mlives = parse_gc(gmodel[k])
        exp_regs = set()
        for c, l in list(zip(mcfgs, mlives))[:(len(analysed) if maxc > 1 else 1)]:
            exp_regs |= l
        canon = "cli %s | %s" % (" ".join(args), " ".join(words[k]))
        same = (checked == expect_lines) and (regs == exp_regs) and ok_max
        res.case(canon, nconds(t) >= 2, dict(tie="cli", args=args, checked=checked, model_analysed=analysed, reported=sorted(regs)) if k % 9 == 0 else None)
        res.count("cli:" + ("force" if opt.get("force") else "max%s" % (opt.get("maxc") or "-")) + (":D" if ud else "") + (":U" if undefs else ""))
        if same:
            res.traces_validated += 1
        else:
            details.append("args=%s checked=%s model=%s reported=%s model=%s getMaxConfigs impl=%s model=%d\n%s" %
                           (args, checked, expect_lines, sorted(regs), sorted(exp_regs), simpl[k], maxc, "\n".join(describe(t))))
        # ---- P_impl on the run itself
        dnames = cfg_names(ud)
        for c in checked:
            ns = cfg_names(c)
            for x in dnames:
                if x not in ns:
                    report(res, "-D%s but the analysed configuration %r does not define it" % (x, c),
                           dict(kind="cli", words=words[k], args=args, checked=checked), None)
            for u in undefs:
                if u in ns and u not in dnames:
                    report(res, "-U%s but the analysed configuration %r defines it" % (u, c),
                           dict(kind="cli", words=words[k], args=args, checked=checked), None)
        if not ud and len(set(macros(t))) == len(macros(t)) and (opt.get("force") or len(cfgs) <= maxc):
            pred = predict(t, undefs=undefs)
            ro = reach_out[k]
            reach = set(int(x) for x in ro[2:].split(".")) if ro.startswith("R ") and ro[2:] not in ("-", "?") else set()
            for r in sorted(reach - regs):
                key = pred.get(r)
                res.count("cli-lost:" + str(key))
                report(res, "planted finding of region R%d is not reported by `cppcheck %s` although the %d configurations fit the budget %d\n%s" %
                       (r, " ".join(args), len(cfgs), maxc, "\n".join(describe(t))),
                       dict(kind="cli", words=words[k], args=args, region=r, checked=checked, classified=key), key)
    return details


def run(ctx, res):
    rng = ctx.rng
    thorough = ctx.tier == "thorough"
    core.prove(ctx, res, MODULES, THEOREMS)
    drv = ctx.driver("drv_c12")
    exe = ctx.harness("c12")
    _reported.clear()
    fl = detect_flags(res)
    FLAGS[:] = fl if fl else [True, False]
    res.extra["fold_variant"] = dict(fixElse=FLAGS[0], fixNotDef=FLAGS[1], recognised=bool(fl))
    # the theorems about "the code" are stated for getConfigs = getConfigsWith Flags.code: the variant found in the source must be that one
    rc, fo, err = core.run_lines(drv, [], ["flags"])
    lean_code = fo[0][2:] if fo and fo[0].startswith("F ") else "?"
    res.oblig("T:fold-variant-is-Flags.code", bool(fl) and flagstr(fl) == lean_code, "translation",
              "" if (fl and flagstr(fl) == lean_code) else
              "the fold in lib/preprocessor.cpp is variant %s, the theorems about getConfigs (every_region_analysed_partial, "
              "every_region_covered_fixElse, ..) are about Flags.code = %s" % (flagstr(fl) if fl else "unrecognised", lean_code))
    res.assumptions = [
        "'the number of guard combinations does not exceed --max-configs' is read as |getConfigs()| <= maxConfigs; length_getConfigs_le bounds it by 1 + 2 * #conditionals",
        "coverage under -U of the tree's own macros and the string-level -U statement for -D combined with --force/--max-configs are decided per run by P_impl (Lean `reach`/`emit` as specification) and the CLI tie, not by a theorem",
        "region labels are pairwise distinct (necessity theorem); no #elif, #error, include guards, library defines, #if expressions other than defined()/!defined()",
    ]

    # ---- corpus first (witnesses of the known findings, past disagreements) ------------------------------------------
    corpus = load_corpus()
    cases = []
    for c in corpus:
        t = c.get("tree")
        cases.append(dict(words=flatten(t) if t else c["words"], ud=c.get("ud", ""), undefs=c.get("undefs", []), tree=t,
                          family=bool(t) and c.get("family", True), origin="corpus"))
    if cases:
        ops, parsed, impl, model = run_gc(ctx, res, exe, drv, cases, "getConfigs-corpus")
        p_impl_inprocess(ctx, res, cases, parsed, impl)
        for c, cc, pr in zip(corpus, cases, parsed):
            if "expect_lost" in c and pr and pr[1] is not None:
                lost = sorted((cc["reach"] if cc.get("undefs") else set(regions(c["tree"]))) - set().union(*pr[1]))
                res.oblig("corpus:%s" % c.get("name", "?"), lost == c["expect_lost"] or not lost, "correspondence",
                          "" if lost == c["expect_lost"] or not lost else "witness now loses %s (recorded %s)" % (lost, c["expect_lost"]))

    # ---- C1: family trees ------------------------------------------------------------------------------
    n_fam = 2500 if thorough else 500
    cases = []
    for i in range(n_fam):
        size = rng.choice([1, 2, 3, 4, 5, 6, 8, 10]) if not thorough else rng.choice([1, 2, 3, 4, 5, 6, 8, 10, 14, 18])
        kinds = rng.choice(["ddnDN", "ddnD", "dn", "dD", "dnDNN"])
        t = family_tree(rng, size, kinds, rng.choice([0.3, 0.5, 0.7])) if i % 8 else twin_tree(rng)
        cases.append(dict(words=flatten(t), tree=t, family=True, origin="family"))
        res.count("conds:%d" % min(nconds(t), 12))
    ops, parsed, impl, model = run_gc(ctx, res, exe, drv, cases, "getConfigs-family")
    p_impl_inprocess(ctx, res, cases, parsed, impl)
    # ---- duplicate-configuration purge: the real hash separates the token lists it is asked to tell apart
    detect_hash_shape(res)
    codes = []
    for c, pr in zip(cases, parsed):
        if pr and pr[1] is not None:
            codes.append(["".join(region_text(r) for r in sorted(l)) for l in pr[1]])
    hash_collisions(ctx, res, exe, codes[:150] if not thorough else codes)
    # the python classifier (known-finding keys) and the Lean predicate `safe` accept the same trees, for every variant
    bad = []
    for fls in ([False, False], [True, False], [True, True]):
        sops = ["safe %s %s" % (flagstr(fls), " ".join(c["words"])) for c in cases]
        rc, so, err = core.run_lines(drv, [], sops, timeout=600)
        for c, o in zip(cases, so):
            mine = "1" if not any(predict(c["tree"], fls).values()) else "0"
            if o != "S " + mine:
                bad.append((flagstr(fls), o, mine, " ".join(c["words"])))
    res.oblig("classifier-equals-lean-safe", not bad, "translation", "" if not bad else "%d differ; first %s" % (len(bad), bad[0]))

    # ---- C1: -D / -U --------------------------------------------------------------------------------------
    cases = []
    for i in range(1200 if thorough else 300):
        t = family_tree(rng, rng.choice([1, 2, 3, 4, 6]))
        ud, undefs = gen_defines(rng, macros(t))
        if rng.random() < 0.3:
            ud = ""
        cases.append(dict(words=flatten(t), tree=t, ud=ud, undefs=undefs, family=True, origin="defines"))
        res.count("ud:%d undefs:%d" % (min(len(ud.split(";")) if ud else 0, 3), len(undefs)))
    ops, parsed, impl, model = run_gc(ctx, res, exe, drv, cases, "getConfigs-D-U")
    p_impl_inprocess(ctx, res, cases, parsed, impl)

    # ---- C1 + P_impl: coverage under -U (macros of the tree itself are undefined by the user) ----------------------------
    cases = []
    for i in range(1500 if thorough else 350):
        t, us = tree_under_U(rng)
        cases.append(dict(words=flatten(t), tree=t, ud="", undefs=us, family=True, origin="under-U"))
        res.count("under-U:undefs=%d" % len(us))
    ops, parsed, impl, model = run_gc(ctx, res, exe, drv, cases, "getConfigs-under-U")
    p_impl_inprocess(ctx, res, cases, parsed, impl)

    # ---- C1: outside the family (repeated macros, #define, malformed nesting) ---------------------------------------
    cases = []
    for i in range(1200 if thorough else 300):
        k = rng.random()
        if k < 0.4:
            names = rng.sample(["A", "B", "C", "AB", CPLUSPLUS], 3)
            t = number(gen_tree(rng, names, [rng.choice([2, 3, 5, 7])], 0, "ddnDN", 0.5, 0.5, repeat=True))
            ud, undefs = (gen_defines(rng, names) if rng.random() < 0.3 else ("", []))
            cases.append(dict(words=flatten(t), tree=t, ud=ud, undefs=undefs, family=False, origin="repeat"))
        elif k < 0.7:
            t = with_defines(rng, family_tree(rng, rng.choice([2, 3, 5])))
            cases.append(dict(words=flatten(t), tree=None, family=False, origin="define"))
        else:
            cases.append(dict(words=malformed(rng), tree=None, family=False, origin="malformed"))
        res.count("outside:" + cases[-1]["origin"])
    ops, parsed, impl, model = run_gc(ctx, res, exe, drv, cases, "getConfigs-outside-family")
    p_impl_inprocess(ctx, res, cases, parsed, impl)

    # ---- C2: selection loop through the real binary ---------------------------------------------------------------------
    n_cli = 160 if thorough else 24
    todo = []
    for i in range(n_cli):
        t = family_tree(rng, rng.choice([1, 2, 3, 4, 5]))
        k = rng.random()
        opt = {}
        if k < 0.35:
            opt["maxc"] = 64
        elif k < 0.5:
            opt["maxc"] = rng.choice([1, 2, 3, 5])
        elif k < 0.6:
            opt["force"] = True
        elif k < 0.7:
            pass                                    # default budget 12
        elif k < 0.85:
            t, us = tree_under_U(rng, rng.choice([2, 3, 4]))
            opt.update(undefs=us, maxc=rng.choice([64, 64, 0]))
            if not opt["maxc"]:
                del opt["maxc"]; opt["force"] = True
        else:
            ud, undefs = gen_defines(rng, macros(t))
            # what cmdlineparser composes from the -D arguments: a piece without `=` gets `=1`
            ud = ";".join((p if "=" in p else p + "=1") for p in ud.split(";") if p and "(" not in p) or "ZZ=1"
            opt.update(ud=ud, undefs=undefs)
            if rng.random() < 0.5:
                opt["maxc"] = rng.choice([2, 64])
            elif rng.random() < 0.3:
                opt["force"] = True
        todo.append((t, opt))
    for i in range(40 if thorough else 8):       # twin regions: sibling branches that are token permutations of each other
        todo.append((twin_tree(rng), dict(maxc=rng.choice([64, 64, 3, 0])) if rng.random() < 0.8 else dict(force=True)))
        if todo[-1][1].get("maxc") == 0:
            todo[-1] = (todo[-1][0], {})
    for c in load_corpus():
        if c.get("tree") and c.get("expect_lost") is not None:
            todo.append((c["tree"], dict(maxc=64, undefs=c.get("undefs", []))))
    details = cli_cases(ctx, res, exe, drv, todo)
    res.oblig("correspondence:cli-selection", not details, "correspondence",
              "" if not details else "%d of %d CLI runs differ from the model; first: %s" % (len(details), len(todo), details[0]))
    res.extra["cli_runs"] = len(todo)


def replay(ctx, res, rp):
    drv = ctx.driver("drv_c12")
    exe = ctx.harness("c12")
    if rp.get("kind") == "hash":
        rc, out, err = core.run_lines(exe, [], ["th " + core.hx(rp["a"]), "th " + core.hx(rp["b"])])
        print("token list A: %s\ntoken list B: %s\ncalculateHash: %s / %s" % (rp["a"], rp["b"], out[0], out[1]))
        fail = out[0] == out[1] and rp["a"].split() != rp["b"].split()
        if fail:
            print("VIOLATION property=C12 replay=(replayed) two different token lists hash equal: the later configuration is purged")
        print("replay: %s" % ("still fails" if fail else "does not fail"))
        return 1 if fail else 0
    words = rp["words"]
    if rp.get("kind") == "cli":
        args = rp.get("args", [])
        checked, regs, raw = run_cli(ctx, exe, words, args)
        print("cppcheck %s\nchecked configurations: %s\nreported regions: %s" % (" ".join(args), checked, sorted(regs)))
        fail = ("region" in rp and rp["region"] not in regs)
        print("replay: %s" % ("still fails" if fail else "does not fail"))
        return 1 if fail else 0
    op = gc_op(words, rp.get("ud", ""), rp.get("undefs", []))
    rc, impl, err = core.run_lines(exe, [], [op, "src " + " ".join(words)])
    rc, model, err = core.run_lines(drv, [], [op])
    print(core.unhx(impl[1]).decode("latin-1"))
    print("options: -D %r -U %r" % (rp.get("ud", ""), rp.get("undefs", [])))
    print("impl : " + impl[0]); print("model: " + model[0])
    cfgs, lives = parse_gc(impl[0])
    print("configurations: %s" % cfgs)
    fail = False
    if "region" in rp and lives is not None:
        fail = not any(rp["region"] in l for l in lives)
        print("region R%d live in: %s" % (rp["region"], [c for c, l in zip(cfgs, lives) if rp["region"] in l]))
    if fail:
        print("VIOLATION property=C12 replay=(replayed) region R%d is live in no configuration" % rp["region"])
    print("replay: %s" % ("still fails" if fail else "does not fail"))
    return 1 if fail else 0

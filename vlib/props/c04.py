"""C04 — definite runtime-error findings are true positives.

Obligations
  theorems  Props/C04.lean, part 1 (Cppcheck.SevDecide): what an error-severity finding of each value-based checker guarantees about
            the value behind it (error_implies_definite + per-checker list-level theorems, counterexample for shiftNegative = F04a),
            trigger conditions are undefined in the MiniC semantics; part 2 (Cppcheck.LeakStraight): the straight-line leak automaton
            reports only events of the concrete execution (leak_reports_sound; counterexample behind a `return` = F04b) and exactly
            those without pointer copies (leak_automaton_exact + counterexample)
  SEV       in-process: the real checkers (harness/c04.cpp, value lists injected on the operand token) vs Cppcheck.SevDecide
  LEAK      CLI: straight-line alloc/free programs (malloc/free, new/delete, new[]/delete[], fopen/fclose) vs Cppcheck.LeakStraight.reports
P_impl      (a) generated UB-free-by-construction C functions (vlib/props/c04_gen.py), confirmed natively under
            -fsanitize=address,undefined: any error-severity finding on one of them is a violation; planted functions (undefined on
            every path): a finding must be matched by a sanitizer report; (b) straight-line alloc/free programs: every error-severity
            leak / doubleFree / deallocuse / deallocret finding must be an event of the reference execution *and* be seen by
            AddressSanitizer / LeakSanitizer in a native run
docs/C04.md describes models, theorems, ties and findings.
"""
import hashlib, json, os, re, shutil, subprocess
from concurrent.futures import ThreadPoolExecutor
from .. import core, build_repo
from . import c04_gen

ID = "C04"
LEVEL = "other"
RULE = ("sev ops = (checker, enabled severities/certainty, value list of 0-4 values with kinds Known/Possible/Inconclusive/Impossible, values "
        "around the checker's trigger threshold, condition / defaultArg / path / errorPath flags); non-trivial = the real checker reported "
        "something. leak programs = random lists of 1-10 statements alloc/free/use/assign/return over 1-3 pointers in four allocation "
        "flavours; non-trivial = at least one finding. UB-free functions = 1-3 gadgets (guarded division, array index, shift, signed "
        "arithmetic, pointer dereference, read of a local, library argument) under random preconditions/wrappers, every function "
        "executed natively under ASan+UBSan on 40 boundary/random argument vectors; non-trivial = the function contains at least one "
        "operation a checker looks at and survived the sanitizers (all do by construction)")
EXPLANATION = ("Proved in Lean for the models: an error-severity finding of zerodiv / arrayIndex / negativeIndex (one index) / shiftTooManyBits / "
               "integerOverflow is backed by a triggering, non-Impossible value without condition and not from a default argument (Known, "
               "Possible or Inconclusive: that is all the code guarantees), nullPointer / uninitvar / invalidFunctionArg by a Known value; "
               "shiftNegative and accesses with several indexes guarantee the same since 4fa5b48 / 43eccce (the bodies as found are kept "
               "as regression counterexamples; the check reads the shape of the two error functions off the source and fails the "
               "translation obligation on any other shape); the straight-line leak automaton is sound w.r.t. a concrete "
               "heap semantics for programs of any length unless code follows a return (counterexample, F04b) and exact when no pointer is "
               "copied. The models cover the grading/selection step and straight-line code only: whether a *reported value* is right is "
               "C01; the end-to-end claim is searched on generated UB-free functions (a finding counts when a tried execution executes the "
               "flagged statement; findings in code no tried execution reaches are listed, not counted), so level other. Outside the model: "
               "lifetime checks, uninitialised struct members, container checks, CTU, conditional control flow in the leak automaton, "
               "Lower/Upper bound values in isOutOfBounds, the syntactic preconditions of each checker.")
THEOREMS = ["Cppcheck.SevDecide.error_implies_definite", "Cppcheck.SevDecide.zerodiv_error_definite",
            "Cppcheck.SevDecide.nullPointer_error_known", "Cppcheck.SevDecide.arrayIndexN_error_definite",
            "Cppcheck.SevDecide.arrayIndex_error_definite", "Cppcheck.SevDecide.arrayIndexN_asFound_counterexample",
            "Cppcheck.SevDecide.shiftTooManyBits_error_definite", "Cppcheck.SevDecide.integerOverflow_error_definite",
            "Cppcheck.SevDecide.uninitvar_error_known", "Cppcheck.SevDecide.invalidFunctionArg_error_known",
            "Cppcheck.SevDecide.shiftNegative_error_definite", "Cppcheck.SevDecide.shiftNegative_asFound_counterexample",
            "Cppcheck.SevDecide.zerodiv_trigger_is_ub", "Cppcheck.SevDecide.shift_trigger_is_ub", "Cppcheck.SevDecide.overflow_trigger_is_ub",
            "Cppcheck.LeakStraight.leak_reports_sound", "Cppcheck.LeakStraight.leak_reports_sound_counterexample",
            "Cppcheck.LeakStraight.clean_program_no_reports", "Cppcheck.LeakStraight.leak_automaton_exact",
            "Cppcheck.LeakStraight.leak_automaton_exact_counterexample", "Cppcheck.LibGroups.loadBlock_registers",
            "Cppcheck.LibGroups.loadBlock_keeps", "Cppcheck.LibGroups.groupFor_joins", "Cppcheck.LibGroups.shared_dealloc_same_group_partial",
            "Cppcheck.LibGroups.groups_not_closure_counterexample"]
MODULES = ["Cppcheck.Props.C04"]

CACHE = os.path.join(core.VERIF, ".build", "cache", "c04")
UB_IDS = {"zerodiv", "nullPointer", "arrayIndexOutOfBounds", "negativeIndex", "shiftTooManyBits", "shiftNegative", "integerOverflow",
          "uninitvar", "invalidFunctionArg"}
LEAK_IDS = {"memleak": "memleak", "resourceLeak": "memleak", "doubleFree": "doubleFree", "deallocuse": "deallocuse", "deallocret": "deallocret"}
WORKERS = 6


def cppcheck_xml(ctx, path, extra=()):
    """-> list of dict(id, severity, inconclusive, line, symbol, msg)"""
    for attempt in range(30):
        try:
            rc, out, err = core.sh([os.environ.get("C04_CPPCHECK") or ctx.cppcheck, "--xml", "-q"] + list(extra) + [path], timeout=300)
            break
        except (PermissionError, FileNotFoundError, OSError):
            import time
            time.sleep(2)        # the shared binary is being relinked by a concurrent check
    else:
        return None
    res = []
    import xml.etree.ElementTree as ET
    try:
        root = ET.fromstring(err[err.index("<?xml"):])
    except (ValueError, ET.ParseError):
        return None
    for e in root.iter("error"):
        locs = [int(l.get("line", "0")) for l in e.findall("location")]
        sym = e.find("symbol")
        res.append(dict(id=e.get("id"), severity=e.get("severity"), inconclusive=e.get("inconclusive") == "true",
                        line=locs[0] if locs else 0, lines=locs, symbol=(sym.text or "") if sym is not None else "", msg=e.get("msg", "")))
    return res


def native_build(src, lang="c", flags=("-fsanitize=address,undefined", "-fno-sanitize-recover=all")):
    """compile a probe once; cached by content under .build/cache/c04"""
    os.makedirs(CACHE, exist_ok=True)
    h = hashlib.sha1((src + lang + " ".join(flags)).encode()).hexdigest()[:20]
    exe = os.path.join(CACHE, h)
    if os.path.exists(exe):
        return exe, ""
    cpath = os.path.join(CACHE, h + (".c" if lang == "c" else ".cpp"))
    open(cpath, "w").write(src)
    cc = ["gcc", "-std=gnu11"] if lang == "c" else ["g++", "-std=gnu++17"]
    rc, out, err = core.sh(cc + ["-O0", "-g0", "-w"] + list(flags) + [cpath, "-o", exe + ".tmp"], timeout=900)
    if rc != 0:
        return None, err
    os.replace(exe + ".tmp", exe)
    os.remove(cpath)
    return exe, ""


def prune_cache(keep=60):
    try:
        fs = sorted((os.path.join(CACHE, f) for f in os.listdir(CACHE)), key=os.path.getmtime)
        for f in fs[:-keep]:
            os.remove(f)
    except OSError:
        pass


# ================================================================================================================
# SEV: the real checkers on injected value lists vs Cppcheck.SevDecide
# ================================================================================================================
def isdigit_valid_range():
    """translator for the one library fact the sev tie needs: <valid> of isdigit's argument in cfg/std.cfg"""
    text = open(os.path.join(core.REPO, "cfg", "std.cfg"), encoding="utf-8").read()
    m = re.search(r'<function name="isdigit,std::isdigit">(.*?)</function>', text, re.S)
    if not m:
        return None
    v = re.search(r"<valid>(-?\d+):(-?\d+)</valid>", m.group(1))
    return (int(v.group(1)), int(v.group(2))) if v else None


def shiftneg_variant():
    """which variant of CheckOther::negativeBitwiseShiftError the working tree has: '0' = `Severity::error` always (as found, F04a),
    '1' = graded by value->errorSeverity() (proposed/C04-shiftnegative-severity.diff); None = unrecognised shape (fail closed)"""
    text = open(os.path.join(core.REPO, "lib", "checkother.cpp"), encoding="utf-8").read()
    m = re.search(r"void CheckOther::negativeBitwiseShiftError\(([^)]*)\)\s*\{(.*?)\n\}", text, re.S)
    if not m:
        return None
    body = re.sub(r"//[^\n]*", "", m.group(2))
    reps = re.findall(r"reportError\(tok,\s*(.*?),\s*\"(shiftNegative\w*)\"", body, re.S)
    if sorted(r[1] for r in reps) != ["shiftNegative", "shiftNegativeLHS"]:
        return None
    sev = dict((r[1], re.sub(r"\s+", " ", r[0]).strip()) for r in reps)
    if sev["shiftNegativeLHS"] != "Severity::portability":
        return None
    if sev["shiftNegative"] == "Severity::error":
        return "0"
    if sev["shiftNegative"] == "(!value || value->errorSeverity()) ? Severity::error : Severity::warning":
        # ec2c7f5: the call site gates the picked value with Settings::isEnabled(value, false)
        c = re.search(r"void CheckOther::checkNegativeBitwiseShift\(\)\s*\{(.*?)\n\}", text, re.S)
        site = re.sub(r"\s+", " ", re.sub(r"//[^\n]*", "", c.group(1))) if c else ""
        want = ("if (portability && getNegativeValue(tok->astOperand1(), *mSettings)) negativeBitwiseShiftError(tok, 1); "
                "else if (const ValueFlow::Value *value = getNegativeValue(tok->astOperand2(), *mSettings)) { "
                "if (mSettings->isEnabled(value, false)) negativeBitwiseShiftError(tok, 2, value); }")
        return "1" if want in site else None
    return None


def indexvec_variant():
    """which variant of CheckBufferOverrun::arrayIndexError / negativeIndexError the tree has: '0' = severity and id from the single value
    `index` (as found, F04c), '1' = proposed/C04-index-vector-severity.diff; None = unrecognised shape"""
    text = open(os.path.join(core.REPO, "lib", "checkbufferoverrun.cpp"), encoding="utf-8").read()
    got = []
    for fn, var in (("arrayIndexError", "index"), ("negativeIndexError", "negativeValue")):
        m = re.search(r"void CheckBufferOverrun::%s\(([^)]*)\)\s*\{(.*?)\n\}" % fn, text, re.S)
        if not m:
            return None
        body = re.sub(r"//[^\n]*", "", m.group(2))
        loop = re.search(r"for \(const ValueFlow::Value& indexValue : indexes\) \{(.*?)\n    \}", body, re.S)
        rep = re.search(r"reportError\(getErrorPath\(tok, %s, \"[^\"]*\"\),\s*(.*?) \? Severity::error : Severity::warning,\s*(.*?),\s*arrayIndexMessage" % var, body, re.S)
        if not loop or not rep:
            return None
        stmts = [re.sub(r"\s+", " ", x).strip() for x in loop.group(1).split(";") if x.strip()]
        base = ["if (!indexValue.errorSeverity() && !mSettings->severity.isEnabled(Severity::warning)) return",
                "if (indexValue.condition) condition = indexValue.condition",
                "if (!%s || !indexValue.errorPath.empty()) %s = &indexValue" % (var, var)]
        idexpr = re.sub(r"\s+", " ", rep.group(2)).strip()
        if stmts == base and rep.group(1).strip() == "%s->errorSeverity()" % var and \
                idexpr in ('index->condition ? "arrayIndexOutOfBoundsCond" : "arrayIndexOutOfBounds"', '"negativeIndex"'):
            got.append("0")
        elif stmts == base[:1] + ["errorSeverity = errorSeverity && indexValue.errorSeverity()"] + base[1:] and rep.group(1).strip() == "errorSeverity" and \
                idexpr in ('condition ? "arrayIndexOutOfBoundsCond" : "arrayIndexOutOfBounds"', '"negativeIndex"'):
            got.append("1")
        else:
            return None
    return got[0] if got[0] == got[1] else None


def gen_value(rng, checker, around):
    kind = rng.choice("KKPPPNI")
    vt = "i"
    if checker == "uninit":
        vt = rng.choice("uuui")
    elif rng.random() < 0.08:
        vt = rng.choice("uo")
    iv = rng.choice(around) if rng.random() < 0.8 else rng.randrange(-5, 70)
    fl = ""
    if rng.random() < 0.3: fl += "c"
    if rng.random() < 0.15: fl += "d"
    if rng.random() < 0.2: fl += "e"
    if rng.random() < 0.08: fl += "s"
    if checker == "nullptr" and rng.random() < 0.2: fl += rng.choice("mr")
    if rng.random() < 0.15: fl += "p%d" % rng.choice([0, 1, 2])
    if checker == "uninit" and rng.random() < 0.25: fl += "x" + rng.choice(["0", "1", "2", "~1"])
    return "%s%s,%d,%s" % (kind, vt, iv, fl or "-")


def sev_ops(rng, n, valid):
    ops = []
    checkers = ["zerodiv", "nullptr", "arrayidx", "arrayidx2", "arrayidx2", "shiftbits", "shiftneg", "intoverflow", "uninit", "invalidarg"]
    for _ in range(n):
        c = rng.choice(checkers)
        opts = "".join(rng.choice("01") for _ in range(3))
        cpp = "0"
        param, around = "-", [0]
        if c == "zerodiv":
            around = [0, 0, 0, 1, -1]
        elif c == "nullptr":
            around = [0, 0, 0, 1]
        elif c == "arrayidx":
            size = rng.choice([1, 2, 10, 16])
            param = str(size)
            around = [size - 1, size, size, size + 1, -1, -1, 0, -2, 100]
        elif c == "arrayidx2":
            d1, d2 = rng.choice([1, 2, 3]), rng.choice([2, 3, 10])
            param = "%dx%d" % (d1, d2)
            around = [d1 - 1, d1, d2 - 1, d2, d2 + 1, -1, 0, 1]
        elif c == "shiftbits":
            param = rng.choice("su")
            cpp = rng.choice("001")
            around = [30, 31, 31, 32, 32, 33, 64, 0, -1]
        elif c == "shiftneg":
            param = rng.choice("su") + rng.choice("ssu")
            around = [-1, -1, -2, 0, 1]
        elif c == "intoverflow":
            param = rng.choice(["+", "+", "*", "<<", "<<"])
            around = [2 ** 31 - 1, 2 ** 31, 2 ** 31 + 1, -2 ** 31, -2 ** 31 - 1, -2 ** 31 - 2, 2 ** 32 - 1, 2 ** 32, 2 ** 32 + 5, 7, 0]
        elif c == "uninit":
            around = [0]
        elif c == "invalidarg":
            param = "%d:%d" % valid
            around = [valid[0] - 1, valid[0], valid[1], valid[1] + 1, valid[1] + 1, 300, -1, 5]
        l1 = [gen_value(rng, c, around) for _ in range(rng.choice([0, 1, 1, 2, 2, 3, 4]))]
        line = "sev %s %s%s %s %s" % (c, opts, cpp, param, " ".join(l1) if l1 else "-")
        if c in ("shiftneg", "arrayidx2"):
            l2 = [gen_value(rng, c, around) for _ in range(rng.choice([0, 1, 1, 2, 3]))]
            line += " / " + (" ".join(l2) if l2 else "-")
        ops.append(line)
    return ops


def triggers(checker, param, pos, id_, iv, valid):
    """does the int value `iv` of the operand at list position `pos` make the flagged operation undefined?"""
    if checker in ("zerodiv", "nullptr"):
        return iv == 0
    if checker == "arrayidx":
        return iv >= int(param) or iv <= -1
    if checker == "arrayidx2":
        return iv >= int(param.split("x")[pos]) or iv <= -1
    if checker == "shiftbits":
        return iv >= (32 if id_ == "shiftTooManyBits" else 31)
    if checker == "shiftneg":
        return pos == 1 and iv <= -1
    if checker == "intoverflow":
        return iv > 2 ** 31 - 1 or iv < -2 ** 31
    if checker == "invalidarg":
        return not (valid[0] <= iv <= valid[1])
    return True


def p_impl_sev(res, ops, impl, valid=(0, 255)):
    """P_impl on the implementation's own answers: behind an error-severity report there must be a value of the operand that triggers
    the checker and is definite: not Impossible, no condition, not a default argument (Known where the checker demands it)"""
    for op, out in zip(ops, impl):
        if out in ("-", "bad-op") or out.startswith("err"):
            continue
        f = op.split()
        checker, param = f[1], f[3]
        lists, cur = [[]], 0
        for w in f[4:]:
            if w == "/":
                lists.append([])
            elif w != "-":
                lists[-1].append(w)
        for rep in out.split(";"):
            id_, sev, cert = rep.split("/")
            res.count("sev:%s:%s" % (id_, sev))
            if sev != "error":
                continue
            def definite(w, pos):
                kt, iv, fl = w.split(",")
                if checker == "uninit":
                    return kt[1] == "u" and kt[0] == "K"
                ok = kt[0] != "I" and kt[1] == "i" and "c" not in fl and "d" not in fl and triggers(checker, param, pos, id_, int(iv), valid)
                if checker in ("nullptr", "invalidarg"):
                    ok = ok and kt[0] == "K"
                return ok
            if not any(definite(w, pos) for pos, l in enumerate(lists) for w in l):
                key = None
                res.violation("%s reports %s with severity error although no value of the operand is both out of range and definite (no "
                              "condition, no default argument, not Impossible%s): %s" % (checker, id_, ", Known" if checker in ("nullptr", "invalidarg", "uninit") else "", op),
                              dict(kind="sev", op=op, impl=out, key=key), concrete=True, key=key)


def run_sev(ctx, res, drv, exe, n):
    valid = isdigit_valid_range()
    if not res.oblig("translate:isdigit-valid-range", valid is not None, "translation",
                     "" if valid else "cfg/std.cfg: <function name=\"isdigit,std::isdigit\"> has no <valid>lo:hi</valid>"):
        return
    # the model is the repaired code (4fa5b48, 43eccce); the shape as found, or any other shape, leaves the obligation undischarged
    v1, v2 = shiftneg_variant(), indexvec_variant()
    ok1 = res.oblig("translate:negativeBitwiseShiftError-graded-by-errorSeverity", v1 == "1", "translation",
                    "" if v1 == "1" else "lib/checkother.cpp: checkNegativeBitwiseShift / negativeBitwiseShiftError do not gate the shift count with "
                    "isEnabled(value, false) and grade it with value->errorSeverity() (%s)" % ("it reports Severity::error unconditionally again: F04a" if v1 == "0" else "unrecognised shape"))
    ok2 = res.oblig("translate:arrayIndexError-grades-every-index-value", v2 == "1", "translation",
                    "" if v2 == "1" else "lib/checkbufferoverrun.cpp: arrayIndexError / negativeIndexError do not grade by every index value "
                    "(%s)" % ("severity and id come from the single value `index` again: F04c" if v2 == "0" else "unrecognised shape"))
    corpus = load_corpus().get("sev", [])
    def four(op):
        f = op.split()
        f[2] = f[2][:4]
        return " ".join(f)
    ops = [four(c["op"].replace("@VALID@", "%d:%d" % valid)) for c in corpus] + sev_ops(ctx.rng, n, valid)
    rc, impl, err = core.run_lines(exe, [os.path.join(core.REPO, "cfg", "std.cfg")], ops)
    rc2, model, err2 = core.run_lines(drv, [], ops)
    core.correspond(ctx, res, "sev", ops, impl, model, nontrivial=lambda op, out: out not in ("-", "bad-op") and not out.startswith("err"))
    if len(impl) == len(ops):
        bad = [o for o in impl if o.startswith("err") or o == "bad-op"]
        res.oblig("sev:harness-answers", not bad, "machinery", "" if not bad else "harness answered %s" % bad[0])
        p_impl_sev(res, ops, impl, valid)


# ================================================================================================================
# LEAK: straight-line alloc/free programs
# ================================================================================================================
FLAVORS = {
    "malloc": dict(ty="char", alloc="malloc(10)", free="free(p%s);", use="*p%s = 1;", inc="#include <stdlib.h>\n", lang="c"),
    "new": dict(ty="char", alloc="new char", free="delete p%s;", use="*p%s = 1;", inc="#include <stdlib.h>\n", lang="cpp"),
    "newarr": dict(ty="char", alloc="new char[10]", free="delete [] p%s;", use="p%s[1] = 1;", inc="#include <stdlib.h>\n", lang="cpp"),
    "fopen": dict(ty="FILE", alloc='fopen("/dev/null", "w")', free="fclose(p%s);", use="fputc(97, p%s);", inc="#include <stdio.h>\n", lang="c"),
}


def gen_leak(rng, safe=False):
    nv = rng.choice([1, 2, 2, 3])
    n = rng.choice([1, 2, 3, 4, 5, 6, 8, 10])
    ops, defined = [], set()
    for i in range(n):
        k = rng.random()
        x, y = rng.randrange(nv), rng.randrange(nv)
        if safe:
            # def-before-use: no read of an uninitialised pointer, nothing behind a return
            if not defined or k < 0.3:
                ops.append("a%d" % x); defined.add(x)
            elif k < 0.55:
                ops.append("f%d" % rng.choice(sorted(defined)))
            elif k < 0.7:
                ops.append("u%d" % rng.choice(sorted(defined)))
            elif k < 0.85:
                y = rng.choice(sorted(defined))
                ops.append("s%d,%d" % (x, y)); defined.add(x)
            else:
                ops.append("a%d" % x); defined.add(x)
        else:
            if k < 0.3: ops.append("a%d" % x)
            elif k < 0.55: ops.append("f%d" % x)
            elif k < 0.7: ops.append("u%d" % x)
            elif k < 0.85: ops.append("s%d,%d" % (x, y))
            elif k < 0.93: ops.append("r%d" % x)
            else: ops.append("z")
    if safe:
        # the function always returns a value (the native caller uses it), and only as its last statement
        ops.append("r%d" % rng.choice(sorted(defined)) if defined and rng.random() < 0.6 else "z")
    return ops


def leak_nvars(ops):
    m = 0
    for o in ops:
        for v in re.findall(r"\d+", o):
            m = max(m, int(v) + 1)
    return m


def leak_stmt(o, fl):
    if o[0] == "a": return "p%s = %s;" % (o[1:], fl["alloc"])
    if o[0] == "f": return fl["free"] % o[1:]
    if o[0] == "u": return fl["use"] % o[1:]
    if o[0] == "s":
        x, y = o[1:].split(",")
        return "p%s = p%s;" % (x, y)
    if o[0] == "r": return "return p%s;" % o[1:]
    return "return 0;"


def leak_function(ops, flavor, name):
    """one statement per line; statement k (0-based) stands on line 3 + k of the function, the closing brace on 3 + len(ops)"""
    fl = FLAVORS[flavor]
    nv = leak_nvars(ops)
    lines = ["%s *%s(void)" % (fl["ty"], name), "{", "    " + (" ".join("%s *p%d;" % (fl["ty"], i) for i in range(nv)) or ";")]
    lines += ["    " + leak_stmt(o, fl) for o in ops]
    lines.append("}")
    return "\n".join(lines) + "\n"


def leak_findings(ctx, progs, flavor, tmpdir, tag):
    """run cppcheck on files of 20 functions each; -> per program list of 'kind:var@pos' (report order) + other findings"""
    fl = FLAVORS[flavor]
    chunks = [progs[i:i + 20] for i in range(0, len(progs), 20)]
    def one(ci):
        part = chunks[ci]
        text, starts = fl["inc"], []
        for k, ops in enumerate(part):
            starts.append(text.count("\n") + 1)
            text += leak_function(ops, flavor, "f%d" % k) + "\n"
        path = os.path.join(tmpdir, "%s_%s_%d.%s" % (tag, flavor, ci, fl["lang"]))
        open(path, "w").write(text)
        fs = cppcheck_xml(ctx, path)
        out = []
        for k, ops in enumerate(part):
            lo, hi = starts[k], starts[k] + 3 + len(ops)
            mine = [f for f in (fs or []) if lo <= f["line"] <= hi]
            got = ["%s:%s@%d" % (LEAK_IDS[f["id"]], f["symbol"][1:], f["line"] - lo - 3) for f in mine if f["id"] in LEAK_IDS]
            out.append((";".join(got) if got else "-", [f for f in mine if f["id"] in LEAK_IDS], fs is None))
        return out
    with ThreadPoolExecutor(WORKERS) as ex:
        parts = list(ex.map(one, range(len(chunks))))
    return [x for p in parts for x in p]


def run_leak_corr(ctx, res, drv, n_per_flavor):
    d = os.path.join(ctx.tmp, "leak")
    os.makedirs(d, exist_ok=True)
    corpus = [c["ops"].split() for c in load_corpus().get("leak", [])]
    ops_all, impl_all = [], []
    for flavor in FLAVORS:
        progs = corpus + [gen_leak(ctx.rng) for _ in range(n_per_flavor)]
        got = leak_findings(ctx, progs, flavor, d, "corr")
        if any(g[2] for g in got):
            res.oblig("leak:cppcheck-runs", False, "machinery", "cppcheck could not be executed")
            return
        for ops, g in zip(progs, got):
            ops_all.append("leak " + " ".join(ops) + " #" + flavor)
            impl_all.append(g[0])
            res.count("leak-flavor:" + flavor)
    rc, model, err = core.run_lines(drv, [], [o.split(" #")[0] for o in ops_all])
    core.correspond(ctx, res, "leak", ops_all, impl_all, model, nontrivial=lambda op, out: out != "-")


LEAK_MAIN = r"""
/* LeakSanitizer scans the stack conservatively: wipe the dead frames of the function under test before the process exits */
static void __attribute__((noinline)) wipe_stack(void)
{
    volatile char buf[16384];
    unsigned i;
    for (i = 0; i < sizeof(buf); i++) buf[i] = 0;
}
int main(int argc, char **argv)
{
    int k = atoi(argv[1]);
    TYPE *r = 0;
    switch (k) {
CASES
    }
    if (r) { USE_R FREE_R }
    r = 0;
    wipe_stack();
    return 0;
}
"""


def run_leak_pimpl(ctx, res, drv, n):
    """error-severity leak findings on def-before-use programs: each must be an event of the reference execution and must be seen by
    ASan / LSan in a native run of the same function (malloc/free flavour natively; the other flavours against the oracle)"""
    d = os.path.join(ctx.tmp, "leakp")
    os.makedirs(d, exist_ok=True)
    wit = [c["ops"].split() for c in load_corpus().get("leak_pimpl", [])]
    progs = wit + [gen_leak(ctx.rng, safe=True) for _ in range(n)]
    rc, oracle, err = core.run_lines(drv, [], ["oracle " + " ".join(p) for p in progs])
    if len(oracle) != len(progs):
        res.oblig("leakp:driver", False, "machinery", "driver answered %d lines for %d programs" % (len(oracle), len(progs)))
        return
    # native: one translation unit, one process per function
    native = None
    if shutil.which("gcc"):
        src = "#include <stdlib.h>\n#include <stdio.h>\n"
        for k, p in enumerate(progs):
            src += leak_function(p, "malloc", "f%d" % k)
        cases = "\n".join("    case %d: r = f%d(); break;" % (k, k) for k in range(len(progs)))
        src += LEAK_MAIN.replace("TYPE", "char").replace("CASES", cases).replace("USE_R", "r[0] = 1;").replace("FREE_R", "free(r);")
        exe, log = native_build(src, "c", ("-fsanitize=address", "-fno-omit-frame-pointer"))
        if exe is None:
            res.oblig("leakp:native-build", False, "machinery", log[-1500:])
        else:
            def runk(k):
                rc, out, err = core.sh([exe, str(k)], timeout=900, env={"ASAN_OPTIONS": "detect_leaks=1:exitcode=23", "LSAN_OPTIONS": "exitcode=23"})
                kinds = set()
                if "attempting double-free" in err: kinds.add("doubleFree")
                if "heap-use-after-free" in err: kinds.add("useafterfree")
                if "detected memory leaks" in err: kinds.add("memleak")
                return rc, kinds
            with ThreadPoolExecutor(WORKERS) as ex:
                native = list(ex.map(runk, range(len(progs))))
    else:
        res.notes.append("gcc not available: leak findings not cross-checked natively")
    for flavor in (["malloc", "new", "fopen", "newarr"] if ctx.tier == "thorough" else ["malloc", "fopen"]):
        got = leak_findings(ctx, progs, flavor, d, "pimpl")
        for k, (p, g) in enumerate(zip(progs, got)):
            ev = set(oracle[k].split(";")) if oracle[k] != "-" else set()
            reps = g[0].split(";") if g[0] != "-" else []
            for rep in reps:
                res.count("leak-finding:" + rep.split(":")[0])
                if rep not in ev:
                    key = classify_leak(p, rep)
                    res.violation("%s flavour: cppcheck reports %s (error) on a straight-line function whose execution has no such event "
                                  "(reference execution: %s)\n%s" % (flavor, rep, oracle[k], leak_function(p, flavor, "f")),
                                  dict(kind="leak", flavor=flavor, ops=" ".join(p), finding=rep, oracle=oracle[k], key=key), concrete=True, key=key)
                elif native is not None and flavor == "malloc":
                    # the native run stops at the first AddressSanitizer report (a later leak is then not printed): the finding is
                    # confirmed when the run of this function is not clean, refuted when it is
                    if native[k][0] == 0:
                        res.violation("cppcheck reports %s on a function that AddressSanitizer/LeakSanitizer run clean\n%s" % (rep, leak_function(p, "malloc", "f")),
                                      dict(kind="leak-native", ops=" ".join(p), finding=rep, native=sorted(native[k][1])), concrete=True, key=None)
                    else:
                        res.traces_validated += 1
            res.case("leakp|%s|%s" % (flavor, " ".join(p)), bool(reps), dict(tie="leak-p_impl", flavor=flavor, ops=" ".join(p), findings=g[0], oracle=oracle[k]) if len(res.samples) < 11 and reps else None)
    if native is not None:
        # the reference semantics itself against the sanitizers: clean oracle <=> clean native run (malloc flavour)
        bad = []
        for k, p in enumerate(progs):
            ev = [e for e in (oracle[k].split(";") if oracle[k] != "-" else [])]
            if (not ev) != (native[k][0] == 0):
                bad.append("%s: oracle %s, native rc=%d %s" % (" ".join(p), oracle[k], native[k][0], sorted(native[k][1])))
        res.oblig("spec:leak-oracle-agrees-with-asan-lsan", not bad, "validation", "" if not bad else "%d programs differ; first: %s" % (len(bad), bad[0]))
        res.extra["leak_native_runs"] = len(progs)


def classify_leak(ops, rep):
    """F04b: the finding sits on a statement behind a return statement"""
    m = re.match(r"(\w+):(\d+)@(\d+)$", rep)
    if not m:
        return None
    pos = int(m.group(3))
    if any(o[0] in "rz" for o in ops[:pos]):
        return "leak-finding-in-dead-code-behind-return"
    return None


# ================================================================================================================
# UB-free functions (and planted ones) through the CLI, confirmed natively
# ================================================================================================================
UB_MAIN = r"""
int main(int argc, char **argv)
{
    int k = atoi(argv[1]);
    int i;
    setvbuf(stdout, NULL, _IONBF, 0);
    for (i = 2; i + 2 < argc; i += 3) {
        int a = (int)strtol(argv[i], 0, 10), b = (int)strtol(argv[i + 1], 0, 10), c = (int)strtol(argv[i + 2], 0, 10);
        printf("ARGS %d %d %d\n", a, b, c);
        switch (k) {
CASES
        }
    }
    printf("DONE\n");
    return 0;
}
"""


def run_ubfree(ctx, res, n_safe, n_planted, nargs, cli_opts):
    rng = ctx.rng
    d = os.path.join(ctx.tmp, "ub")
    os.makedirs(d, exist_ok=True)
    fns = []
    for c in load_corpus().get("programs", []):
        fns.append(dict(name="f%d" % len(fns), text=c["text"].replace("@NAME@", "f%d" % len(fns)), kinds=["corpus"], consts=c.get("consts", []),
                        planted=c.get("planted"), expect=c.get("expect"), opts=c.get("opts"), corpus=c["name"]))
    for _ in range(n_safe):
        fns.append(c04_gen.make_function(rng, "f%d" % len(fns)))
    for _ in range(n_planted):
        fns.append(c04_gen.make_function(rng, "f%d" % len(fns), planted=True))
    # ---- native: sanitizers decide whether a function is UB-free on the tried argument vectors ----------------------------------
    native = {}
    if shutil.which("gcc"):
        src = c04_gen.PRELUDE + "".join(f["text"] + "\n" for f in fns)
        cases = "\n".join("        case %d: f%d(a, b, c); break;" % (k, k) for k in range(len(fns)))
        src += UB_MAIN.replace("CASES", cases)
        exe, log = native_build(src, "c")
        if exe is None:
            res.oblig("ub:native-build", False, "machinery", log[-2000:])
            return
        vecs = [c04_gen.arg_vectors(rng, f, nargs) for f in fns]
        def runk(k):
            args = [str(x) for t in vecs[k] for x in t]
            rc, out, err = core.sh([exe, str(k)] + args, timeout=900, env={"ASAN_OPTIONS": "detect_leaks=0", "UBSAN_OPTIONS": "print_stacktrace=0"})
            last = [l for l in out.split("\n") if l.startswith("ARGS")]
            what = ""
            m = re.search(r"runtime error: ([^\n]*)", err) or re.search(r"AddressSanitizer: ([\w-]+)", err)
            if m:
                what = m.group(1)
            elif "MemorySanitizer" in err:
                what = "msan"
            return dict(ok=(rc == 0 and "DONE" in out), rc=rc, what=what, at=last[-1] if last else "")
        with ThreadPoolExecutor(WORKERS) as ex:
            for k, r in enumerate(ex.map(runk, range(len(fns)))):
                native[k] = r
        # uninitialised reads are invisible to ASan/UBSan: a second build with -Wall -O2 is not a proof either; valgrind/MSan are not
        # available for gcc, so uninit gadgets rely on construction + the corpus (docs/C04.md)
    else:
        res.oblig("ub:gcc-available", False, "machinery", "gcc is needed to confirm UB-freedom of the generated functions")
        return
    # ---- cppcheck ---------------------------------------------------------------------------------------------------------------
    chunks = [list(range(i, min(i + 15, len(fns)))) for i in range(0, len(fns), 15)]
    def one(ci):
        text, starts = c04_gen.PRELUDE, {}
        for k in chunks[ci]:
            starts[k] = text.count("\n") + 1
            text += fns[k]["text"] + "\n"
        out = {}
        for oi, opts in enumerate(cli_opts):
            path = os.path.join(d, "u%d_%d.c" % (ci, oi))
            open(path, "w").write(text)
            fs = cppcheck_xml(ctx, path, opts)
            for k in chunks[ci]:
                lo, hi = starts[k], starts[k] + fns[k]["text"].count("\n")
                out.setdefault(k, []).append((opts, None if fs is None else [f for f in fs if lo <= f["line"] < hi], lo))
        return out
    with ThreadPoolExecutor(WORKERS) as ex:
        parts = list(ex.map(one, range(len(chunks))))
    results = {}
    for p in parts:
        results.update(p)
    discarded = 0
    flagged = {}        # k -> [(opts, finding, lo)] for UB-free functions with error-severity findings
    for k, f in enumerate(fns):
        nat = native[k]
        runs = results.get(k, [])
        if any(fs is None for (_, fs, _) in runs):
            res.oblig("ub:cppcheck-runs", False, "machinery", "cppcheck could not be executed")
            return
        errs = []
        for (opts, fs, lo) in runs:
            for x in fs:
                res.count("finding:%s:%s" % (x["id"], x["severity"]))
                if x["severity"] == "error":
                    errs.append((tuple(opts), x, lo))
        if f["planted"]:
            res.count("planted:%s:%s" % (f["planted"], "found" if any(x["id"] == f["planted"] for (_, x, _) in errs) else "found-under-another-id" if errs else "missed"))
            # consistency: a function that is undefined on every path must not run clean (uninitvar / invalidFunctionArg are invisible to the sanitizers)
            if nat["ok"] and f["planted"] not in ("uninitvar", "invalidFunctionArg"):
                res.oblig("ub:planted-bug-seen-natively", False, "validation", "planted %s ran clean under the sanitizers:\n%s" % (f["planted"], f["text"]))
            res.case("planted|" + f["text"], bool(errs), None)
            res.traces_validated += 1 if errs and not nat["ok"] else 0
            continue
        if not nat["ok"]:
            # generator bug (or a corpus program that is not UB-free): not a statement about cppcheck
            discarded += 1
            res.count("generator-discarded:" + (nat["what"][:40] or "rc=%d" % nat["rc"]))
            if f.get("corpus"):
                res.oblig("ub:corpus-program-ub-free", False, "validation", "%s: %s at %s" % (f["corpus"], nat["what"], nat["at"]))
            continue
        if errs:
            flagged[k] = errs
        for kd in set(f["kinds"]):
            res.count("gadget:" + kd)
        res.case("ubfree|" + f["text"], True, dict(tie="ubfree", text=f["text"][:500], error_findings=len(errs)) if len(res.samples) < 12 and k % 37 == 0 else None)
        res.traces_validated += 1
    # ---- which flagged statements does a UB-free execution evaluate?  (the property speaks about evaluated expressions) -------------
    executed = line_coverage(ctx, fns, sorted(flagged), vecs, d) if flagged else {}
    for k, errs in flagged.items():
        f = fns[k]
        seen = set()
        for (opts, x, lo) in errs:
            sig = (x["id"], x["line"] - lo, x["msg"])
            if sig in seen:
                continue
            seen.add(sig)
            if executed is None:
                res.oblig("ub:line-coverage", False, "machinery", "gcov run failed")
                return
            if (x["line"] - lo) not in executed.get(k, set()):
                # reported for a statement that none of the tried executions reaches: outside the property's claim (counted, listed in the evidence)
                res.count("error-finding-on-statement-no-tried-execution-reaches:" + x["id"])
                if len(res.extra.setdefault("findings_on_unreached_statements", [])) < 12:
                    res.extra["findings_on_unreached_statements"].append(dict(id=x["id"], line=x["line"] - lo + 1, text=f["text"]))
                continue
            key = classify_ub(f, x, lo)
            for ex_ in f.get("expect") or []:
                if ex_["id"] == x["id"]:
                    key = ex_["key"]
            res.violation("cppcheck %s reports %s (error%s) at line %d of a function that is free of undefined behaviour by construction "
                          "(ASan+UBSan clean on %d argument vectors, the flagged statement is executed): %s\n%s" %
                          (" ".join(opts), x["id"], ", inconclusive" if x["inconclusive"] else "", x["line"] - lo + 1, nargs, x["msg"], f["text"]),
                          dict(kind="ubfree", text=f["text"].replace(f["name"] + "(", "@NAME@(", 1), opts=list(opts), finding=dict(id=x["id"], line=x["line"] - lo, msg=x["msg"]),
                               consts=f["consts"], key=key), concrete=True, key=key)
    res.extra["ubfree_functions"] = res.extra.get("ubfree_functions", 0) + len(fns) - discarded
    res.extra["generator_discarded"] = res.extra.get("generator_discarded", 0) + discarded
    res.oblig("ub:generator-is-ub-free", discarded <= max(2, len(fns) // 50), "validation",
              "" if discarded <= max(2, len(fns) // 50) else "%d of %d generated functions were rejected by the sanitizers" % (discarded, len(fns)))


# ================================================================================================================
# allocation groups (Library::load) and the leak tie under generated user libraries
# ================================================================================================================
GROUP_LOOP_SHAPE = ('int allocationId = 0; for (const tinyxml2::XMLElement *memorynode = node->FirstChildElement(); memorynode; memorynode = '
                    'memorynode->NextSiblingElement()) { if (strcmp(memorynode->Name(),"dealloc")==0) { const auto names = getnames(memorynode->GetText()); '
                    'for (const auto& n : names) { const auto it = utils::as_const(mData->mDealloc).find(n); if (it != mData->mDealloc.end()) { '
                    'allocationId = it->second.groupId; break; } } if (allocationId != 0) break; } } if (allocationId == 0) { if (nodename == "memory") { '
                    'while (!ismemory(++mData->mAllocId)) {} } else { while (!isresource(++mData->mAllocId)) {} } allocationId = mData->mAllocId; }')
GROUP_DEALLOC_SHAPE = ('} else if (memorynodename == "dealloc") { AllocFunc temp; temp.groupId = allocationId; temp.arg = memorynode->IntAttribute("arg", 1); '
                       'for (const auto& n : names) mData->mDealloc[n] = temp;')


def group_loop_problem():
    """translator: the group-id lookup of Library::load (<memory> / <resource>) has the shape Cppcheck.LibGroups copies; '' = yes"""
    t = open(os.path.join(core.REPO, "lib", "library.cpp"), encoding="utf-8").read()
    try:
        a = t.index("            // get allocationId to use..")
        b = t.index("            // add alloc/dealloc/use functions..")
        c = t.index('                } else if (memorynodename == "dealloc") {')
        d = t.index('                } else if (memorynodename == "use")')
    except ValueError:
        return "lib/library.cpp: the <memory>/<resource> block of Library::load is not found"
    got = re.sub(r"\s+", " ", re.sub(r"//[^\n]*", "", t[a:b])).strip()
    if got != GROUP_LOOP_SHAPE:
        k = next((i for i in range(min(len(got), len(GROUP_LOOP_SHAPE))) if got[i] != GROUP_LOOP_SHAPE[i]), min(len(got), len(GROUP_LOOP_SHAPE)))
        return "Library::load: the allocationId lookup differs from the modelled loop at `%s` (modelled: `%s`)" % (got[k:k + 90], GROUP_LOOP_SHAPE[k:k + 90])
    if re.sub(r"\s+", " ", t[c:d]).strip() != GROUP_DEALLOC_SHAPE:
        return "Library::load: the registration of <dealloc> names differs from the modelled one"
    return ""


def cfg_blocks(path):
    """<memory>/<resource> blocks of a library file in document order -> [dict(resource, allocs, deallocs=[[names]..])]"""
    import xml.etree.ElementTree as ET
    def names(t):
        return [x.strip() for x in (t or "").split(",") if x.strip()]
    out = []
    for node in ET.parse(path).getroot():
        if node.tag in ("memory", "resource"):
            out.append(dict(resource=node.tag == "resource", allocs=[n for e in node if e.tag == "alloc" for n in names(e.text)],
                            deallocs=[names(e.text) for e in node if e.tag == "dealloc"]))
    return out


def blocks_wire(blocks):
    return " ".join("%s;%s;%s" % ("r" if b["resource"] else "m", ",".join(b["allocs"]) or "-", "|".join(",".join(d) for d in b["deallocs"])) for b in blocks)


def closure_groups(blocks):
    """the specification: functions declared in one block, or in blocks that share a deallocator name, belong together (union-find)"""
    parent = {}
    def find(x):
        parent.setdefault(x, x)
        while parent[x] != x:
            parent[x] = parent[parent[x]]
            x = parent[x]
        return x
    for b in blocks:
        ds = [("d", n) for e in b["deallocs"] for n in e]
        fs = [("a", n) for n in b["allocs"]] + ds
        for f in fs[1:]:
            parent[find(f)] = find(fs[0])
        for f in fs:
            find(f)
    return find


def gen_library(rng, std_blocks, k):
    """a user library of 1..4 blocks with 1..3 <alloc> names and 1..3 <dealloc> elements; a block shares a deallocator name with at most
    one existing group (an earlier block or std.cfg: free, fclose), in any <dealloc> element / position"""
    blocks, uid = [], [0]
    def fresh(pfx):
        uid[0] += 1
        return "%s%d_%d" % (pfx, k, uid[0])
    pool = [["free"], ["fclose"]]       # deallocator names of existing groups, one list per group
    for _ in range(rng.choice([1, 2, 2, 3, 4])):
        elems = [[fresh("ud") for _ in range(rng.choice([1, 1, 2]))] for _ in range(rng.choice([1, 2, 2, 3]))]
        mine = [n for e in elems for n in e]
        if rng.random() < 0.65:
            g = rng.randrange(len(pool))
            shared = rng.choice(pool[g])
            e = rng.randrange(len(elems))
            elems[e].insert(rng.randrange(len(elems[e]) + 1), shared)
            pool[g] += mine
        else:
            pool.append(mine)
        blocks.append(dict(resource=rng.random() < 0.3, allocs=[fresh("ua") for _ in range(rng.choice([1, 1, 2, 3]))], deallocs=elems))
    return blocks


def library_text(blocks):
    out = ['<?xml version="1.0"?>', '<def format="2">']
    for b in blocks:
        tag = "resource" if b["resource"] else "memory"
        out.append("  <%s>" % tag)
        for a in b["allocs"]:
            out.append("    <alloc init=\"true\">%s</alloc>" % a)
        for e in b["deallocs"]:
            out.append("    <dealloc>%s</dealloc>" % ",".join(e))
        out.append("  </%s>" % tag)
    out.append("</def>")
    return "\n".join(out) + "\n"


STD_CALL = {"malloc": "malloc(10)", "calloc": "calloc(1, 10)", "fopen": 'fopen("/dev/null", "w")', "strdup": 'strdup("x")'}


def typed_function(ops, name, decls):
    """ops: (kind, x, y/function) ; a = alloc via function, f = free via function"""
    nv = 1 + max([o[1] for o in ops if o[0] in "afu r".replace(" ", "")] + [max(o[1], o[2]) for o in ops if o[0] == "s"] + [0])
    lines = ["char *%s(void)" % name, "{", "    " + " ".join("char *p%d;" % i for i in range(nv))]
    for o in ops:
        if o[0] == "a":
            lines.append("    p%d = %s;" % (o[1], STD_CALL.get(o[2], o[2] + "()")))
        elif o[0] == "f":
            lines.append("    %s(p%d);" % (o[2], o[1]))
        elif o[0] == "u":
            lines.append("    *p%d = 1;" % o[1])
        elif o[0] == "s":
            lines.append("    p%d = p%d;" % (o[1], o[2]))
        elif o[0] == "r":
            lines.append("    return p%d;" % o[1])
        else:
            lines.append("    return 0;")
    lines.append("}")
    return "\n".join(lines) + "\n"


def untyped(ops):
    return " ".join({"a": "a%d", "f": "f%d", "u": "u%d", "r": "r%d"}[o[0]] % o[1] if o[0] in "afur" else "s%d,%d" % (o[1], o[2]) if o[0] == "s" else "z" for o in ops)


def run_groups(ctx, res, drv, exe, nlibs):
    why = group_loop_problem()
    res.oblig("translate:Library-load-allocation-group-lookup", not why, "translation", why)
    rng = ctx.rng
    d = os.path.join(ctx.tmp, "groups")
    os.makedirs(d, exist_ok=True)
    std_path = os.path.join(core.REPO, "cfg", "std.cfg")
    std_blocks = cfg_blocks(std_path)
    libs = []
    for c in load_corpus().get("libraries", []):
        libs.append((c["blocks"], c.get("expect_key")))
    for k in range(nlibs):
        libs.append((gen_library(rng, std_blocks, k), None))
    # shipped libraries with blocks that have several <dealloc> elements
    shipped = [f for f in ("gtk.cfg", "windows.cfg", "posix.cfg", "gnu.cfg", "sqlite3.cfg", "zlib.cfg") if os.path.exists(os.path.join(core.REPO, "cfg", f))]
    ops_h, ops_m, names_all = [], [], []
    paths = []
    for i, (blocks, _) in enumerate(libs):
        path = os.path.join(d, "lib%d.cfg" % i)
        open(path, "w").write(library_text(blocks))
        paths.append(path)
        names = sorted(set(n for b in std_blocks + blocks for n in b["allocs"] + [x for e in b["deallocs"] for x in e]))
        ops_h.append("lib %s,%s ## %s" % (core.hx(std_path), core.hx(path), " ".join(names)))
        ops_m.append("lib %s ## %s" % (blocks_wire(std_blocks + blocks), " ".join(names)))
    for f in shipped:
        fb = cfg_blocks(os.path.join(core.REPO, "cfg", f))
        names = sorted(set(n for b in std_blocks + fb for n in b["allocs"] + [x for e in b["deallocs"] for x in e]))
        ops_h.append("lib %s,%s ## %s" % (core.hx(std_path), core.hx(os.path.join(core.REPO, "cfg", f)), " ".join(names)))
        ops_m.append("lib %s ## %s" % (blocks_wire(std_blocks + fb), " ".join(names)))
    rc, impl, err = core.run_lines(exe, [os.path.join(core.REPO, "cfg", "std.cfg")], ops_h)
    rc2, model, err2 = core.run_lines(drv, [], ops_m)
    labels = ["lib#%d %s" % (i, blocks_wire(b)) for i, (b, _) in enumerate(libs)] + ["lib " + f for f in shipped]
    core.correspond(ctx, res, "library-allocation-groups", labels, impl, model, nontrivial=lambda op, out: True)
    # ---- leak tie under the generated libraries ------------------------------------------------------------------------------------
    jobs = []
    for i, (blocks, expect_key) in enumerate(libs):
        allb = std_blocks + blocks
        find = closure_groups(allb)
        groups = {}
        for b in allb:
            for n in b["allocs"]:
                groups.setdefault(find(("a", n)), ([], []))[0].append(n)
            for e in b["deallocs"]:
                for n in e:
                    groups.setdefault(find(("d", n)), ([], []))[1].append(n)
        def callable_(n, alloc):
            return n.startswith("ua" if alloc else "ud") or (n in STD_CALL if alloc else n in ("free", "fclose"))
        usable = [([n for n in g[0] if callable_(n, True)], [n for n in g[1] if callable_(n, False)]) for g in groups.values()]
        usable = [g for g in usable if g[0] and g[1]]
        user = [g for g in usable if any(n.startswith("ua") for n in g[0])]
        progs = []
        mg = next((g for g in usable if "malloc" in g[0]), None)
        if mg:
            progs.append(("single", [("a", 0, "malloc"), ("f", 0, "free"), ("z",)], mg))        # the plain malloc / free function
        for _ in range(5):
            if not user:
                break
            g = rng.choice(user)
            A, D = g[0], g[1]
            base = gen_leak(rng, safe=True)
            ops = []
            for o in base:
                if o[0] == "a": ops.append(("a", int(o[1:]), rng.choice(A)))
                elif o[0] == "f": ops.append(("f", int(o[1:]), rng.choice(D)))
                elif o[0] == "u": ops.append(("u", int(o[1:])))
                elif o[0] == "s": ops.append(("s",) + tuple(int(x) for x in o[1:].split(",")))
                elif o[0] == "r": ops.append(("r", int(o[1:])))
                else: ops.append(("z",))
            progs.append(("single", ops, g))
        if len(usable) >= 2:
            for _ in range(2):
                g1, g2 = rng.sample(usable, 2)
                progs.append(("mixed", [("a", 0, rng.choice(g1[0])), ("f", 0, rng.choice(g2[1])), ("z",)], None))
        jobs.append((i, blocks, progs, find, expect_key))
    def one(job):
        i, blocks, progs, find, expect_key = job
        protos = "#include <stdlib.h>\n#include <stdio.h>\n#include <string.h>\n"
        for b in blocks:
            for n in b["allocs"]:
                protos += "char *%s(void);\n" % n
            for e in b["deallocs"]:
                for n in e:
                    if n.startswith("ud"):
                        protos += "void %s(char *);\n" % n
        text, starts = protos, []
        for k, (kind, ops, g) in enumerate(progs):
            starts.append(text.count("\n") + 1)
            text += typed_function(ops, "f%d" % k, None) + "\n"
        path = os.path.join(d, "t%d.c" % i)
        open(path, "w").write(text)
        fs = cppcheck_xml(ctx, path, ["--library=" + paths[i]])
        return fs, starts, text
    with ThreadPoolExecutor(WORKERS) as ex:
        outs = list(ex.map(one, jobs))
    corr_ops, corr_impl, corr_model_in = [], [], []
    for (i, blocks, progs, find, expect_key), (fs, starts, text) in zip(jobs, outs):
        if fs is None:
            res.oblig("groups:cppcheck-runs", False, "machinery", "cppcheck could not be executed")
            return
        for k, (kind, ops, g) in enumerate(progs):
            lo, hi = starts[k], starts[k] + 3 + len(ops)
            mine = [f for f in fs if lo <= f["line"] <= hi and f["severity"] == "error" and (f["id"] in LEAK_IDS or f["id"] == "mismatchAllocDealloc")]
            mism = [f for f in mine if f["id"] == "mismatchAllocDealloc"]
            ftext = typed_function(ops, "f", None)
            if kind == "single":
                got = ["%s:%s@%d" % (LEAK_IDS[f["id"]], f["symbol"][1:], f["line"] - lo - 3) for f in mine if f["id"] in LEAK_IDS]
                corr_ops.append("leak %s #lib%d" % (untyped(ops), i))
                corr_impl.append(";".join(got) if got else "-")
                corr_model_in.append("leak " + untyped(ops))
                for f in mism:
                    res.violation("with --library=<generated> cppcheck reports (error) mismatchAllocDealloc for `%s` although every allocator and "
                                  "deallocator of the function belongs to one declared group\n%s%s" % (f["symbol"], library_text(blocks), ftext),
                                  dict(kind="groups", blocks=blocks, ops=[list(o) for o in ops], finding="mismatchAllocDealloc:%s@%d" % (f["symbol"][1:], f["line"] - lo - 3),
                                       key=expect_key), concrete=True, key=expect_key)
            else:
                a, f_ = ops[0], ops[1]
                differ = find(("a", a[2])) != find(("d", f_[2]))
                res.count("mixed-groups:" + ("reported" if mism else "silent"))
                if mism and not differ:
                    res.violation("mismatchAllocDealloc for an allocator / deallocator pair of one declared group\n%s%s" % (library_text(blocks), ftext),
                                  dict(kind="groups", blocks=blocks, ops=[list(o) for o in ops], finding="mismatchAllocDealloc", key=expect_key), concrete=True, key=expect_key)
            res.case("groups|%s|%s" % (blocks_wire(blocks), ftext), bool(mine), dict(tie="leak-under-library", library=blocks_wire(blocks), function=ftext[:300]) if len(res.samples) < 12 and k == 1 and i % 7 == 0 else None)
    rc, model, err = core.run_lines(drv, [], corr_model_in)
    core.correspond(ctx, res, "leak-under-generated-library", corr_ops, corr_impl, model, nontrivial=lambda op, out: out != "-")
    res.extra["generated_libraries"] = len(libs)



def classify_ub(f, x, lo):
    """F04d: zerodiv on the statement guarded by `if (ok)` of the flag idiom `int d = 0; int ok = 0; if (..) { d = K; ok = 1; } if (ok) .. / d`
    (the zero of `d` is a Possible value without condition; the correlation with the flag is lost under an enclosing relational test)"""
    lines = f["text"].split("\n")
    k = x["line"] - lo
    if x["id"] == "zerodiv" and 0 < k < len(lines) and lines[k - 1].strip() == "if (ok)":
        m = re.search(r"/ (\w+)\)?;", lines[k])
        if m and re.search(r"int %s = 0;" % m.group(1), f["text"]) and "int ok = 0;" in f["text"]:
            return "zerodiv-possible-zero-behind-flag-guard"
    return None


def line_coverage(ctx, fns, ks, vecs, d):
    """lines (0-based offsets inside each function text) executed by the tried argument vectors, measured with gcov on a separate
    uninstrumented-by-sanitizers build of the flagged functions only; None = machinery failure"""
    cov = os.path.join(d, "cov%d" % len(os.listdir(d)))
    os.makedirs(cov, exist_ok=True)
    src, starts = c04_gen.PRELUDE, {}
    for k in ks:
        starts[k] = src.count("\n")
        src += fns[k]["text"] + "\n"
    cases = "\n".join("        case %d: f%d(a, b, c); break;" % (k, k) for k in ks)
    src += UB_MAIN.replace("CASES", cases)
    open(os.path.join(cov, "cov.c"), "w").write(src)
    rc, out, err = core.sh(["gcc", "-std=gnu11", "-O0", "-w", "--coverage", "cov.c", "-o", "cov"], cwd=cov, timeout=600)
    if rc != 0:
        return None
    for k in ks:
        args = [str(x) for t in vecs[k] for x in t]
        core.sh([os.path.join(cov, "cov"), str(k)] + args, cwd=cov, timeout=120)
    rc, out, err = core.sh(["gcov", "-t", "cov.c"], cwd=cov, timeout=120)
    if rc != 0 or "Source:cov.c" not in out:
        return None
    hit = set()
    for l in out.split("\n"):
        m = re.match(r"\s*([0-9*]+)\*?:\s*(\d+):", l)
        if m and m.group(1).rstrip("*").isdigit() and int(m.group(1).rstrip("*")) > 0:
            hit.add(int(m.group(2)))
    res = {}
    for k in ks:
        n = fns[k]["text"].count("\n")
        res[k] = set(off for off in range(n + 1) if (starts[k] + off + 1) in hit)
    return res


def load_corpus():
    p = os.path.join(core.VERIF, "corpus", "C04", "cases.json")
    return json.load(open(p)) if os.path.exists(p) else {}


def run(ctx, res):
    import time
    thorough = ctx.tier == "thorough"
    phases, t0 = {}, time.time()
    def mark(name):
        nonlocal t0
        phases[name] = round(time.time() - t0, 1)
        t0 = time.time()
    res.extra["phase_seconds"] = phases
    core.prove(ctx, res, MODULES, THEOREMS)
    mark("lake build + axiom audit (incl. waiting for the shared lake lock)")
    drv = ctx.driver("drv_c04")
    exe = os.environ.get("C04_HARNESS") or ctx.harness("c04")      # C04_HARNESS / C04_CPPCHECK: mutation experiments only (docs/C04.md)
    mark("driver + harness build")
    run_sev(ctx, res, drv, exe, 30000 if thorough else 6000)
    mark("sev")
    run_leak_corr(ctx, res, drv, 1500 if thorough else 200)
    mark("leak correspondence")
    run_leak_pimpl(ctx, res, drv, 1200 if thorough else 250)
    mark("leak P_impl")
    run_groups(ctx, res, drv, exe, 200 if thorough else 30)
    mark("allocation groups + leak tie under generated libraries")
    opts = [[], ["--enable=warning,portability", "--inconclusive"]]
    if thorough:
        for _ in range(8):
            run_ubfree(ctx, res, 400, 40, 40, opts)
    else:
        run_ubfree(ctx, res, 300, 30, 40, opts)
    mark("UB-free functions")
    prune_cache()


def replay(ctx, res, rp):
    drv = ctx.driver("drv_c04")
    kind = rp.get("kind")
    if kind == "sev":
        exe = ctx.harness("c04")
        rc, impl, err = core.run_lines(exe, [os.path.join(core.REPO, "cfg", "std.cfg")], [rp["op"]])
        r2 = core.Result(ctx, LEVEL)
        p_impl_sev(r2, [rp["op"]], impl)
        print("replay: %s -> %s" % (rp["op"], impl))
        print("replay: %s" % ("still fails" if r2.violations else "no longer fails"))
        return 1 if r2.violations else 0
    if kind in ("leak", "leak-native"):
        d = os.path.join(ctx.tmp, "r")
        os.makedirs(d, exist_ok=True)
        ops = rp["ops"].split()
        got = leak_findings(ctx, [ops], rp.get("flavor", "malloc"), d, "replay")
        rc, oracle, err = core.run_lines(drv, [], ["oracle " + rp["ops"]])
        ev = set(oracle[0].split(";")) if oracle and oracle[0] != "-" else set()
        reps = got[0][0].split(";") if got[0][0] != "-" else []
        bad = [r for r in reps if r not in ev]
        print("replay: findings %s ; reference execution %s" % (got[0][0], oracle[0] if oracle else "?"))
        print("replay: %s" % ("still fails" if bad else "no longer fails"))
        return 1 if bad else 0
    if kind == "groups":
        d = os.path.join(ctx.tmp, "r")
        os.makedirs(d, exist_ok=True)
        lib = os.path.join(d, "r.cfg")
        open(lib, "w").write(library_text(rp["blocks"]))
        protos = "#include <stdlib.h>\n#include <stdio.h>\n#include <string.h>\n"
        for b in rp["blocks"]:
            protos += "".join("char *%s(void);\n" % n for n in b["allocs"])
            protos += "".join("void %s(char *);\n" % n for e in b["deallocs"] for n in e if n.startswith("ud"))
        path = os.path.join(d, "r.c")
        open(path, "w").write(protos + typed_function([tuple(o) for o in rp["ops"]], "f", None))
        fs = cppcheck_xml(ctx, path, ["--library=" + lib]) or []
        bad = [f for f in fs if f["id"] == "mismatchAllocDealloc" and f["severity"] == "error"]
        print("replay: %s" % [(f["id"], f["severity"], f["symbol"]) for f in fs])
        print("replay: %s" % ("still fails" if bad else "no longer fails"))
        return 1 if bad else 0
    if kind == "ubfree":
        d = os.path.join(ctx.tmp, "r")
        os.makedirs(d, exist_ok=True)
        path = os.path.join(d, "r.c")
        open(path, "w").write(c04_gen.PRELUDE + rp["text"].replace("@NAME@", "f0"))
        fs = cppcheck_xml(ctx, path, rp.get("opts", [])) or []
        bad = [f for f in fs if f["severity"] == "error" and f["id"] == rp["finding"]["id"]]
        print("replay: cppcheck %s -> %s" % (" ".join(rp.get("opts", [])), [(f["id"], f["severity"], f["line"]) for f in fs]))
        print("replay: %s" % ("still fails" if bad else "no longer fails"))
        return 1 if bad else 0
    print("replay: unknown replay kind")
    return 2

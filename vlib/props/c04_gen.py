"""C04 — generator of C functions that are free of undefined behaviour *by construction* for every argument vector, built from
gadgets that exercise exactly the constructs the value-based checkers look at (division, array index, shift count, signed
arithmetic, pointer dereference, reads of locals, library arguments with a <valid> range), each protected the way correct code
protects them (guards, masks, clamps, early returns, correlated conditions, flags, loops with known trip counts).

A function has the shape
    int fK(int a, int b, int c) { unsigned r = 0; <preconditions> <gadgets> return (int)(r & 0x7fffffff); }
`rng` tracks, per parameter, the value range the preconditions (early returns / clamps) establish; range gadgets use a parameter
directly (`arr[a]`, `100 / a`, `1u << a`) only when its range makes that safe.  UB-freedom by construction is an argument about
the generator; every generated function is additionally executed natively under -fsanitize=address,undefined on boundary and
random argument vectors (vlib/props/c04.py), a function the sanitizers object to is a generator bug and is discarded (counted).

Planted programs (`planted=True`) contain one statement that is undefined on *every* path through the function.
"""

INT_MIN, INT_MAX = -2 ** 31, 2 ** 31 - 1
PRELUDE = "#include <stdlib.h>\n#include <string.h>\n#include <ctype.h>\n#include <stdio.h>\n#include <threads.h>\nstatic void c04_init(int *p) { *p = 1; }\n"


class Fn:
    def __init__(self, rng, planted=False):
        self.rng = rng
        self.lines = []
        self.ranges = {"a": (INT_MIN, INT_MAX), "b": (INT_MIN, INT_MAX), "c": (INT_MIN, INT_MAX)}
        self.consts = set()
        self.kinds = []
        self.uid = 0
        self.planted = planted

    # ---- helpers -----------------------------------------------------------------------------------------------------
    def v(self):
        return self.rng.choice("abc")

    def k(self, lo=1, hi=100):
        x = self.rng.choice([1, 2, 3, 4, 5, 7, 8, 10, 16, 31, 32, 64, 100, 255, 1000])
        x = max(lo, min(hi, x))
        self.consts.add(x)
        return x

    def thr(self):
        x = self.rng.choice([-1, 0, 0, 1, 2, 3, 5, 8, 10, 100])
        self.consts.add(x)
        return x

    def n(self):
        return self.rng.choice([2, 3, 4, 5, 8, 10, 16])

    def name(self, base):
        self.uid += 1
        return "%s%d" % (base, self.uid)

    def emit(self, s):
        self.lines.append(s)

    def cond(self, v=None):
        """a condition on a parameter that both branches of can be taken"""
        v = v or self.v()
        t = self.thr()
        return self.rng.choice(["%s > %d", "%s < %d", "%s == %d", "%s != %d", "%s >= %d", "%s <= %d"]) % (v, t)

    # ---- preconditions -----------------------------------------------------------------------------------------------------
    def precondition(self):
        rng = self.rng
        v = self.v()
        lo, hi = self.ranges[v]
        if (lo, hi) != (INT_MIN, INT_MAX):
            return
        kind = rng.randrange(5)
        if kind == 0:
            n = self.n()
            self.emit("    if (%s < 0 || %s >= %d) return 0;" % (v, v, n))
            self.ranges[v] = (0, n - 1)
        elif kind == 1:
            n = self.n()
            self.emit("    if (%s < 1) return 0;" % v)
            self.emit("    if (%s > %d) %s = %d;" % (v, n, v, n))
            self.ranges[v] = (1, n)
        elif kind == 2:
            n = self.n()
            self.emit("    if (%s < 0) %s = 0;" % (v, v))
            self.emit("    if (%s > %d) %s = %d;" % (v, n - 1, v, n - 1))
            self.ranges[v] = (0, n - 1)
        elif kind == 3:
            n = self.n()
            self.emit("    %s = (int)((unsigned)%s %% %du);" % (v, v, n))
            self.ranges[v] = (0, n - 1)
        else:
            n = self.n()
            self.emit("    if (!(%s > 0 && %s <= %d)) return -1;" % (v, v, n))
            self.ranges[v] = (1, n)
        self.consts |= {0, 1, n - 1, n, n + 1}
        self.kinds.append("pre%d" % kind)

    def ranged(self, lo_min, hi_max):
        """a parameter whose established range lies inside [lo_min, hi_max], or None"""
        c = [v for v, (lo, hi) in self.ranges.items() if lo >= lo_min and hi <= hi_max]
        return self.rng.choice(c) if c else None

    # ---- gadgets: each returns a list of lines (indent 4) -----------------------------------------------------------------
    def g_div(self):
        rng = self.rng
        v, w, K = self.v(), self.v(), self.k()
        t = self.thr()
        d = self.name("d")
        rv = self.ranged(1, INT_MAX)
        opts = [
            ["if (%s != 0) r += (unsigned)(%d / %s);" % (v, K, v)],
            ["r += (unsigned)((%s & 0xffff) / ((%s & 15) + 1));" % (w, v)],
            ["{ int %s = %s; if (%s == 0) %s = 1; r += (unsigned)(%d / %s); }" % (d, v, d, d, K, d)],
            ["r += (unsigned)(%s ? %d / %s : 0);" % (v, K, v)],
            ["{ int %s = 0; if (%s > %d) %s = %s; if (%s) r += (unsigned)(%d / %s); }" % (d, w, max(t, 0), d, w, d, K, d)],
            ["{ int %s = 0; if (%s > %d) %s = 1 + (%s & 7); if (%s > %d) r += (unsigned)(%d / %s); }" % (d, w, t, d, w, w, t, K, d)],
            ["{ int %s; for (%s = 1; %s < 5; %s++) r += (unsigned)(%d / %s); }" % (d, d, d, d, K, d)],
            ["{ int %s = %s %% 5; if (%s < 0) %s = -%s; r += (unsigned)(%d / (%s + 1)); }" % (d, v, d, d, d, K, d)],
            ["{ int %s = (%s & 3); while (%s > 0) { r += (unsigned)(%d / %s); %s--; } }" % (d, w, d, K, d, d)],
            ["{ int %s = %s & 7; if (%s == 0) { r += 1; } else { r += (unsigned)(%d %% %s); } }" % (d, w, d, K, d)],
            ["{ int %s = 0; if (%s == %d) %s = %d; r += (unsigned)(%d / (%s + 1)); }" % (d, v, abs(t), d, abs(t), K, d)],
            ["if (%s == 0) return (int)r;" % v, "r += (unsigned)(%d / %s);" % (K, v)],
            ["{ int %s = %s; if (!%s) %s = %d; r += (unsigned)(%d %% %s); }" % (d, v, d, d, K, K, d)],
            ["{ unsigned %s = (unsigned)%s | 1u; r += %du / %s; }" % (d, v, K, d)],
            ["{ int %s = 0; int ok = 0; if (%s > %d) { %s = %d; ok = 1; } if (ok) r += (unsigned)(%d / %s); }" % (d, w, t, d, K, K, d)],
        ]
        if rv:
            opts += [["r += (unsigned)(%d / %s);" % (K, rv)], ["r += (unsigned)(%d %% %s);" % (K, rv)]] * 3
        self.kinds.append("div")
        return rng.choice(opts)

    def g_arr(self):
        rng = self.rng
        v, w, K, N = self.v(), self.v(), self.k(), self.n()
        t = self.thr()
        arr, i = self.name("arr"), self.name("i")
        P = rng.choice([2, 4, 8, 16])
        rv = self.ranged(0, 15)
        self.consts |= {N - 1, N, N + 1, P - 1, P}
        opts = [
            ["{ int %s[%d] = {0}; %s[%s & %d] = %d; r += (unsigned)%s[(%s >> 3) & %d]; }" % (arr, P, arr, v, P - 1, K, arr, w, P - 1)],
            ["{ int %s[%d]; int %s; for (%s = 0; %s < %d; %s++) %s[%s] = %s * %d; if (%s >= 0 && %s < %d) r += (unsigned)%s[%s]; }" % (arr, N, i, i, i, N, i, arr, i, i, K, v, v, N, arr, v)],
            ["{ int %s[%d] = {0}; int %s = %s; if (%s < 0) %s = 0; if (%s > %d) %s = %d; r += (unsigned)%s[%s]; }" % (arr, N, i, v, i, i, i, N - 1, i, N - 1, arr, i)],
            ["{ int %s[%d] = {0}; unsigned %s = (unsigned)%s %% %du; %s[%s] = 1; r += (unsigned)%s[%s]; }" % (arr, N, i, v, N, arr, i, arr, i)],
            ["{ char %s[%d]; int %s; for (%s = 0; %s < %d; %s++) %s[%s] = 'a'; %s[%s] = 0; r += (unsigned)%s[0]; }" % (arr, N, i, i, i, N - 1, i, arr, i, arr, i, arr)],
            ["{ int %s[%d] = {0}; int %s = %d; while (%s > 0) { %s--; %s[%s] = %s; } r += (unsigned)%s[0]; }" % (arr, N, i, N, i, i, arr, i, i, arr)],
            ["{ int %s[%d] = {0}; int %s = -1; if (%s > 0) %s = %s %% %d; if (%s >= 0) r += (unsigned)%s[%s]; }" % (arr, N, i, v, i, v, N, i, arr, i)],
            ["{ int %s[%d] = {0}; int %s = -1; if (%s > %d) %s = 0; if (%s > %d) r += (unsigned)%s[%s]; }" % (arr, N, i, v, t, i, v, t, arr, i)],
            ["{ int %s[3][4] = {{0}}; %s[%s & 1][%s & 3] = %d; r += (unsigned)%s[2][3]; }" % (arr, arr, v, w, K, arr)],
            ["{ int %s[4]; int %s = 0; int j; if (%s > 0) %s[%s++] = 1; if (%s > 0) %s[%s++] = 2; if (%s > %d) %s[%s++] = 3; for (j = 0; j < %s; j++) r += (unsigned)%s[j]; }" % (arr, i, v, arr, i, w, arr, i, v, t, arr, i, i, arr)],
            ["{ int %s[%d] = {0}; int %s = %d; if (%s > %d) %s = %d; if (%s < %d) r += (unsigned)%s[%s]; }" % (arr, N, i, N, v, t, i, N - 1, i, N, arr, i)],
            ["{ int %s[%d] = {0}; int %s; for (%s = %d; %s >= 0; %s--) r += (unsigned)%s[%s]; }" % (arr, N, i, i, N - 1, i, i, arr, i)],
            ["{ static const int %s[%d] = {1, 2}; int %s = %s; if (%s < 0 || %s >= %d) return (int)r; r += (unsigned)%s[%s]; }" % (arr, max(N, 2), i, v, i, i, max(N, 2), arr, i)],
            ["{ char %s[%d] = \"a\"; size_t %s = strlen(%s); r += (unsigned)%s[%s]; }" % (arr, max(N, 2), i, arr, arr, i)],
        ]
        if rv:
            hi = self.ranges[rv][1]
            M = hi + 1 + rng.choice([0, 0, 1, 3])
            opts += [["{ int %s[%d] = {0}; %s[%s] = %d; r += (unsigned)%s[%s]; }" % (arr, M, arr, rv, K, arr, rv)]] * 4
        self.kinds.append("arr")
        return rng.choice(opts)

    def g_shift(self):
        rng = self.rng
        v, w = self.v(), self.v()
        t = self.thr()
        s = self.name("s")
        rv = self.ranged(0, 31)
        opts = [
            ["r += 1u << (%s & 31);" % v],
            ["if (%s >= 0 && %s < 32) r += 1u << %s;" % (v, v, v)],
            ["r += ((unsigned)%s) >> (%s & 31);" % (w, v)],
            ["{ int %s = %s & 15; r += (unsigned)(1 << %s); }" % (s, v, s)],
            ["{ int %s = 0; if (%s > %d) %s = 33; if (%s < 32) r += 1u << %s; }" % (s, v, t, s, s, s)],
            ["{ int %s = -1; if (%s > %d) %s = 4; if (%s >= 0) r += 2u << %s; }" % (s, v, t, s, s, s)],
            ["{ int %s = 40; if (%s > %d) %s = 3; if (%s > %d) r += 1u << %s; }" % (s, v, t, s, v, t, s)],
            ["{ int %s; for (%s = 0; %s < 32; %s++) r ^= 1u << %s; }" % (s, s, s, s, s)],
            ["{ unsigned %s = (unsigned)%s %% 32u; r += 3u << %s; }" % (s, v, s)],
            ["{ int %s = %s; if (%s < 0) %s = 0; if (%s > 30) %s = 30; r += (unsigned)(1 << %s); }" % (s, v, s, s, s, s, s)],
            ["{ long long %s = 1; r += (unsigned)(%s << (%s & 31)); }" % (s, s, v)],
        ]
        if rv:
            opts += [["r += 1u << %s;" % rv]] * 3
        self.kinds.append("shift")
        return rng.choice(opts)

    def g_ovf(self):
        rng = self.rng
        v, w = self.v(), self.v()
        t = self.name("t")
        th = self.thr()
        opts = [
            ["{ int %s = (%s & 0xffff) * (%s & 0x7fff); r += (unsigned)%s; }" % (t, v, w, t)],
            ["{ int %s = (%s %% 1000) + (%s %% 1000); r += (unsigned)%s; }" % (t, v, w, t)],
            ["{ int %s = %s; if (%s > 1000) %s = 1000; if (%s < -1000) %s = -1000; %s = %s * 1000; r += (unsigned)%s; }" % (t, v, t, t, t, t, t, t, t)],
            ["{ int %s = 2147483647; if (%s > %d) %s = 0; %s = %s + (%s > %d); r += (unsigned)%s; }" % (t, v, th, t, t, t, v, th, t)],
            ["{ int %s = 2147483647; if (%s) %s = 5; if (%s) %s += 3; r += (unsigned)%s; }" % (t, v, t, v, t, t)],
            ["if (%s > -1000) r += (unsigned)(-%s);" % (v, v)],
            ["{ int %s = %s; if (%s < 0 && %s > -2147483647) %s = -%s; r += (unsigned)%s; }" % (t, v, t, t, t, t, t)],
            ["{ int %s = 2147483647; if (%s < 2147483647) %s = %s + 1; r += (unsigned)%s; }" % (t, v, t, v, t)],
            ["{ int %s = %s; if (%s < 2147483647) %s++; r += (unsigned)%s; }" % (t, v, t, t, t)],
            ["{ int %s = -2147483647 - 1; if (%s > %d) %s = 1; if (%s > %d) %s = %s - 2; r += (unsigned)%s; }" % (t, v, th, t, v, th, t, t, t)],
            ["{ int %s = 0; int j; for (j = 0; j < 10; j++) %s += j * 1000; r += (unsigned)%s; }" % (t, t, t)],
            ["{ long long %s = (long long)%s * %s; r += (unsigned)(%s & 0xffff); }" % (t, v, w, t)],
            ["{ unsigned %s = (unsigned)%s * 65537u + 4294967295u; r += %s; }" % (t, v, t)],
            ["{ int %s = (%s & 0xff) << 8; r += (unsigned)%s; }" % (t, v, t)],
            ["{ short %s = (short)(%s & 0x7fff); %s = (short)(%s + 1000); r += (unsigned)%s; }" % (t, v, t, t, t)],
        ]
        self.kinds.append("ovf")
        return rng.choice(opts)

    def g_ptr(self):
        rng = self.rng
        v, w, K = self.v(), self.v(), self.k()
        t = self.thr()
        x, p = self.name("x"), self.name("p")
        opts = [
            ["{ int %s = %d; int *%s = &%s; if (%s > %d) %s = 0; if (%s) r += (unsigned)*%s; }" % (x, K, p, x, v, t, p, p, p)],
            ["{ int %s = %d; int *%s = 0; if (%s > %d) %s = &%s; if (%s > %d) r += (unsigned)*%s; }" % (x, K, p, v, t, p, x, v, t, p)],
            ["{ int %s = %d; int *%s = %s ? &%s : 0; if (!%s) r += 1; else r += (unsigned)*%s; }" % (x, K, p, v, x, p, p)],
            ["{ int %s = %d; int *%s = 0; if (%s) %s = &%s; if (%s != 0) { *%s = 3; r += (unsigned)%s; } }" % (x, K, p, v, p, x, p, p, x)],
            ["{ int %s = %d, y%s = 2; int *%s = &%s; int **pp%s = &%s; if (%s) *pp%s = &y%s; r += (unsigned)*%s; }" % (x, K, x, p, x, p, p, v, p, x, p)],
            ["{ int %s; int *%s = &%s; *%s = %d; r += (unsigned)%s; }" % (x, p, x, p, K, x)],
            ["{ const char *%s = 0; if (%s > 0) %s = \"abc\"; r += (unsigned)(%s ? %s[0] : 0); }" % (p, v, p, p, p)],
            ["{ int %s = %d; int *%s = 0; int ok = 0; if (%s > %d) { %s = &%s; ok = 1; } if (ok) r += (unsigned)*%s; }" % (x, K, p, v, t, p, x, p)],
            ["{ int %s = %d; int *%s = &%s; int j; for (j = 0; j < 3; j++) { if (j == %s) %s = 0; } if (%s) r += (unsigned)*%s; }" % (x, K, p, x, v, p, p, p)],
            ["{ int %s = %d; int *%s = 0; do { %s = &%s; } while (0); r += (unsigned)*%s; }" % (x, K, p, p, x, p)],
            ["{ int %s = %d; int *%s = 0; if (%s > %d) %s = &%s; if (!%s) return (int)r; r += (unsigned)*%s; }" % (x, K, p, v, t, p, x, p, p)],
            ["{ int %s = %d; int *%s = 0; if (%s > %d) %s = &%s; if (%s == 0) { r += 2; } else { *%s += 1; r += (unsigned)%s; } }" % (x, K, p, v, t, p, x, p, p, x)],
            ["{ int %s = %d; int *%s = 0; if (%s > %d || %s < %d) %s = &%s; if (%s && *%s > 0) r += 1; }" % (x, K, p, v, t, w, t, p, x, p, p)],
            ["{ char *%s = (char *)malloc(4); if (%s) { %s[0] = 'a'; r += (unsigned)%s[0]; free(%s); } }" % (p, p, p, p, p)],
            ["{ int %s = %d; int *%s = &%s; if (%s > %d) %s = 0; r += (unsigned)(%s != 0 && *%s == %d); }" % (x, K, p, x, v, t, p, p, p, K)],
            ["{ struct { int m; } s%s = { %d }, *%s = 0; if (%s > %d) %s = &s%s; if (%s) r += (unsigned)%s->m; }" % (x, K, p, v, t, p, x, p, p)],
        ]
        self.kinds.append("ptr")
        return rng.choice(opts)

    def g_uninit(self):
        rng = self.rng
        v, w, K = self.v(), self.v(), self.k()
        t = self.thr()
        x = self.name("x")
        opts = [
            ["{ int %s; if (%s > %d) %s = 1; else %s = 2; r += (unsigned)%s; }" % (x, v, t, x, x, x)],
            ["{ int %s; if (%s > %d) %s = 5; if (%s > %d) r += (unsigned)%s; }" % (x, v, t, x, v, t, x)],
            ["{ int %s; int ok = 0; if (%s > %d) { %s = 7; ok = 1; } if (ok) r += (unsigned)%s; }" % (x, v, t, x, x)],
            ["{ int %s; switch (%s & 3) { case 0: %s = 1; break; case 1: %s = 2; break; default: %s = 3; break; } r += (unsigned)%s; }" % (x, v, x, x, x, x)],
            ["{ int %s[4]; int j; for (j = 0; j < 4; j++) %s[j] = j; r += (unsigned)%s[%s & 3]; }" % (x, x, x, v)],
            ["{ int %s; int *q%s = &%s; *q%s = 4; r += (unsigned)%s; }" % (x, x, x, x, x)],
            ["{ int %s; int j; for (j = 0; j < 2; j++) %s = j; r += (unsigned)%s; }" % (x, x, x)],
            ["{ int %s; if (%s > 3) %s = 1; else if (%s > 1) %s = 2; else %s = 3; r += (unsigned)%s; }" % (x, v, x, v, x, x, x)],
            ["{ int %s; int j = 0; while (1) { %s = j; if (++j > 2) break; } r += (unsigned)%s; }" % (x, x, x)],
            ["{ struct { int m; int n; } %s; %s.m = 1; %s.n = %s; r += (unsigned)(%s.m + (%s.n & 1)); }" % (x, x, x, v, x, x)],
            ["{ int %s; c04_init(&%s); r += (unsigned)%s; }" % (x, x, x)],
            ["{ int %s; if (%s > %d) { %s = %d; r += (unsigned)%s; } }" % (x, v, t, x, K, x)],
            ["{ int %s; if (%s > %d) %s = %d; if (%s <= %d) return (int)r; r += (unsigned)%s; }" % (x, v, t, x, K, v, t, x)],
            ["{ int %s; int *q%s = 0; if (%s > %d) q%s = &%s; if (q%s) { *q%s = 2; r += (unsigned)%s; } }" % (x, x, v, t, x, x, x, x, x)],
            ["{ char %s[8]; memset(%s, 0, sizeof(%s)); r += (unsigned)%s[%s & 7]; }" % (x, x, x, x, v)],
            ["{ int %s; %s = %s > %d ? 1 : 2; r += (unsigned)%s; }" % (x, x, v, t, x)],
            ["{ int %s; do { %s = %d; } while (0); r += (unsigned)%s; }" % (x, x, K, x)],
        ]
        self.kinds.append("uninit")
        return rng.choice(opts)

    def g_libarg(self):
        rng = self.rng
        v, K = self.v(), self.k()
        t = self.thr()
        x = self.name("t")
        opts = [
            ["r += (unsigned)isdigit(%s & 0x7f);" % v],
            ["{ char %s[16] = {0}; memset(%s, 1, (size_t)(%s & 15)); r += (unsigned)%s[0]; }" % (x, x, v, x)],
            ["r += (unsigned)toupper((unsigned char)%s);" % v],
            ["{ int %s = %s; if (%s < 0 || %s > 255) %s = 0; r += (unsigned)isalpha(%s); }" % (x, v, x, x, x, x)],
            ["{ int %s = -5; if (%s > %d) %s = 65; if (%s > %d) r += (unsigned)isupper(%s); }" % (x, v, t, x, v, t, x)],
            ["if (%s != 0) { div_t q%s = div(%d, %s); r += (unsigned)q%s.quot; }" % (v, x, K, v, x)],
            ["r += (unsigned)abs(%s %% 100);" % v],
            ["{ int %s = 300; if (%s > %d) %s = 'a'; if (%s < 256) r += (unsigned)isalnum(%s); }" % (x, v, t, x, x, x)],
            ["{ char %s[8]; strncpy(%s, \"abc\", sizeof(%s) - 1); %s[7] = 0; r += (unsigned)strlen(%s); }" % (x, x, x, x, x)],
            ["{ int %s = %s %% 128; if (%s < 0) %s = -%s; r += (unsigned)isspace(%s); }" % (x, v, x, x, x, x)],
        ]
        self.kinds.append("libarg")
        return rng.choice(opts)

    GADGETS = ["g_div", "g_arr", "g_shift", "g_ovf", "g_ptr", "g_uninit", "g_libarg"]

    def planted_bug(self):
        rng = self.rng
        K = self.k()
        x = self.name("z")
        opts = [
            ("zerodiv", ["{ int %s = 0; r += (unsigned)(%d / %s); }" % (x, K, x)]),
            ("zerodiv", ["{ int %s = %d; %s -= %d; r += (unsigned)(a %% %s); }" % (x, K, x, K, x)]),
            ("nullPointer", ["{ int *%s = 0; r += (unsigned)*%s; }" % (x, x)]),
            ("arrayIndexOutOfBounds", ["{ int %s[4] = {0}; %s[4] = 1; r += (unsigned)%s[0]; }" % (x, x, x)]),
            ("arrayIndexOutOfBounds", ["{ int %s[4] = {0}; int i%s = %d; r += (unsigned)%s[i%s + 4]; }" % (x, x, K, x, x)]),
            ("negativeIndex", ["{ int %s[4] = {0}; int i%s = -1; r += (unsigned)%s[i%s]; }" % (x, x, x, x)]),
            ("shiftTooManyBits", ["{ int %s = 32; r += 1u << %s; }" % (x, x)]),
            ("shiftNegative", ["{ int %s = -1; r += 1u << %s; }" % (x, x)]),
            ("integerOverflow", ["{ int %s = 2147483647; %s = %s + 1; r += (unsigned)%s; }" % (x, x, x, x)]),
            ("uninitvar", ["{ int %s; r += (unsigned)%s; }" % (x, x)]),
            ("invalidFunctionArg", ["{ int %s = 300; r += (unsigned)isdigit(%s); }" % (x, x)]),
        ]
        return rng.choice(opts)

    def wrap(self, lines):
        rng = self.rng
        k = rng.random()
        if self.planted or k < 0.6:
            return lines
        if any(l.lstrip().startswith("if") and "return" in l for l in lines):
            return lines
        body = ["    " + l for l in lines]
        if k < 0.8:
            return ["if (%s) {" % self.cond()] + body + ["}"]
        if k < 0.9:
            j = self.name("k")
            return ["{ int %s; for (%s = 0; %s < 2; %s++) {" % (j, j, j, j)] + body + ["} }"]
        return ["if (%s) {" % self.cond()] + body + ["} else {", "    r += 1;", "}"]

    def build(self, name):
        rng = self.rng
        if not self.planted:
            for _ in range(rng.choice([0, 0, 1, 1, 2])):
                self.precondition()
        planted_id = None
        body = []
        if self.planted:
            # the planted statement is the first statement of the function: it is executed on every path
            planted_id, ls = self.planted_bug()
            body += ["    " + l for l in ls]
        for gi in range(rng.choice([1, 1, 2, 2, 3])):
            ls = self.wrap(getattr(self, rng.choice(self.GADGETS))())
            body += ["    " + l for l in ls]
        text = "int %s(int a, int b, int c)\n{\n    unsigned r = 0;\n" % name + "\n".join(self.lines + body) + "\n    return (int)(r & 0x7fffffff);\n}\n"
        return dict(name=name, text=text, kinds=self.kinds, consts=sorted(self.consts), planted=planted_id)


def one_statement_per_line(text):
    """re-flow a generated function so that every simple statement stands on its own line (the guarded statement of an
    `if (..) stmt;` / loop header too): line coverage of a native run then tells whether a flagged statement was executed"""
    out, line, depth, i, n = [], "", 0, 0, len(text)
    indent = 0
    def flush():
        nonlocal line
        if line.strip():
            out.append("    " * max(indent, 0) + line.strip())
        line = ""
    pending_header = False      # inside `if (` / `for (` / `while (` / `switch (` parentheses
    header_depth = 0
    while i < n:
        ch = text[i]
        if ch in "\"'":
            j = i + 1
            while j < n and text[j] != ch:
                j += 2 if text[j] == "\\" else 1
            line += text[i:j + 1]
            i = j + 1
            continue
        if ch == "(":
            depth += 1
            if depth == 1 and line.strip().split()[-1:] and line.strip().split()[-1] in ("if", "for", "while", "switch") :
                pending_header, header_depth = True, depth
            line += ch
        elif ch == ")":
            line += ch
            if pending_header and depth == header_depth:
                pending_header = False
                # what follows the header?
                j = i + 1
                while j < n and text[j] in " \n":
                    j += 1
                if j < n and text[j] not in "{;":
                    flush()
                    out.append(None)         # marker: the next statement is nested one level deeper
            depth -= 1
        elif depth > 0:
            line += ch
        elif ch == "{":
            # an initialiser brace (`= {0}`, `= {{0}}`, `{ 100 }` after `=`) stays on the line
            if line.rstrip().endswith("=") or line.rstrip().endswith(",") and "=" in line or line.rstrip().endswith("{") and "=" in line:
                j, d = i, 0
                while j < n:
                    d += text[j] == "{"
                    d -= text[j] == "}"
                    j += 1
                    if d == 0:
                        break
                line += text[i:j]
                i = j
                continue
            line += ch
            flush()
            indent += 1
        elif ch == "}":
            flush()
            indent -= 1
            line = "}"
            j = i + 1
            while j < n and text[j] in " \n":
                j += 1
            if text[j:j + 4] == "else" or text[j:j + 5] == "while" and out and False:
                pass
            else:
                # `} s = { 5 }, *p = 0;` (struct declarators) continue on the same line
                if j < n and (text[j].isalnum() or text[j] in "*_") and text[j:j + 4] != "else" and _in_struct_decl(out):
                    pass
                else:
                    flush()
        elif ch == ";":
            line += ch
            flush()
        elif ch == "\n":
            if line.strip() and not line.strip().endswith((";", "{", "}")):
                line += " "
            else:
                flush()
        else:
            line += ch
            if line.strip() == "else":
                j = i + 1
                while j < n and text[j] in " \n":
                    j += 1
                if j < n and text[j] not in "{" and text[j:j + 2] != "if":
                    flush()
                    out.append(None)
        i += 1
    flush()
    # resolve nesting markers
    res, bump = [], 0
    for l in out:
        if l is None:
            bump += 1
            continue
        res.append("    " * bump + l)
        if bump and not l.strip().startswith(("if ", "if(", "for ", "while ", "else")):
            bump = 0
    return "\n".join(res) + "\n"


def _in_struct_decl(out):
    k = len(out) - 1
    depth = 0
    while k >= 0:
        l = out[k]
        if l is not None:
            s = l.strip()
            if s == "}":
                depth += 1
            elif s.endswith("{"):
                if depth == 0:
                    return s.startswith("struct")
                depth -= 1
        k -= 1
    return False


def make_function(rng, name, planted=False):
    f = Fn(rng, planted).build(name)
    f["text"] = one_statement_per_line(f["text"])
    return f


def arg_vectors(rng, fn, n):
    """boundary + random argument vectors for one function"""
    base = {INT_MIN, INT_MIN + 1, -1000, -2, -1, 0, 1, 2, 3, 4, 5, 7, 8, 15, 16, 31, 32, 33, 255, 256, 1000, INT_MAX - 1, INT_MAX}
    for k in fn["consts"]:
        base |= {k - 1, k, k + 1, -k}
    base = sorted(x for x in base if INT_MIN <= x <= INT_MAX)
    out = [(x, x, x) for x in (0, 1, -1, INT_MIN, INT_MAX, 2, 5)]
    seen = set(out)
    small = [x for x in base if -3 <= x <= 40]
    tries = 0
    while len(out) < n and tries < 10 * n:
        tries += 1
        pool = small if rng.random() < 0.6 else base
        t = (rng.choice(pool), rng.choice(pool), rng.choice(pool))
        if t not in seen:
            seen.add(t)
            out.append(t)
    return out

"""C20 — an interrupted run never corrupts later incremental results.

Obligations
  theorems   Cppcheck.XmlWf.strict_prefix_not_wf / complete_document_loads (byte level: model of tinyxml2's parser),
             Cppcheck.CacheCrash.crash_then_run_eq_no_build_dir_partial (THE property: after any history of kills the complete run
             = a run WITHOUT build dir) + crash_then_run_eq_fresh_partial, crash_once…, run_on_foreign_dir_eq_fresh,
             usable_eq_decision, and the counterexample theorems (F20a summaries, F20b checkers report, skipped-file premise)
  T:body:*   fail-closed translators: sha1 of the comment/whitespace-stripped bodies of every function (or window) the
             file-level model copies (analyzerinfo.cpp: close, skipAnalysis, getAnalyzerInfoFile, analyzeFile, reportErr,
             setFileInfo, processFilesTxt, reopen, writeFilesTxt; cppcheck.cpp: checkInternal before the analysis + its exits,
             analyseWholeProgram(buildDir); cppcheckexecutor.cpp: check_internal, the loadSummaries statement; summaries.cpp:
             loadReturn, getSummaryFiles): ANY edit (also an added path) breaks the obligation
  T1..T3,T7  header/footer/item literals = model literals (through the driver); cache files are opened for writing only in
             analyzerinfo.cpp (two places)
  C1         tinyxml2 as linked into cppcheck (in-process harness) == XmlWf.load on EVERY byte prefix of the cache files the
             real binary wrote during this run (complete and crashed ones) + generated XML-ish strings
  C2         `analyzeFile`'s decision on each cache file of each post-kill build directory (--debug-analyzerinfo) ==
             XmlWf.decision on the bytes found on disk
  C3         THE FILE-LEVEL MODEL executed on every real post-kill state: the on-disk state is mapped to `crashDir` (each cache
             file must be a byte prefix of the document a complete run writes — otherwise the kill state is outside the model and
             reported), the driver runs `completeRun`/`runActions`/`collectInfos`/`noBuildDirRun` on it with the real items, and the
             result is compared with what the real complete run did: per-file action (early | replay | analyse), set of findings,
             whole-program load error, sizes and bytes of the cache files left behind
  M1         per project: run on an empty build dir == run without build dir
  H1         hypothesis validation: every item of every cache file written by the real binary is `balancedItem`, decimal key
P_impl       for every explored kill point / byte truncation: findings of the complete run that follows == findings of a run
             WITHOUT build directory.  Kill models: (a) VERIF_CRASH_AT hook (the process that performs the k-th event dies: whole
             run for -j1/thread, the worker for the process executor), (b) LD_PRELOAD shim harness/c20_killmain.c: SIGKILL to the
             MAIN process at the k-th build-dir open/write/close of a worker, workers live on (kill -9 / OOM killer), (c) byte cuts
"""
import concurrent.futures, glob, json, os, re, shutil, subprocess, time
from .. import core, build_repo

ID = "C20"
LEVEL = "proof"
RULE = ("case = (project, executor j1|thread -j2|process -j2, kill kind cacheopen|cachewrite|cacheclose|cachereopen|finding|filedone, "
        "k) or (project, process executor, MAIN process killed at the k-th build-dir open|write|close of a worker) or (project, cache file, byte length L of a torn write), followed by a complete run on the same build dir; distinct = "
        "different tuple; non-trivial = the first run really died (exit 137 / worker killed) resp. the file was really cut; quick: "
        "every k of every kind for -j1 on two projects + witnesses + samples for the other executors / projects / byte cuts; "
        "thorough: every k of every kind x 3 executors x all projects, every byte cut of the small cache files")
EXPLANATION = ("Lean: (1) a byte-level model of tinyxml2's parser proves that no strict prefix of a cache document (beyond the final "
               "newline) loads with a root element; (2) a file-level model of a run (summaries, files.txt, per-file reuse decision, "
               "cache rewrite, whole-program loading, checkers.txt) proves for every kill state of every executor and any history of "
               "kills that the next complete run reports what a run WITHOUT build dir reports, under two hypotheses whose "
               "necessity is proved by counterexample and reproduced on the real binary (F20a, F20b). The per-file analysis, the "
               "whole-program analysis and the hash are parameters. The file-level model is executed by the driver on every real "
               "post-kill state (C3) and the code it copies is pinned by body hashes. Outside the model: suppressions (unmatchedSuppression "
               "entries appended through reopen are only a kill window), addons/ctu-info files, plist/dump outputs, the parse of "
               "<error>/<FileInfo> children (trusted round trip), BOM/entity handling of tinyxml2.")
THEOREMS = ["Cppcheck.XmlWf.strict_prefix_not_wf", "Cppcheck.XmlWf.complete_document_loads",
            "Cppcheck.CacheCrash.crash_then_run_eq_no_build_dir_partial", "Cppcheck.CacheCrash.empty_dir_run_eq_no_build_dir",
            "Cppcheck.CacheCrash.crash_then_run_eq_fresh_partial", "Cppcheck.CacheCrash.crash_once_then_run_eq_fresh",
            "Cppcheck.CacheCrash.run_on_foreign_dir_eq_fresh", "Cppcheck.CacheCrash.usable_eq_decision",
            "Cppcheck.CacheCrash.crash_then_run_eq_fresh_counterexample_summaries",
            "Cppcheck.CacheCrash.crash_then_run_eq_fresh_counterexample_checkers",
            "Cppcheck.CacheCrash.crash_then_run_eq_fresh_counterexample",
            "Cppcheck.CacheCrash.stale_cache_of_skipped_file_counterexample"]
MODULES = ["Cppcheck.Props.C20"]

TEMPLATE = "{file}:{line}:{id}:{message}"
TIMEOUT = 90
KINDS = ["cacheopen", "cachewrite", "cacheclose", "cachereopen", "finding", "filedone"]
EXECS = {"j1": [], "thread": ["-j2", "--executor=thread"], "process": ["-j2", "--executor=process"], "process3": ["-j3", "--executor=process"]}

H_H = "static int hbad(void) { int a[2]; a[0] = 0; return a[3]; }\n"
A_C = ('#include "h.h"\nint a1(void) { int x[2]; x[3] = 1; return hbad(); }\n#ifdef CFGA\nint a2(void) { char *p = 0; return *p; }\n#endif\n'
       "void useb(void) { extern void fb(int *); fb(0); }\n")
B_C = '#include "h.h"\nvoid fb(int *p) { *p = 1; }\nint b1(void) { int x[2]; x[0] = 0; return x[5] + hbad(); }\n'
C_C = "int c1(int v) { return v + 1; }\n"
PROJECTS = {
    "base3": dict(files={"h.h": H_H, "a.c": A_C, "b.c": B_C, "c.c": C_C}, opts=[]),
    "info3": dict(files={"h.h": H_H, "a.c": A_C, "b.c": B_C, "c.c": C_C},
                  opts=["--enable=information", "--suppress=zerodiv:a.c", "--suppress=memleak:b.c"]),
    "summ2": dict(files={"b.c": "void f(void) { }\n",
                         "z.c": "#include <stdlib.h>\nvoid g(void) { char *p = malloc(10); if (!p) return; *p = 0; f(); }\n"}, opts=[]),
    "early2": dict(files={"a.c": "int ok1(void) { int a[2]; a[0] = 1; return a[2]; }\n",
                          "w.c": "int w1(void) { return 1/0; }\nconst char *s = \"abc;\n"}, opts=[]),
}


def private_binary(ctx, envname):
    """a private copy of the freshly built binary (colleagues' checks relink .build/o1/bin/cppcheck in place while this
    check runs); copied under the build lock, with the cfg/platforms/addons links cppcheck looks up next to its executable"""
    if os.environ.get(envname):
        return os.environ[envname]
    d = os.path.join(ctx.tmp, "bin")
    os.makedirs(d, exist_ok=True)
    dst = os.path.join(d, "cppcheck")
    if not os.path.exists(dst):
        with build_repo.Lock("repo-" + ctx.variant):
            shutil.copy2(ctx.cppcheck, dst)
        for sub in ("cfg", "platforms", "addons"):
            os.symlink(os.path.join(core.REPO, sub), os.path.join(d, sub))
    return dst


class Proj:
    def __init__(self, ctx, name, binary):
        self.name = name
        self.dir = os.path.join(ctx.tmp, "src_" + name)
        os.makedirs(self.dir, exist_ok=True)
        for f, text in PROJECTS[name]["files"].items():
            open(os.path.join(self.dir, f), "w").write(text)
        self.sources = sorted(f for f in PROJECTS[name]["files"] if f.endswith(".c"))
        self.opts = PROJECTS[name]["opts"]
        self.bin = binary
        self.tmp = ctx.tmp
        self.n = 0

    def newdir(self, tag):
        self.n += 1
        d = os.path.join(self.tmp, "bd_%s_%s_%d_%d" % (self.name, tag, os.getpid(), self.n))
        shutil.rmtree(d, ignore_errors=True)
        os.makedirs(d)
        return d

    def run(self, bd, execname="j1", env=None, debug=False):
        e = dict(os.environ)
        for k in ("VERIF_WORKER_FAULT", "VERIF_SCHED_SEED", "VERIF_CRASH_AT"):
            e.pop(k, None)
        if env:
            e.update(env)
        cmd = [self.bin, "-q", "--template=" + TEMPLATE] + self.opts + (["--cppcheck-build-dir=" + bd] if bd else []) + \
            (["--debug-analyzerinfo"] if debug else []) + EXECS[execname] + self.sources
        try:
            r = subprocess.run(cmd, cwd=self.dir, env=e, stdout=subprocess.PIPE, stderr=subprocess.PIPE, timeout=TIMEOUT)
        except subprocess.TimeoutExpired:
            return None, [], ""
        lines = sorted(l for l in r.stderr.decode("latin-1").split("\n") if l.strip())
        return r.returncode, lines, r.stdout.decode("latin-1")


def cache_files(bd):
    out = {}
    for p in sorted(glob.glob(os.path.join(bd, "*.a[0-9]*"))):
        out[os.path.basename(p)] = open(p, "rb").read()
    return out


def parse_decisions(stdout):
    """per source file: the decision `analyzeFile` printed"""
    dec = {}
    for l in stdout.split("\n"):
        m = re.search(r"skipping analysis - loaded \d+ cached finding\(s\) from '.*' for '(.*)'", l)
        if m:
            dec.setdefault(m.group(1), "reuse"); continue
        m = re.search(r"discarding cached result - failed to load '.*' for '(.*)' \(", l)
        if m:
            dec.setdefault(m.group(1), "load-error"); continue
        m = re.search(r"discarding cached result from '.*' for '(.*)' - (.*)$", l)
        if m:
            why = m.group(2)
            cls = ("no-root" if why.startswith("no root node") else "bad-root" if why.startswith("unexpected root") else
                   "no-hash" if why.startswith("no 'hash'") else "hash-mismatch" if why.startswith("hash mismatch") else
                   "retry" if "encountered" in why else "?" + why)
            dec.setdefault(m.group(1), cls); continue
        m = re.search(r"no cached result '.*' for '(.*)' found", l)
        if m:
            dec.setdefault(m.group(1), "absent")
    return dec


def split_items(data):
    """(hash, items, ok): split a complete cache file into the writes of analyzeFile / reportErr / setFileInfo / close"""
    m = re.match(rb'^<\?xml version="1\.0"\?>\n<analyzerinfo hash="(\d+)">\n', data)
    if not m or not data.endswith(b"</analyzerinfo>\n"):
        return None, [], False
    body = data[m.end():-len(b"</analyzerinfo>\n")]
    starts = [x.start() for x in re.finditer(rb"(?m)^(        <error |  <FileInfo )", body)]
    if body and (not starts or starts[0] != 0):
        return m.group(1), [], False
    items = [body[a:b] for a, b in zip(starts, starts[1:] + [len(body)])]
    return m.group(1), items, True


def strip_code(text):
    """C++ source without comments, whitespace collapsed (string literals kept)"""
    out, i, n = [], 0, len(text)
    while i < n:
        c = text[i]
        if c == '"' or c == "'":
            j = i + 1
            while j < n and text[j] != c:
                j += 2 if text[j] == "\\" else 1
            out.append(text[i:j + 1]); i = j + 1
        elif text.startswith("//", i):
            j = text.find("\n", i)
            i = n if j < 0 else j
        elif text.startswith("/*", i):
            j = text.find("*/", i + 2)
            i = n if j < 0 else j + 2
        else:
            out.append(c); i += 1
    return re.sub(r"\s+", " ", "".join(out))


def func_body(code, signature):
    """body (outermost braces) of the function whose stripped source contains `signature` followed by its parameter list"""
    k = code.find(signature)
    if k < 0 or code.find(signature, k + 1) >= 0:
        return None
    i = code.find("{", k)
    # the parameter list must not contain braces: the first '{' after the signature opens the body
    depth, j, n = 0, i, len(code)
    while j < n:
        c = code[j]
        if c == '"' or c == "'":
            j += 1
            while j < n and code[j] != c:
                j += 2 if code[j] == "\\" else 1
        elif c == "{":
            depth += 1
        elif c == "}":
            depth -= 1
            if depth == 0:
                return code[i:j + 1]
        j += 1
    return None


def window(body, start, end):
    if body is None:
        return None
    a = body.find(start)
    if a >= 0 and end is None:
        return body[a:]
    b = body.find(end, a + 1) if a >= 0 else -1
    return body[a:b + len(end)] if a >= 0 and b >= 0 else None


# sha1 (first 12 hex digits) of the stripped bodies / windows the file-level model copies.  ANY edit inside them makes the
# obligation fail (fail closed: an added code path is a change), then the kill enumeration searches a failing input.
BODY_HASHES = {'analyzerinfo:analyzeFile': '07b4b14cfc1f',
 'analyzerinfo:close': '40df53034007',
 'analyzerinfo:getAnalyzerInfoFile': 'b37f64767a1b',
 'analyzerinfo:processFilesTxt': 'a0e51d51540c',
 'analyzerinfo:reopen': '9d687437862f',
 'analyzerinfo:reportErr': '2d43e9228234',
 'analyzerinfo:setFileInfo': '448fe2443579',
 'analyzerinfo:skipAnalysis': '0c4c4faffdb7',
 'analyzerinfo:writeFilesTxt': 'cb0967eccc13',
 'cppcheck:analyseWholeProgram(buildDir)': '95727fdbf900',
 'cppcheck:checkInternal[before-analysis]': '4a9ee6aa8a30',
 'cppcheck:checkInternal[exits]': 'bd5c338a5d0d',
 'cppcheckexecutor:check[loadSummaries]': '2deaa9664dfd',
 'cppcheckexecutor:check_internal': '414b809c6e14',
 'summaries:getSummaryFiles': 'f507a33eec5a',
 'summaries:loadReturn': '9ffbd2d75f76'}


def body_fragments():
    def rd(*p):
        return strip_code(open(os.path.join(core.REPO, *p), encoding="utf-8", errors="replace").read())
    ai, cc, ce, su = rd("lib", "analyzerinfo.cpp"), rd("lib", "cppcheck.cpp"), rd("cli", "cppcheckexecutor.cpp"), rd("lib", "summaries.cpp")
    ci = func_body(cc, "unsigned int CppCheck::checkInternal(")
    fr = {
        "analyzerinfo:close": func_body(ai, "void AnalyzerInformation::close("),
        "analyzerinfo:skipAnalysis": func_body(ai, "std::string AnalyzerInformation::skipAnalysis("),
        "analyzerinfo:getAnalyzerInfoFile": func_body(ai, "std::string AnalyzerInformation::getAnalyzerInfoFile("),
        "analyzerinfo:analyzeFile": func_body(ai, "bool AnalyzerInformation::analyzeFile("),
        "analyzerinfo:reportErr": func_body(ai, "void AnalyzerInformation::reportErr("),
        "analyzerinfo:setFileInfo": func_body(ai, "void AnalyzerInformation::setFileInfo("),
        "analyzerinfo:processFilesTxt": func_body(ai, "std::string AnalyzerInformation::processFilesTxt("),
        "analyzerinfo:reopen": func_body(ai, "void AnalyzerInformation::reopen("),
        "analyzerinfo:writeFilesTxt": func_body(ai, "void AnalyzerInformation::writeFilesTxt("),
        "cppcheck:checkInternal[before-analysis]": window(ci, "std::unique_ptr<AnalyzerInformation> analyzerInformation;",
                                                           "std::list<Directive> directives = preprocessor.createDirectives();"),
        "cppcheck:checkInternal[exits]": window(ci, "} catch (const TerminateException &) {", None),
        "cppcheck:analyseWholeProgram(buildDir)": func_body(cc, "unsigned int CppCheck::analyseWholeProgram(const std::string &buildDir"),
        "cppcheckexecutor:check_internal": func_body(ce, "int CppCheckExecutor::check_internal("),
        "summaries:loadReturn": func_body(su, "void Summaries::loadReturn("),
        "summaries:getSummaryFiles": func_body(su, "static std::vector<std::string> getSummaryFiles("),
    }
    m = re.search(r"[^;{}]*settings\.loadSummaries\(\);[^;{}]*;", ce)
    fr["cppcheckexecutor:check[loadSummaries]"] = m.group(0).strip() if m and ce.count("loadSummaries") == 1 else None
    return fr


def source_shape(res, drv):
    import hashlib
    for name, body in sorted(body_fragments().items()):
        h = hashlib.sha1(body.encode()).hexdigest()[:12] if body is not None else None
        ok = h is not None and BODY_HASHES.get(name) == h
        res.oblig("T:body:" + name, ok, "translation",
                  "" if ok else "the code the file-level model copies changed (or was not found): %s now %s, modelled %s" % (name, h, BODY_HASHES.get(name)))
    ai = open(os.path.join(core.REPO, "lib", "analyzerinfo.cpp"), encoding="utf-8", errors="replace").read()
    flat = re.sub(r"\s+", " ", re.sub(r"//[^\n]*", "", ai))
    rc, out, err = core.run_lines(drv, [], ["lits"])
    lits = [core.unhx(x) for x in out[0].split()] if out else [b"", b"", b""]

    def cstr(s):
        return s.encode("latin-1").decode("unicode_escape").encode("latin-1")
    m1 = re.search(r'mOutputStream << "((?:[^"\\]|\\.)*)"; mOutputStream << "((?:[^"\\]|\\.)*)" << hash << "((?:[^"\\]|\\.)*)";', flat)
    ok1 = bool(m1) and cstr(m1.group(1)) + cstr(m1.group(2)) == lits[0] and cstr(m1.group(3)) == lits[1]
    res.oblig("T1:header-literals-equal-model", ok1, "translation", "" if ok1 else "analyzeFile no longer writes the header the model's `header` is")
    m2 = re.search(r'void AnalyzerInformation::close\(\) \{ if \(mOutputStream\.is_open\(\)\) \{ mOutputStream << "((?:[^"\\]|\\.)*)"; mOutputStream\.close\(\);', flat)
    ok2 = bool(m2) and cstr(m2.group(1)) == lits[2] and flat.count('"</analyzerinfo>') == 2
    res.oblig("T2:footer-only-in-close", ok2, "translation", "" if ok2 else "close() / the places writing </analyzerinfo> changed")
    ok3 = ("mOutputStream << msg.toXML() << '\\n';" in flat and
           'mOutputStream << " <FileInfo check=\\"" << check << "\\">\\n" << fileInfo << " </FileInfo>\\n";' in flat)
    res.oblig("T3:item-writes", ok3, "translation", "" if ok3 else "reportErr / setFileInfo write something else than the model's items")
    # every place that opens a file of the build directory for writing is one the model knows (L2: one writer per cache file)
    srcs = {}
    for d in ("lib", "cli"):
        for f in glob.glob(os.path.join(core.REPO, d, "*.cpp")):
            srcs[os.path.relpath(f, core.REPO)] = strip_code(open(f, encoding="utf-8", errors="replace").read())
    opens = sorted(f for f, c in srcs.items() if "mOutputStream.open(" in c)
    okw = opens == ["lib/analyzerinfo.cpp"] and srcs["lib/analyzerinfo.cpp"].count("mOutputStream.open(") == 2
    res.oblig("T7:cache-file-writers", okw, "translation", "" if okw else "cache files are opened for writing in %s" % opens)


SPECIAL = (":unmatchedSuppression:", ":checkersReport:")
RETRY_IDS = ("premium-invalidLicense", "premium-internalError", "internalError")


def is_wp_error(line):
    return ":internalError:" in line and ("failed to load '" in line or "no root node found in" in line or "unexpected root node in" in line
                                          or "failed to parse '" in line or "empty afile from" in line)


class Explorer:
    def __init__(self, ctx, res, drv, exe):
        self.ctx, self.res, self.drv, self.exe = ctx, res, drv, exe
        self.blobs = set()           # distinct cache file contents seen (for C1)
        self.decisions = []          # (desc, hash, bytes|None, real decision)
        self.frun = []               # (desc, op line, observed dict, known key) for the file-level correspondence
        self.shim = None

    # ---- reference data of a project --------------------------------------------------------------------------
    def fresh(self, proj):
        bd = proj.newdir("fresh")
        rc, lines, out = proj.run(bd)
        if rc is None:
            raise core.CheckBroken("C20: fresh run of %s timed out" % proj.name)
        proj.fresh_lines, proj.fresh_rc, proj.fresh_bd = lines, rc, bd
        proj.fresh_cache = cache_files(bd)
        proj.hash = {}
        for name, data in proj.fresh_cache.items():
            m = re.search(rb'<analyzerinfo hash="(\d+)">', data)
            proj.hash[name] = m.group(1) if m else b""
            self.blobs.add(data)
        proj.afile = {}
        for l in open(os.path.join(bd, "files.txt")).read().split("\n"):
            if l.count(":") >= 3:
                proj.afile[l.split(":")[3]] = l.split(":")[0]
        # THE reference of the property: a run without build directory
        rcn, linesn, _ = proj.run(None)
        proj.nobd_lines = linesn
        same = linesn == lines
        self.res.oblig("M1:empty-build-dir==no-build-dir:" + proj.name, same, "correspondence",
                       "" if same else "a run on an empty build dir reports %s, a run without build dir %s" % (lines, linesn))
        # the documents before the unmatched-suppression `reopen` phase (kill after the last file is done)
        pre = proj.newdir("pre")
        proj.run(pre, "j1", {"VERIF_CRASH_AT": "filedone:%d" % len(proj.sources)})
        proj.pre_cache = cache_files(pre)
        shutil.rmtree(pre, ignore_errors=True)
        for data in proj.pre_cache.values():
            self.blobs.add(data)
        # ids: template lines <-> numbers, FileInfo blocks <-> numbers (0 = unknown whole-program input, 1 = processFilesTxt error, 2 = checkers line)
        proj.lid, proj.iid = {}, {}
        proj.items = {}
        ok = True
        for variant, cache in (("pre", proj.pre_cache), ("final", proj.fresh_cache)):
            for af, data in cache.items():
                h, items, good = split_items(data)
                ok = ok and good
                proj.items[(variant, af)] = [(it, self.payload(proj, it)) for it in items]
        self.res.oblig("H0:reference-cache-files-split:" + proj.name, ok, "hypothesis", "" if ok else "a complete cache file of the fresh run does not split into items")
        proj.early = {}
        for src in proj.sources:
            if proj.afile.get(src) not in proj.fresh_cache:
                r = subprocess.run([proj.bin, "-q", "--template=" + TEMPLATE] + proj.opts + [src], cwd=proj.dir, stdout=subprocess.PIPE, stderr=subprocess.PIPE, timeout=TIMEOUT)
                proj.early[src] = [self.lineid(proj, l) for l in r.stderr.decode("latin-1").split("\n") if l.strip() and not any(x in l for x in SPECIAL)]
        per_file = set()
        for src in proj.sources:
            if src in proj.early:
                per_file.update(proj.early[src])
            else:
                per_file.update(int(p[1:].rstrip("r")) for _, p in proj.items[("pre", proj.afile[src])] if p[0] == "E")
        proj.wp_findings = sorted(set(self.lineid(proj, l) for l in linesn if not any(x in l for x in SPECIAL)) - per_file)
        proj.wp_infos = [int(p[1:]) for src in proj.sources if src not in proj.early for _, p in proj.items[("pre", proj.afile[src])] if p[0] == "I"]

    def lineid(self, proj, line):
        if is_wp_error(line):
            return 1
        if line not in proj.lid:
            proj.lid[line] = len(proj.lid) + 10
        return proj.lid[line]

    def payload(self, proj, item):
        import xml.etree.ElementTree as ET
        if item.lstrip().startswith(b"<FileInfo"):
            if item not in proj.iid:
                proj.iid[item] = len(proj.iid) + 1
            return "I%d" % proj.iid[item]
        try:
            e = ET.fromstring(item.decode("latin-1"))
            loc = e.find("location")
            line = "%s:%s:%s:%s" % (loc.get("file") if loc is not None else "nofile", loc.get("line") if loc is not None else "0", e.get("id"), e.get("msg"))
            if any(x in line for x in SPECIAL):
                return "E3"          # unmatchedSuppression entries appended through `reopen`: outside the model, filtered on both sides
            return "E%d%s" % (self.lineid(proj, line), "r" if e.get("id") in RETRY_IDS else "")
        except Exception:
            return "E0"

    def items_spec(self, proj, variant, af):
        its = proj.items.get((variant, af), [])
        return ",".join("%s:%s" % (core.hx(b), p) for b, p in its) if its else "-"

    # ---- one case ---------------------------------------------------------------------------------------------
    def killshim(self):
        if self.shim is None:
            so = os.path.join(self.ctx.tmp, "c20_killmain.so")
            r = subprocess.run(["cc", "-shared", "-fPIC", "-O1", "-o", so, os.path.join(core.VERIF, "harness", "c20_killmain.c"), "-ldl"],
                               stdout=subprocess.PIPE, stderr=subprocess.STDOUT, text=True)
            if r.returncode != 0:
                raise core.CheckBroken("C20: kill shim does not compile: " + r.stdout[-800:])
            self.shim = so
        return self.shim

    def one(self, proj, case):
        bd = proj.newdir("c")
        died = False
        if case["type"] == "kill":
            rc1, l1, _ = proj.run(bd, case["exec"], {"VERIF_CRASH_AT": "%s:%d" % (case["kind"], case["k"])})
            died = rc1 == 137 or any("cppcheckError" in l for l in l1)
        elif case["type"] == "killmain":
            # only the MAIN process is killed (SIGKILL) at the k-th build-dir operation of a worker; the workers live on
            rc1, l1, _ = proj.run(bd, case["exec"], {"C20_KILLMAIN": "%s/:%s:%d" % (bd, case["kind"], case["k"]), "LD_PRELOAD": self.killshim()})
            died = rc1 in (-9, 137)
            time.sleep(0.05)
        else:
            shutil.rmtree(bd)
            shutil.copytree(proj.fresh_bd, bd)
            p = os.path.join(bd, case["file"])
            data = open(p, "rb").read()
            died = case["len"] < len(data)
            open(p, "wb").write(data[:case["len"]])
        snap = cache_files(bd)
        keep = bd + "_crash"
        shutil.copytree(bd, keep)
        rc2, l2, out2 = proj.run(bd, case.get("exec2", "j1"), debug=True)
        post = cache_files(bd)
        return dict(case=case, died=died, snap=snap, rc2=rc2, lines2=l2, dec=parse_decisions(out2), keep=keep, bd=bd, post=post)

    def judge(self, proj, r):
        res, case = self.res, r["case"]
        desc = "%s %s" % (proj.name, " ".join("%s=%s" % (k, case[k]) for k in sorted(case) if k != "type"))
        res.case(case["type"] + "|" + desc, r["died"], dict(tie="P_impl", op=desc, impl="run2=%d lines" % len(r["lines2"]), model="no-build-dir=%d lines" % len(proj.nobd_lines))
                 if len(res.samples) < 6 else None)
        res.count("type:" + case["type"]); res.count("exec:" + case.get("exec", "-")); res.count("kind:" + case.get("kind", "bytecut"))
        res.count("first-run-died:%s" % r["died"])
        res.extra["kill_cut_cases"] = res.extra.get("kill_cut_cases", 0) + 1
        if r["died"]:
            res.extra["kill_cut_cases_nontrivial"] = res.extra.get("kill_cut_cases_nontrivial", 0) + 1
        for name, data in r["snap"].items():
            self.blobs.add(data)
        for src in proj.sources:
            af = proj.afile.get(src)
            real = r["dec"].get(src)
            if af is None or real is None:
                continue
            self.decisions.append((desc + " " + src, proj.hash.get(af, b""), r["snap"].get(af), real))
            res.count("decision:" + real)
        if r["rc2"] is None:
            res.violation("complete run after %s did not terminate" % desc, dict(case=case, project=proj.name), True, "no-termination")
            return
        replay = dict(case=case, project=proj.name, files=PROJECTS[proj.name]["files"], opts=proj.opts, replay_cmd="./check.py C20 --replay <this file>")
        # (1) the kill state is one the model knows: every cache file is a byte prefix of the document the run writes into it
        disk, outside = {}, []
        for src in proj.sources:
            af = proj.afile.get(src)
            data = r["snap"].get(af)
            pre, fin = proj.pre_cache.get(af), proj.fresh_cache.get(af)
            if data is None:
                disk[src] = "-"
            elif pre is not None and pre.startswith(data):
                disk[src] = "R%d" % len(data)
            elif fin is not None and fin.startswith(data):
                disk[src] = "X%d/%s/%s" % (len(data), core.hx(proj.hash[af]), self.items_spec(proj, "final", af))
            else:
                outside.append((src, data))
        key = None
        if outside:
            src, data = outside[0]
            res.violation("after %s the cache file of %s is not a byte prefix of the document a complete run writes (%d bytes, well-formed: %s): a kill "
                          "state outside `CacheCrash.crashDir`" % (desc, src, len(data), data.rstrip().endswith(b"</analyzerinfo>")),
                          dict(replay, cache_file=data.decode("latin-1")[-1500:]), True, None)
            res.count("kill-state-outside-model")
        # (2) P_impl: the complete run reports what a run WITHOUT build directory reports
        if r["lines2"] != proj.nobd_lines:
            extra = [l for l in r["lines2"] if l not in proj.nobd_lines]
            missing = [l for l in proj.nobd_lines if l not in r["lines2"]]
            key = self.classify(proj, r, extra, missing)
            res.violation("after %s the complete run differs from a run without build dir: extra=%s missing=%s" % (desc, extra, missing),
                          dict(replay, extra=extra, missing=missing), True, key)
            res.count("differs:" + str(key))
        # (3) the file-level model on this very state
        if not outside:
            fl = []
            for i, src in enumerate(proj.sources):
                af = proj.afile.get(src)
                early = ("e" + ",".join(map(str, proj.early[src]))) if src in proj.early else "-"
                fl.append("%d;%s;%s;%s;%s" % (i, core.hx(proj.hash.get(af, b"")), early, self.items_spec(proj, "pre", af), disk[src]))
            op = "frun 0 wp=%s:%s %s" % (",".join(map(str, proj.wp_infos)) or "-", ",".join(map(str, proj.wp_findings)) or "-", " ".join(fl))
            acts = "".join("e" if src in proj.early and src not in r["dec"] else "r" if r["dec"].get(src) == "reuse" else "a" if src in r["dec"] else "?"
                           for src in proj.sources)
            ids = sorted(set(self.lineid(proj, l) for l in r["lines2"] if not any(x in l for x in SPECIAL)))
            nosupp = not any(o.startswith("--suppress") for o in proj.opts)
            post = ",".join("-" if proj.afile.get(src) not in r["post"] else "%d" % len(r["post"][proj.afile[src]]) for src in proj.sources) if nosupp else None
            postbytes = [(r["post"].get(proj.afile.get(src)), proj.fresh_cache.get(proj.afile.get(src))) for src in proj.sources] if nosupp else None
            self.frun.append((desc, op, dict(actions=acts, ids=ids, wperr=any(is_wp_error(l) for l in r["lines2"]), post=post, postbytes=postbytes), key))
        for d in (r["keep"], r["bd"]):
            shutil.rmtree(d, ignore_errors=True)

    def classify(self, proj, r, extra, missing):
        """known-finding classes, each confirmed by a causal control experiment on the saved post-crash directory"""
        diff = extra + missing
        if diff and all(":checkersReport:" in l for l in diff):
            return "checkers-report-after-crash"
        # summaries: remove the summary files of the interrupted run and repeat the complete run
        ctl = r["keep"] + "_ctl"
        shutil.copytree(r["keep"], ctl)
        removed = 0
        for p in glob.glob(os.path.join(ctl, "*.s[0-9]*")) + glob.glob(os.path.join(ctl, "*.snalyzerinfo")):
            os.remove(p); removed += 1
        rc, lines, _ = proj.run(ctl, r["case"].get("exec2", "j1"))
        shutil.rmtree(ctl, ignore_errors=True)
        if removed and lines == proj.nobd_lines:
            return "summaries-after-crash"
        return None

    def explore(self, proj, cases):
        with concurrent.futures.ThreadPoolExecutor(max_workers=6) as ex:
            rs = list(ex.map(lambda c: self.one(proj, c), cases))
        for r in rs:
            self.judge(proj, r)
        return rs

    def kill_cases(self, proj, execname, kinds=KINDS, maxk=60, ctype="kill"):
        """every k of every kind until the first run survives (all kinds advance together, three k per round)"""
        out = []
        active = list(kinds)
        k = 1
        while active and k <= maxk:
            batch = [dict(type=ctype, exec=execname, kind=kind, k=kk) for kind in active for kk in range(k, k + 3)]
            rs = self.explore(proj, batch)
            out += rs
            active = [kind for kind in active if all(r["died"] for r in rs if r["case"]["kind"] == kind)]
            k += 3
        return out

    def finish(self):
        res, ctx = self.res, self.ctx
        # C3: the file-level model (`completeRun` on `crashDir`, `runActions`, `collectInfos`, `noBuildDirRun`) executed by the driver on
        # the real post-kill state vs. what the real complete run did: per-file action, findings, whole-program load error, directory left
        if self.frun:
            rc, out, err = core.run_lines(self.drv, [], [op for _, op, _, _ in self.frun], timeout=900)
            bad, badpost, outside = [], [], 0
            if len(out) != len(self.frun):
                bad.append(("driver", "produced %d lines for %d ops: %s" % (len(out), len(self.frun), err[-300:]), ""))
            for (desc, op, obs, key), o in zip(self.frun, out):
                m = re.match(r"^actions=(\S+) findings=(\S+) wp=(ok|err) post=(\S*) nobd=(\S+)$", o)
                if not m:
                    bad.append((desc, "driver line: " + o[:200], "")); continue
                mids = sorted(set(int(x) for x in m.group(2).split(",") if x != "-") - {3})
                nobd = sorted(set(int(x) for x in m.group(5).split(",") if x != "-") - {3})
                impl = "actions=%s ids=%s wperr=%s" % (obs["actions"], obs["ids"], obs["wperr"])
                model = "actions=%s ids=%s wperr=%s" % (m.group(1), mids, m.group(3) == "err")
                res.case("frun|" + desc, True, dict(tie="file-level-model", op=desc, impl=impl, model=model) if len(res.samples) < 9 else None)
                if key is not None:
                    # outside the theorem's hypotheses (F20a: analysis depends on summaries; F20b: checkers line): only the actions are comparable
                    outside += 1
                    impl, model = "actions=" + obs["actions"], "actions=" + m.group(1)
                if impl != model:
                    bad.append((desc, impl, model))
                else:
                    res.traces_validated += 1
                if key is None and mids != nobd:
                    bad.append((desc, "model completeRun=%s" % mids, "model noBuildDirRun=%s" % nobd))
                if obs["post"] is not None and key is None:
                    mpost = ",".join(x.split(":")[0] for x in m.group(4).split(","))
                    # byte-identical to the document of the fresh run, cut where the model says
                    same = mpost == obs["post"] and all((real is None and fr is None) or (real is not None and fr is not None and fr[:len(real)] == real)
                                                        for real, fr in obs["postbytes"])
                    if not same:
                        badpost.append((desc, "real sizes %s" % obs["post"], "model sizes " + mpost))
            res.oblig("correspondence:file-level-run-model", not bad, "correspondence",
                      "" if not bad else "%d of %d post-kill states: the real complete run and `completeRun` disagree; first: %s impl=[%s] model=[%s]" %
                      (len(bad), len(self.frun), bad[0][0], bad[0][1], bad[0][2]))
            res.oblig("correspondence:post-run-directory", not badpost, "correspondence",
                      "" if not badpost else "%d states: the directory left by the real complete run differs from the model's / the fresh one; first: %s %s | %s" %
                      (len(badpost), badpost[0][0], badpost[0][1], badpost[0][2]))
            res.extra["file_level_model_states"] = len(self.frun)
            res.extra["file_level_model_states_outside_hypotheses"] = outside
        # C2: reuse decisions
        ops, real = [], []
        for desc, h, data, dec in self.decisions:
            if data is None:
                continue
            if b"\0" in data:
                continue
            ops.append("decide %s %s" % (core.hx(h), core.hx(data))); real.append((desc, dec))
        absent_bad = [d for d in self.decisions if d[2] is None and d[3] != "absent"]
        if ops:
            rc, out, err = core.run_lines(self.drv, [], ops, timeout=900)
            bad = [(d, dec, o) for (d, dec), o in zip(real, out) if dec != o]
            res.traces_validated += len(ops) - len(bad)
            res.oblig("correspondence:reuse-decision", not bad and not absent_bad and len(out) == len(ops), "correspondence",
                      "" if not (bad or absent_bad) else "analyzeFile decided differently from the model: %s %s" % (bad[:2], absent_bad[:2]))
        # C1: every byte prefix of every cache file content seen
        prefixes = set()
        for b in self.blobs:
            for n in range(len(b) + 1):
                prefixes.add(b[:n])
        rng = ctx.rng
        frag = [b"<", b">", b"/", b'"', b"'", b"=", b" ", b"\n", b"a", b"b", b"<a>", b"</a>", b"<a/>", b"<!--", b"-->", b"<?", b"?>", b"<![CDATA[", b"]]>",
                b"<!", b'x="1"', b"-", b".", b":", b"_", b"1", b"<b x=\"1\" y='2'>", b"</b>", b"text", b'<?xml version="1.0"?>', b"\t", b"]", b"?", b"!",
                b"<analyzerinfo hash=\"12\">", b"</analyzerinfo>", b"  <FileInfo check=\"ctu\">", b"  </FileInfo>"]
        gen = set()
        blobs = sorted(self.blobs)
        for _ in range(4000 if ctx.tier == "thorough" else 1200):
            gen.add(b"".join(rng.choice(frag) for _ in range(rng.randrange(1, 9))))
            if blobs:
                d = bytearray(rng.choice(blobs)[:rng.randrange(40, 500)])
                for _ in range(rng.randrange(1, 3)):
                    if not d:
                        break
                    i = rng.randrange(len(d)); x = rng.random()
                    if x < 0.4:
                        d[i:i + 1] = rng.choice(frag)
                    elif x < 0.7:
                        del d[i]
                    else:
                        d[i:i] = rng.choice(frag)
                gen.add(bytes(d))
        allops = sorted(p for p in prefixes | gen if b"\0" not in p)
        if ctx.tier != "thorough" and len(allops) > 6000:
            keep = set(rng.sample(allops, 6000))
            allops = [p for p in allops if p in keep]
        lines = ["load " + core.hx(p) for p in allops]
        rc, impl, err = core.run_lines(self.exe, [], lines, timeout=900)
        rc, model, err = core.run_lines(self.drv, [], lines, timeout=900)
        # entity decoding of attribute values is outside the model: compare such cases up to the attribute values
        def norm(o):
            return re.sub(r"=\S+", "=*", o) if "26" in o else o
        impl2, model2 = [], []
        for p, a, b in zip(allops, impl, model):
            if b"&" in p:
                a, b = norm(a), norm(b)
                res.count("xml:with-entity")
            impl2.append(a); model2.append(b)
        core.correspond(ctx, res, "tinyxml2-vs-XmlWf", lines, impl2, model2,
                        nontrivial=lambda op, out: out != "err")
        res.extra["xml_prefixes"] = len(prefixes)
        res.extra["xml_generated"] = len(gen)
        res.extra["cache_file_contents_seen"] = len(self.blobs)
        # H1: items of complete files are balanced
        ops, metas = [], []
        for b in blobs:
            h, items, ok = split_items(b)
            if h is None:
                continue
            if not ok or b"".join(items) == b"" and False:
                metas.append((b, None)); continue
            ops.append("items %s %s" % (core.hx(h), " ".join(core.hx(i) for i in items) if items else ""))
            metas.append((b, items))
        bad = [m for m in metas if m[1] is None]
        rc, out, err = core.run_lines(self.drv, [], [o.strip() for o in ops], timeout=900)
        good = 0
        for o in out:
            m = re.match(r"^(\S+) doc=(\d) hashok=(\d)$", o)
            if m and m.group(2) == "1" and m.group(3) == "1" and set(m.group(1)) <= set("1-"):
                good += 1
        res.oblig("H1:real-items-balanced", not bad and good == len(ops) and len(ops) > 0, "hypothesis",
                  "" if (not bad and good == len(ops)) else "%d complete cache files whose items are not balanced / not splittable (of %d)" % (len(ops) - good + len(bad), len(ops)))
        res.extra["complete_cache_files_checked"] = len(ops)


def load_corpus():
    p = os.path.join(core.VERIF, "corpus", "C20", "cases.json")
    return json.load(open(p)) if os.path.exists(p) else []


def run(ctx, res):
    thorough = ctx.tier == "thorough"
    rng = ctx.rng
    core.prove(ctx, res, MODULES, THEOREMS)
    drv = ctx.driver("drv_c20")
    exe = ctx.harness("c20")
    source_shape(res, drv)
    binary = private_binary(ctx, "VERIF_C20_BIN")
    projs = {n: Proj(ctx, n, binary) for n in PROJECTS}
    ex = Explorer(ctx, res, drv, exe)
    for p in projs.values():
        ex.fresh(p)
    # corpus (witnesses of the known findings) first
    for c in load_corpus():
        ex.explore(projs[c["project"]], [dict(type="kill", exec=c["exec"], kind=c["kind"], k=c["k"])])
    # kill model 2: only the MAIN process is killed while workers run (process executor); every k of every operation kind
    KM = ["open", "write", "close"]
    if thorough:
        for name, p in projs.items():
            ex.kill_cases(p, "process", kinds=KM, ctype="killmain")
        ex.kill_cases(projs["base3"], "process3", kinds=KM, ctype="killmain")
    else:
        ex.kill_cases(projs["base3"], "process", kinds=KM, ctype="killmain")
    if thorough:
        for name, p in projs.items():
            for execname in ("j1", "thread", "process"):
                ex.kill_cases(p, execname)
    else:
        ex.kill_cases(projs["base3"], "j1")
        ex.kill_cases(projs["early2"], "j1", kinds=["cacheopen", "finding"])
        ex.kill_cases(projs["info3"], "j1", kinds=["cachereopen", "cacheclose"])
        for execname in ("thread", "process"):
            cs = [dict(type="kill", exec=execname, kind=rng.choice(KINDS[:3] + ["finding"]), k=rng.randrange(1, 6)) for _ in range(3)]
            ex.explore(projs[rng.choice(["base3", "summ2", "early2"])], cs)
    # torn writes: byte cuts of complete cache files
    for name in (["base3", "early2", "summ2", "info3"] if thorough else ["base3"]):
        p = projs[name]
        cuts = []
        for af, data in sorted(p.fresh_cache.items()):
            if thorough and len(data) <= 200:
                ls = list(range(len(data) + 1))
            else:
                n = 40 if thorough else 4
                ls = sorted(set([0, 1, len(data) - 2, len(data) - 1] + [rng.randrange(len(data)) for _ in range(n)]))
            cuts += [dict(type="cut", file=af, len=L) for L in ls if 0 <= L <= len(data)]
        ex.explore(p, cuts)
    ex.finish()
    res.assumptions += [
        "WellFormedWorld: every <error> / <FileInfo> item the analysis writes is balanced XML — validated on every cache file written during this run (H1), not proved from ErrorMessage::toXML / FileInfo::toString",
        "the whole-program analysis is the same function of the same FileInfo blocks whether they are kept in memory (no build dir) or re-read from the cache files (C22); tied per project by M1 (empty build dir == no build dir)",
        "a cached <error> element replays as the finding that was written (round trip of ErrorMessage XML, C26); the model identifies them",
        "findings are compared as sets of template lines (the outer logger's duplicate filter is C15's)",
        "files.txt assigns the same cache file names on every run with the same inputs",
    ]
    res.extra["exhaustive"] = dict(dimension="kill index k for every kind (cacheopen, cachewrite, cacheclose, cachereopen, finding, filedone) "
                                   + ("x {j1, thread -j2, process -j2} x 4 projects; every byte cut of cache files <= 200 bytes" if thorough
                                      else "for -j1 on projects base3 / early2 (+ reopen/close windows of info3)"), value=True)


def replay(ctx, res, rp):
    binary = private_binary(ctx, "VERIF_C20_BIN")
    p = Proj(ctx, rp["project"], binary)
    drv = ctx.driver("drv_c20"); exe = ctx.harness("c20")
    ex = Explorer(ctx, res, drv, exe)
    ex.fresh(p)
    r = ex.one(p, rp["case"])
    bad = r["lines2"] != p.nobd_lines
    print("replay: no-build-dir=%s\n        after=%s" % (p.nobd_lines, r["lines2"]))
    if bad:
        print("VIOLATION property=C20 replay=(replayed) complete run after the kill differs from the fresh run")
    return 1 if bad else 0

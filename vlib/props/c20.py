"""C20 — an interrupted run never corrupts later incremental results.

Obligations
  theorems   Cppcheck.XmlWf.strict_prefix_not_wf / complete_document_loads (byte level: model of tinyxml2's parser),
             Cppcheck.CacheCrash.crash_then_run_eq_fresh_partial (+ crash_once…, run_on_foreign_dir_eq_fresh,
             usable_eq_decision) and the counterexample theorems for the full-strength statement (F20a summaries, F20b
             checkers report) and for the skipped-file premise
  T1..T6     source-shape checks of lib/analyzerinfo.cpp, lib/cppcheck.cpp, cli/cppcheckexecutor.cpp (the literals and
             statements the model copies; the document literals are compared with the model's through the driver)
  C1         tinyxml2 as linked into cppcheck (in-process harness) == XmlWf.load on EVERY byte prefix of the cache files the
             real binary wrote during this run (complete and crashed ones) + generated XML-ish strings
  C2         `analyzeFile`'s decision on each cache file of each post-crash build directory, as printed by the real binary
             (--debug-analyzerinfo), == XmlWf.decision on the bytes found on disk
  H1         hypothesis validation: every item of every cache file written by the real binary is `balancedItem`, every key
             is decimal, and the re-assembled document is byte-identical to the file
P_impl       for every explored kill point / byte truncation: findings of the complete run that follows == findings of a run
             on an empty build directory (multiset of template lines)
"""
import concurrent.futures, glob, json, os, re, shutil, subprocess, time
from .. import core, build_repo

ID = "C20"
LEVEL = "proof"
RULE = ("case = (project, executor j1|thread -j2|process -j2, kill kind cacheopen|cachewrite|cacheclose|cachereopen|finding|filedone, "
        "k) or (project, cache file, byte length L of a torn write), followed by a complete run on the same build dir; distinct = "
        "different tuple; non-trivial = the first run really died (exit 137 / worker killed) resp. the file was really cut; quick: "
        "every k of every kind for -j1 on two projects + witnesses + samples for the other executors / projects / byte cuts; "
        "thorough: every k of every kind x 3 executors x all projects, every byte cut of the small cache files")
EXPLANATION = ("Lean: (1) a byte-level model of tinyxml2's parser proves that no strict prefix of a cache document (beyond the final "
               "newline) loads with a root element; (2) a file-level model of a run (summaries, files.txt, per-file reuse decision, "
               "cache rewrite, whole-program loading, checkers.txt) proves for every kill state of every executor and any history of "
               "kills that the next complete run reports what a run on an empty build dir reports, under two hypotheses whose "
               "necessity is proved by counterexample and reproduced on the real binary (F20a, F20b). The per-file analysis, the "
               "whole-program analysis and the hash are parameters. Outside the model: suppressions (unmatchedSuppression "
               "entries appended through reopen are only a kill window), addons/ctu-info files, plist/dump outputs, the parse of "
               "<error>/<FileInfo> children (trusted round trip), BOM/entity handling of tinyxml2.")
THEOREMS = ["Cppcheck.XmlWf.strict_prefix_not_wf", "Cppcheck.XmlWf.complete_document_loads",
            "Cppcheck.CacheCrash.crash_then_run_eq_fresh_partial", "Cppcheck.CacheCrash.crash_once_then_run_eq_fresh",
            "Cppcheck.CacheCrash.run_on_foreign_dir_eq_fresh", "Cppcheck.CacheCrash.usable_eq_decision",
            "Cppcheck.CacheCrash.crash_then_run_eq_fresh_counterexample_summaries",
            "Cppcheck.CacheCrash.crash_then_run_eq_fresh_counterexample_checkers",
            "Cppcheck.CacheCrash.crash_then_run_eq_fresh_counterexample",
            "Cppcheck.CacheCrash.stale_cache_of_skipped_file_counterexample"]
MODULES = ["Cppcheck.Props.C20"]

TEMPLATE = "{file}:{line}:{id}:{message}"
TIMEOUT = 90
KINDS = ["cacheopen", "cachewrite", "cacheclose", "cachereopen", "finding", "filedone"]
EXECS = {"j1": [], "thread": ["-j2", "--executor=thread"], "process": ["-j2", "--executor=process"]}

H_H = "static int hbad(void) { int a[2]; a[0] = 0; return a[3]; }\n"
A_C = ('#include "h.h"\nint a1(void) { int x[2]; x[3] = 1; return hbad(); }\n#ifdef CFGA\nint a2(void) { char *p = 0; return *p; }\n#endif\n'
       "void useb(void) { extern void fb(int *); fb(0); }\n")
B_C = '#include "h.h"\nvoid fb(int *p) { *p = 1; }\nint b1(void) { int x[2]; x[0] = 0; return x[5] + hbad(); }\n'
C_C = "int c1(int v) { return v + 1; }\n"
PROJECTS = {
    "base3": dict(files={"h.h": H_H, "a.c": A_C, "b.c": B_C, "c.c": C_C}, opts=[]),
    "info3": dict(files={"h.h": H_H, "a.c": A_C, "b.c": B_C, "c.c": C_C},
                  opts=["--enable=information", "--suppress=zerodiv:a.c", "--suppress=memleak:b.c"]),
    "summ2": dict(files={"b.c": "void f(void) { }\n",
                         "z.c": "#include <stdlib.h>\nvoid g(void) { char *p = malloc(10); if (!p) return; *p = 0; f(); }\n"}, opts=[]),
    "early2": dict(files={"a.c": "int ok1(void) { int a[2]; a[0] = 1; return a[2]; }\n",
                          "w.c": "int w1(void) { return 1/0; }\nconst char *s = \"abc;\n"}, opts=[]),
}


def private_binary(ctx, envname):
    """a private copy of the freshly built binary (colleagues' checks relink .build/o1/bin/cppcheck in place while this
    check runs); copied under the build lock, with the cfg/platforms/addons links cppcheck looks up next to its executable"""
    if os.environ.get(envname):
        return os.environ[envname]
    d = os.path.join(ctx.tmp, "bin")
    os.makedirs(d, exist_ok=True)
    dst = os.path.join(d, "cppcheck")
    if not os.path.exists(dst):
        with build_repo.Lock("repo-" + ctx.variant):
            shutil.copy2(ctx.cppcheck, dst)
        for sub in ("cfg", "platforms", "addons"):
            os.symlink(os.path.join(core.REPO, sub), os.path.join(d, sub))
    return dst


class Proj:
    def __init__(self, ctx, name, binary):
        self.name = name
        self.dir = os.path.join(ctx.tmp, "src_" + name)
        os.makedirs(self.dir, exist_ok=True)
        for f, text in PROJECTS[name]["files"].items():
            open(os.path.join(self.dir, f), "w").write(text)
        self.sources = sorted(f for f in PROJECTS[name]["files"] if f.endswith(".c"))
        self.opts = PROJECTS[name]["opts"]
        self.bin = binary
        self.tmp = ctx.tmp
        self.n = 0

    def newdir(self, tag):
        self.n += 1
        d = os.path.join(self.tmp, "bd_%s_%s_%d_%d" % (self.name, tag, os.getpid(), self.n))
        shutil.rmtree(d, ignore_errors=True)
        os.makedirs(d)
        return d

    def run(self, bd, execname="j1", env=None, debug=False):
        e = dict(os.environ)
        for k in ("VERIF_WORKER_FAULT", "VERIF_SCHED_SEED", "VERIF_CRASH_AT"):
            e.pop(k, None)
        if env:
            e.update(env)
        cmd = [self.bin, "-q", "--template=" + TEMPLATE] + self.opts + (["--cppcheck-build-dir=" + bd] if bd else []) + \
            (["--debug-analyzerinfo"] if debug else []) + EXECS[execname] + self.sources
        try:
            r = subprocess.run(cmd, cwd=self.dir, env=e, stdout=subprocess.PIPE, stderr=subprocess.PIPE, timeout=TIMEOUT)
        except subprocess.TimeoutExpired:
            return None, [], ""
        lines = sorted(l for l in r.stderr.decode("latin-1").split("\n") if l.strip())
        return r.returncode, lines, r.stdout.decode("latin-1")


def cache_files(bd):
    out = {}
    for p in sorted(glob.glob(os.path.join(bd, "*.a[0-9]*"))):
        out[os.path.basename(p)] = open(p, "rb").read()
    return out


def parse_decisions(stdout):
    """per source file: the decision `analyzeFile` printed"""
    dec = {}
    for l in stdout.split("\n"):
        m = re.search(r"skipping analysis - loaded \d+ cached finding\(s\) from '.*' for '(.*)'", l)
        if m:
            dec.setdefault(m.group(1), "reuse"); continue
        m = re.search(r"discarding cached result - failed to load '.*' for '(.*)' \(", l)
        if m:
            dec.setdefault(m.group(1), "load-error"); continue
        m = re.search(r"discarding cached result from '.*' for '(.*)' - (.*)$", l)
        if m:
            why = m.group(2)
            cls = ("no-root" if why.startswith("no root node") else "bad-root" if why.startswith("unexpected root") else
                   "no-hash" if why.startswith("no 'hash'") else "hash-mismatch" if why.startswith("hash mismatch") else
                   "retry" if "encountered" in why else "?" + why)
            dec.setdefault(m.group(1), cls); continue
        m = re.search(r"no cached result '.*' for '(.*)' found", l)
        if m:
            dec.setdefault(m.group(1), "absent")
    return dec


def split_items(data):
    """(hash, items, ok): split a complete cache file into the writes of analyzeFile / reportErr / setFileInfo / close"""
    m = re.match(rb'^<\?xml version="1\.0"\?>\n<analyzerinfo hash="(\d+)">\n', data)
    if not m or not data.endswith(b"</analyzerinfo>\n"):
        return None, [], False
    body = data[m.end():-len(b"</analyzerinfo>\n")]
    starts = [x.start() for x in re.finditer(rb"(?m)^(        <error |  <FileInfo )", body)]
    if body and (not starts or starts[0] != 0):
        return m.group(1), [], False
    items = [body[a:b] for a, b in zip(starts, starts[1:] + [len(body)])]
    return m.group(1), items, True


def source_shape(res, drv):
    ai = open(os.path.join(core.REPO, "lib", "analyzerinfo.cpp"), encoding="utf-8", errors="replace").read()
    flat = re.sub(r"\s+", " ", re.sub(r"//[^\n]*", "", ai))
    rc, out, err = core.run_lines(drv, [], ["lits"])
    lits = [core.unhx(x) for x in out[0].split()] if out else [b"", b"", b""]

    def cstr(s):
        return s.encode("latin-1").decode("unicode_escape").encode("latin-1")
    m1 = re.search(r'mOutputStream << "((?:[^"\\]|\\.)*)"; mOutputStream << "((?:[^"\\]|\\.)*)" << hash << "((?:[^"\\]|\\.)*)";', flat)
    ok1 = bool(m1) and cstr(m1.group(1)) + cstr(m1.group(2)) == lits[0] and cstr(m1.group(3)) == lits[1]
    res.oblig("T1:header-literals-equal-model", ok1, "translation", "" if ok1 else "analyzeFile no longer writes the header the model's `header` is")
    m2 = re.search(r'void AnalyzerInformation::close\(\) \{ if \(mOutputStream\.is_open\(\)\) \{ mOutputStream << "((?:[^"\\]|\\.)*)"; mOutputStream\.close\(\);', flat)
    ok2 = bool(m2) and cstr(m2.group(1)) == lits[2] and flat.count('"</analyzerinfo>') == 2
    res.oblig("T2:footer-only-in-close", ok2, "translation", "" if ok2 else "close() / the places writing </analyzerinfo> changed")
    ok3 = ("mOutputStream << msg.toXML() << '\\n';" in flat and
           'mOutputStream << " <FileInfo check=\\"" << check << "\\">\\n" << fileInfo << " </FileInfo>\\n";' in flat)
    res.oblig("T3:item-writes", ok3, "translation", "" if ok3 else "reportErr / setFileInfo write something else than the model's items")
    ok4 = all(x in flat for x in ['strcmp(rootNode->Name(), "analyzerinfo") != 0', 'rootNode->Attribute("hash")', "attr != std::to_string(hash)",
                                  '"premium-invalidLicense", "premium-internalError", "internalError"',
                                  "if (xmlError == tinyxml2::XML_SUCCESS) { const std::string err = skipAnalysis(analyzerInfoDoc, hash, errors); if (err.empty()) {",
                                  "mOutputStream.open(analyzerInfoFile); if (!mOutputStream.is_open())"])
    res.oblig("T4:reuse-decision-shape", ok4, "translation", "" if ok4 else "analyzeFile / skipAnalysis no longer have the shape the model copies")
    ok5 = all(x in flat for x in ["if (error == tinyxml2::XML_ERROR_FILE_NOT_FOUND) {", 'return "failed to load \'" + xmlfile',
                                  'return "no root node found in \'"', 'return "unexpected root node in \'"'])
    res.oblig("T5:processFilesTxt-shape", ok5, "translation", "" if ok5 else "processFilesTxt changed")
    ce = re.sub(r"\s+", " ", open(os.path.join(core.REPO, "cli", "cppcheckexecutor.cpp"), encoding="utf-8", errors="replace").read())
    ok6 = ("settings.loadSummaries();" in ce and "AnalyzerInformation::writeFilesTxt(settings.buildDir, fileNames, mFileSettings); stdLogger.readActiveCheckers();" in ce
           and ce.index("settings.loadSummaries();") < ce.index("AnalyzerInformation::writeFilesTxt("))
    res.oblig("T6:run-start-order", ok6, "translation", "" if ok6 else "loadSummaries / writeFilesTxt / readActiveCheckers order changed")


class Explorer:
    def __init__(self, ctx, res, drv, exe):
        self.ctx, self.res, self.drv, self.exe = ctx, res, drv, exe
        self.blobs = set()           # distinct cache file contents seen (for C1)
        self.decisions = []          # (desc, hash, bytes|None, real decision)

    def fresh(self, proj):
        bd = proj.newdir("fresh")
        rc, lines, out = proj.run(bd)
        if rc is None:
            raise core.CheckBroken("C20: fresh run of %s timed out" % proj.name)
        proj.fresh_lines, proj.fresh_rc, proj.fresh_bd = lines, rc, bd
        proj.fresh_cache = cache_files(bd)
        proj.hash = {}
        for name, data in proj.fresh_cache.items():
            m = re.search(rb'<analyzerinfo hash="(\d+)">', data)
            proj.hash[name] = m.group(1) if m else b""
            self.blobs.add(data)
        # cache file name of a source (files.txt)
        proj.afile = {}
        for l in open(os.path.join(bd, "files.txt")).read().split("\n"):
            if l.count(":") >= 3:
                proj.afile[l.split(":")[3]] = l.split(":")[0]
        rcn, linesn, _ = proj.run(None)
        self.res.count("fresh==no-build-dir:%s" % (linesn == lines))

    def one(self, proj, case):
        """run one case: returns dict(result fields)"""
        bd = proj.newdir("c")
        died = False
        if case["type"] == "kill":
            rc1, l1, _ = proj.run(bd, case["exec"], {"VERIF_CRASH_AT": "%s:%d" % (case["kind"], case["k"])})
            died = rc1 == 137 or any("cppcheckError" in l for l in l1)
        else:
            shutil.rmtree(bd)
            shutil.copytree(proj.fresh_bd, bd)
            p = os.path.join(bd, case["file"])
            data = open(p, "rb").read()
            died = case["len"] < len(data)
            open(p, "wb").write(data[:case["len"]])
        snap = cache_files(bd)
        keep = bd + "_crash"
        shutil.copytree(bd, keep)
        rc2, l2, out2 = proj.run(bd, case.get("exec2", "j1"), debug=True)
        r = dict(case=case, died=died, snap=snap, rc2=rc2, lines2=l2, dec=parse_decisions(out2), keep=keep, bd=bd)
        return r

    def judge(self, proj, r):
        res, case = self.res, r["case"]
        desc = "%s %s" % (proj.name, " ".join("%s=%s" % (k, case[k]) for k in sorted(case) if k != "type"))
        res.case("kill|" + desc, r["died"], dict(tie="P_impl", op=desc, impl="run2=%d lines" % len(r["lines2"]), model="fresh=%d lines" % len(proj.fresh_lines))
                 if len(res.samples) < 6 else None)
        res.count("type:" + case["type"]); res.count("exec:" + case.get("exec", "-")); res.count("kind:" + case.get("kind", "bytecut"))
        res.count("first-run-died:%s" % r["died"])
        for name, data in r["snap"].items():
            self.blobs.add(data)
        for src in proj.sources:
            af = proj.afile.get(src)
            real = r["dec"].get(src)
            if af is None or real is None:
                continue
            self.decisions.append((desc + " " + src, proj.hash.get(af, b""), r["snap"].get(af), real))
            res.count("decision:" + real)
        if r["rc2"] is None:
            res.violation("complete run after %s did not terminate" % desc, dict(case=case, project=proj.name), True, "no-termination")
            return
        if r["lines2"] != proj.fresh_lines:
            extra = [l for l in r["lines2"] if l not in proj.fresh_lines]
            missing = [l for l in proj.fresh_lines if l not in r["lines2"]]
            key = self.classify(proj, r, extra, missing)
            res.violation("after %s the complete run differs from a run on an empty build dir: extra=%s missing=%s" % (desc, extra, missing),
                          dict(case=case, project=proj.name, files=PROJECTS[proj.name]["files"], opts=proj.opts, extra=extra, missing=missing,
                               replay_cmd="./check.py C20 --replay <this file>"), True, key)
            res.count("differs:" + str(key))
        for d in (r["keep"], r["bd"]):
            shutil.rmtree(d, ignore_errors=True)

    def classify(self, proj, r, extra, missing):
        """known-finding classes, each confirmed by a causal control experiment on the saved post-crash directory"""
        diff = extra + missing
        if diff and all(":checkersReport:" in l for l in diff):
            return "checkers-report-after-crash"
        # summaries: remove the summary files of the interrupted run and repeat the complete run
        ctl = r["keep"] + "_ctl"
        shutil.copytree(r["keep"], ctl)
        removed = 0
        for p in glob.glob(os.path.join(ctl, "*.s[0-9]*")) + glob.glob(os.path.join(ctl, "*.snalyzerinfo")):
            os.remove(p); removed += 1
        rc, lines, _ = proj.run(ctl, r["case"].get("exec2", "j1"))
        shutil.rmtree(ctl, ignore_errors=True)
        if removed and lines == proj.fresh_lines:
            return "summaries-after-crash"
        return None

    def explore(self, proj, cases):
        with concurrent.futures.ThreadPoolExecutor(max_workers=6) as ex:
            rs = list(ex.map(lambda c: self.one(proj, c), cases))
        for r in rs:
            self.judge(proj, r)
        return rs

    def kill_cases(self, proj, execname, kinds=KINDS, maxk=60):
        """every k of every kind until the first run survives (all kinds advance together, three k per round)"""
        out = []
        active = list(kinds)
        k = 1
        while active and k <= maxk:
            batch = [dict(type="kill", exec=execname, kind=kind, k=kk) for kind in active for kk in range(k, k + 3)]
            rs = self.explore(proj, batch)
            out += rs
            active = [kind for kind in active if all(r["died"] for r in rs if r["case"]["kind"] == kind)]
            k += 3
        return out

    def finish(self):
        res, ctx = self.res, self.ctx
        # C2: reuse decisions
        ops, real = [], []
        for desc, h, data, dec in self.decisions:
            if data is None:
                continue
            if b"\0" in data:
                continue
            ops.append("decide %s %s" % (core.hx(h), core.hx(data))); real.append((desc, dec))
        absent_bad = [d for d in self.decisions if d[2] is None and d[3] != "absent"]
        if ops:
            rc, out, err = core.run_lines(self.drv, [], ops, timeout=900)
            bad = [(d, dec, o) for (d, dec), o in zip(real, out) if dec != o]
            res.traces_validated += len(ops) - len(bad)
            res.oblig("correspondence:reuse-decision", not bad and not absent_bad and len(out) == len(ops), "correspondence",
                      "" if not (bad or absent_bad) else "analyzeFile decided differently from the model: %s %s" % (bad[:2], absent_bad[:2]))
        # C1: every byte prefix of every cache file content seen
        prefixes = set()
        for b in self.blobs:
            for n in range(len(b) + 1):
                prefixes.add(b[:n])
        rng = ctx.rng
        frag = [b"<", b">", b"/", b'"', b"'", b"=", b" ", b"\n", b"a", b"b", b"<a>", b"</a>", b"<a/>", b"<!--", b"-->", b"<?", b"?>", b"<![CDATA[", b"]]>",
                b"<!", b'x="1"', b"-", b".", b":", b"_", b"1", b"<b x=\"1\" y='2'>", b"</b>", b"text", b'<?xml version="1.0"?>', b"\t", b"]", b"?", b"!",
                b"<analyzerinfo hash=\"12\">", b"</analyzerinfo>", b"  <FileInfo check=\"ctu\">", b"  </FileInfo>"]
        gen = set()
        blobs = sorted(self.blobs)
        for _ in range(4000 if ctx.tier == "thorough" else 1200):
            gen.add(b"".join(rng.choice(frag) for _ in range(rng.randrange(1, 9))))
            if blobs:
                d = bytearray(rng.choice(blobs)[:rng.randrange(40, 500)])
                for _ in range(rng.randrange(1, 3)):
                    if not d:
                        break
                    i = rng.randrange(len(d)); x = rng.random()
                    if x < 0.4:
                        d[i:i + 1] = rng.choice(frag)
                    elif x < 0.7:
                        del d[i]
                    else:
                        d[i:i] = rng.choice(frag)
                gen.add(bytes(d))
        allops = sorted(p for p in prefixes | gen if b"\0" not in p)
        if ctx.tier != "thorough" and len(allops) > 6000:
            keep = set(rng.sample(allops, 6000))
            allops = [p for p in allops if p in keep]
        lines = ["load " + core.hx(p) for p in allops]
        rc, impl, err = core.run_lines(self.exe, [], lines, timeout=900)
        rc, model, err = core.run_lines(self.drv, [], lines, timeout=900)
        # entity decoding of attribute values is outside the model: compare such cases up to the attribute values
        def norm(o):
            return re.sub(r"=\S+", "=*", o) if "26" in o else o
        impl2, model2 = [], []
        for p, a, b in zip(allops, impl, model):
            if b"&" in p:
                a, b = norm(a), norm(b)
                res.count("xml:with-entity")
            impl2.append(a); model2.append(b)
        core.correspond(ctx, res, "tinyxml2-vs-XmlWf", lines, impl2, model2,
                        nontrivial=lambda op, out: out != "err")
        res.extra["xml_prefixes"] = len(prefixes)
        res.extra["xml_generated"] = len(gen)
        res.extra["cache_file_contents_seen"] = len(self.blobs)
        # H1: items of complete files are balanced
        ops, metas = [], []
        for b in blobs:
            h, items, ok = split_items(b)
            if h is None:
                continue
            if not ok or b"".join(items) == b"" and False:
                metas.append((b, None)); continue
            ops.append("items %s %s" % (core.hx(h), " ".join(core.hx(i) for i in items) if items else ""))
            metas.append((b, items))
        bad = [m for m in metas if m[1] is None]
        rc, out, err = core.run_lines(self.drv, [], [o.strip() for o in ops], timeout=900)
        good = 0
        for o in out:
            m = re.match(r"^(\S+) doc=(\d) hashok=(\d)$", o)
            if m and m.group(2) == "1" and m.group(3) == "1" and set(m.group(1)) <= set("1-"):
                good += 1
        res.oblig("H1:real-items-balanced", not bad and good == len(ops) and len(ops) > 0, "hypothesis",
                  "" if (not bad and good == len(ops)) else "%d complete cache files whose items are not balanced / not splittable (of %d)" % (len(ops) - good + len(bad), len(ops)))
        res.extra["complete_cache_files_checked"] = len(ops)


def load_corpus():
    p = os.path.join(core.VERIF, "corpus", "C20", "cases.json")
    return json.load(open(p)) if os.path.exists(p) else []


def run(ctx, res):
    thorough = ctx.tier == "thorough"
    rng = ctx.rng
    core.prove(ctx, res, MODULES, THEOREMS)
    drv = ctx.driver("drv_c20")
    exe = ctx.harness("c20")
    source_shape(res, drv)
    binary = private_binary(ctx, "VERIF_C20_BIN")
    projs = {n: Proj(ctx, n, binary) for n in PROJECTS}
    ex = Explorer(ctx, res, drv, exe)
    for p in projs.values():
        ex.fresh(p)
    # corpus (witnesses of the known findings) first
    for c in load_corpus():
        ex.explore(projs[c["project"]], [dict(type="kill", exec=c["exec"], kind=c["kind"], k=c["k"])])
    if thorough:
        for name, p in projs.items():
            for execname in EXECS:
                ex.kill_cases(p, execname)
    else:
        ex.kill_cases(projs["base3"], "j1")
        ex.kill_cases(projs["early2"], "j1", kinds=["cacheopen", "finding"])
        ex.kill_cases(projs["info3"], "j1", kinds=["cachereopen", "cacheclose"])
        for execname in ("thread", "process"):
            cs = [dict(type="kill", exec=execname, kind=rng.choice(KINDS[:3] + ["finding"]), k=rng.randrange(1, 6)) for _ in range(3)]
            ex.explore(projs[rng.choice(["base3", "summ2", "early2"])], cs)
    # torn writes: byte cuts of complete cache files
    for name in (["base3", "early2", "summ2", "info3"] if thorough else ["base3"]):
        p = projs[name]
        cuts = []
        for af, data in sorted(p.fresh_cache.items()):
            if thorough and len(data) <= 200:
                ls = list(range(len(data) + 1))
            else:
                n = 40 if thorough else 4
                ls = sorted(set([0, 1, len(data) - 2, len(data) - 1] + [rng.randrange(len(data)) for _ in range(n)]))
            cuts += [dict(type="cut", file=af, len=L) for L in ls if 0 <= L <= len(data)]
        ex.explore(p, cuts)
    ex.finish()
    res.extra["exhaustive"] = dict(dimension="kill index k for every kind (cacheopen, cachewrite, cacheclose, cachereopen, finding, filedone) "
                                   + ("x {j1, thread -j2, process -j2} x 4 projects; every byte cut of cache files <= 200 bytes" if thorough
                                      else "for -j1 on projects base3 / early2 (+ reopen/close windows of info3)"), value=True)


def replay(ctx, res, rp):
    binary = private_binary(ctx, "VERIF_C20_BIN")
    p = Proj(ctx, rp["project"], binary)
    drv = ctx.driver("drv_c20"); exe = ctx.harness("c20")
    ex = Explorer(ctx, res, drv, exe)
    ex.fresh(p)
    r = ex.one(p, rp["case"])
    bad = r["lines2"] != p.fresh_lines
    print("replay: fresh=%s\n        after=%s" % (p.fresh_lines, r["lines2"]))
    if bad:
        print("VIOLATION property=C20 replay=(replayed) complete run after the kill differs from the fresh run")
    return 1 if bad else 0

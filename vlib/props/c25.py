"""C25 — exit status reflects the reported findings.

Obligations
  theorems   Cppcheck.ExitCode.* (exit_iff_partial, exit_iff_patched, exit_else_zero, …, the three counterexamples)
  T1         variant of the tree at the two patch points (check_internal's unmatchedSuppression statement, checkInternal's
             --check-config return), extracted from the source, fail closed
  T2         every other statement of the exit-code chain the model copies is present verbatim (normalised) in its function
             and the accumulators are not assigned anywhere else (fail closed)
  C1         real `cppcheck` binary vs. the Lean model on generated (project x suppressions x exitcode-suppressions x
             --error-exitcode x executor x build dir x safety x check-config x ...) cases: exit status and printed findings;
             the model's inputs are the findings of reference runs without suppressions, the answers of the real
             suppression lists (harness c25) and the unmatchedSuppression lines the run itself prints
P_impl       status == (code mod 256 if some printed finding other than the checkers summary has no exitcode-suppression match
             else 0), evaluated on every real run outside --safety
"""
import collections, json, os, re, subprocess, time
from .. import core, build_repo

ID = "C25"
LEVEL = "proof"
RULE = ("cases = one cppcheck invocation each: generated project (planted findings with known ids in 2-4 files + shared header) x "
        "--suppress list x --exitcode-suppress list x --error-exitcode x executor (single/thread/process) x build dir (none/fresh/warm) x "
        "safety x check-config x emit-duplicates x project file x lost worker pipe; distinct by the full command line and sources; "
        "non-trivial = some suppression answer bit is set or an unmatchedSuppression is reported, and the exit code is visible (mod 256 != 0)")
EXPLANATION = ("Lean theorems about the whole exit-code chain (CppCheckLogger::reportErr, per-file return values, the three executors' "
               "accumulation, both whole-program passes, unmatchedSuppression stage, --safety, int->status truncation) for every run: "
               "status = error exit code <=> a printed finding is not exitcode-suppressed, under explicit decidable hypotheses; proved "
               "counterexamples kept for the two statements that were repaired (F9 a59832c, F25b 4c58edf) and for duplicate texts. Tie: "
               "fail-closed extraction of the chain's statements + CLI correspondence. The per-file analysis and the matching of a "
               "suppression against a finding are parameters (reference runs / real SuppressionList answers).")
THEOREMS = ["Cppcheck.ExitCode.exit_iff_patched", "Cppcheck.ExitCode.exit_iff_any_schedule", "Cppcheck.ExitCode.exit_iff_partial",
            "Cppcheck.ExitCode.stage_one_errors_flag_irrelevant", "Cppcheck.ExitCode.exit_else_zero",
            "Cppcheck.ExitCode.exit_zero_when_errorExitCode_zero", "Cppcheck.ExitCode.invalid_cmdline_is_1",
            "Cppcheck.ExitCode.safety_critical_is_1", "Cppcheck.ExitCode.lost_pipe_fails",
            "Cppcheck.ExitCode.unmatched_ignores_nofail_counterexample", "Cppcheck.ExitCode.check_config_counterexample",
            "Cppcheck.ExitCode.check_config_order_dependent", "Cppcheck.ExitCode.duplicate_text_counterexample"]
MODULES = ["Cppcheck.Props.C25"]

TEMPLATE = "--template={id}|{file}|{line}|{column}|{severity}|{message}"
WPIDS = {"unusedFunction", "staticFunction"}


def is_wp_id(i):
    """ids raised by the whole-program stages (CheckUnusedFunctions, CTU checks), never by a file's own logger"""
    return i in WPIDS or i.startswith("ctu")


KEY_F9 = "unmatched-ignores-exitcode-suppressions"
KEY_CC = "check-config-exit-code"
PATCHED = dict(unmatchedNofail=True, checkConfigLogger=True)     # the main model: Cppcheck.ExitCode.patched


# ---- translator: statements of the chain ---------------------------------------------------------------------
class Unrecognised(Exception):
    pass


def strip_code(s):
    """remove comments, keep string literals, collapse whitespace"""
    out, i, n = [], 0, len(s)
    while i < n:
        c = s[i]
        if s.startswith("//", i):
            j = s.find("\n", i)
            i = n if j < 0 else j
        elif s.startswith("/*", i):
            j = s.find("*/", i + 2)
            i = n if j < 0 else j + 2
        elif c == '"' or c == "'":
            j = i + 1
            while j < n and s[j] != c:
                j += 2 if s[j] == "\\" else 1
            out.append(s[i:j + 1]); i = j + 1
        else:
            out.append(c); i += 1
    t = re.sub(r"\s+", " ", "".join(out))
    return t


def function_body(src, signature):
    """text of the { ... } block following `signature` (which must occur exactly once)"""
    if src.count(signature) != 1:
        raise Unrecognised("signature %r occurs %d times" % (signature, src.count(signature)))
    i = src.index(signature)
    j = src.index("{", i)
    depth, k, n = 0, j, len(src)
    while k < n:
        c = src[k]
        if src.startswith("//", k):
            k = src.find("\n", k)
            if k < 0:
                break
            continue
        if src.startswith("/*", k):
            k = src.find("*/", k + 2) + 2
            continue
        if c == '"' or c == "'":
            k += 1
            while k < n and src[k] != c:
                k += 2 if src[k] == "\\" else 1
            k += 1
            continue
        if c == "{":
            depth += 1
        elif c == "}":
            depth -= 1
            if depth == 0:
                return strip_code(src[j:k + 1])
        k += 1
    raise Unrecognised("unbalanced body after " + signature)


def need(body, stmt, where, count=1):
    c = body.count(stmt)
    if c != count:
        raise Unrecognised("%s: expected %d x `%s`, found %d" % (where, count, stmt, c))


def extract_chain(root):
    """returns (variant dict, list of shape errors).  Fail closed: anything unexpected is an error."""
    errs = []
    var = dict(unmatchedNofail=None, checkConfigLogger=None)

    def rd(rel):
        return open(os.path.join(root, rel), encoding="utf-8", errors="replace").read()

    def guard(fn):
        try:
            fn()
        except (Unrecognised, ValueError, OSError) as ex:
            errs.append(str(ex))

    ce = rd("cli/cppcheckexecutor.cpp")

    def t_check_internal():
        b = function_body(ce, "int CppCheckExecutor::check_internal(const Settings& settings, Suppressions& supprs) const")
        need(b, "unsigned int returnValue = 0;", "check_internal")
        need(b, "returnValue = executor.check();", "check_internal", 3)
        need(b, "if (settings.useSingleJob()) { SingleExecutor executor(cppcheck, mFiles, mFileSettings, settings, supprs, stdLogger, timerResults.get());", "check_internal")
        need(b, "CppCheck cppcheck(settings, supprs, stdLogger, timerResults.get(), true, executeCommand);", "check_internal")
        need(b, "returnValue |= cppcheck.analyseWholeProgram(settings.buildDir, mFiles, mFileSettings, stdLogger.getCtuInfo());", "check_internal")
        need(b, "if ((settings.severity.isEnabled(Severity::information) || settings.checkConfiguration) && !supprs.nomsg.getSuppressions().empty()) {", "check_internal")
        need(b, "if (err && returnValue == 0) returnValue = settings.exitCode; }", "check_internal")
        need(b, "if (settings.safety && stdLogger.hasCriticalErrors()) return EXIT_FAILURE; if (returnValue) return settings.exitCode; return EXIT_SUCCESS; }", "check_internal")
        shipped = "const bool err = reportUnmatchedSuppressions(settings, supprs.nomsg, mFiles, mFileSettings, stdLogger);"
        patched = "const bool err = reportUnmatchedSuppressions(settings, supprs.nomsg, mFiles, mFileSettings, stdLogger, &supprs.nofail);"
        n_s, n_p = b.count(shipped), b.count(patched)
        if b.count("returnValue") != 8:
            raise Unrecognised("check_internal: `returnValue` is used %d times (expected 8)" % b.count("returnValue"))
        rb = function_body(ce, "bool CppCheckExecutor::reportUnmatchedSuppressions(")
        need(rb, "errorLogger.reportErr(errmsg);", "reportUnmatchedSuppressions")
        need(rb, "if (errors.empty()) return false;", "reportUnmatchedSuppressions")
        need(rb, "err |= reportErrorsFn(", "reportUnmatchedSuppressions", 4)
        need(rb, "return err; }", "reportUnmatchedSuppressions")
        if n_s == 1 and n_p == 0:
            need(rb, "for (const auto& errmsg : errors) { analyzerInfo.reportErr(errmsg); errorLogger.reportErr(errmsg); } return true; };", "reportUnmatchedSuppressions (shipped)")
            if "nofail" in rb:
                raise Unrecognised("reportUnmatchedSuppressions mentions nofail but check_internal passes none")
            var["unmatchedNofail"] = False
        elif n_s == 0 and n_p == 1:
            need(rb, "bool fail = false; for (const auto& errmsg : errors) { analyzerInfo.reportErr(errmsg); errorLogger.reportErr(errmsg); "
                     "if (!nofail || !nofail->isSuppressed(errmsg, {})) fail = true; } return fail; };", "reportUnmatchedSuppressions (patched)")
            var["unmatchedNofail"] = True
        else:
            raise Unrecognised("check_internal: call of reportUnmatchedSuppressions has neither the shipped nor the patched form")
    guard(t_check_internal)

    def t_check():
        b = function_body(ce, "int CppCheckExecutor::check(int argc, const char* const argv[])")
        need(b, "if (!parser.fillSettingsFromArgs(argc, argv)) { return EXIT_FAILURE; } if (Settings::terminated()) { return EXIT_SUCCESS; }", "CppCheckExecutor::check")
        need(b, "const int ret = check_wrapper(settings, supprs); return ret; }", "CppCheckExecutor::check")
        b = function_body(ce, "void StdLogger::reportErr(const ErrorMessage &msg)")
        need(b, "if (ErrorLogger::isCriticalErrorId(msg.id) && mCriticalErrors.find(msg.id) == std::string::npos) {", "StdLogger::reportErr")
        need(b, "if (msg.severity == Severity::internal) return;", "StdLogger::reportErr")
        need(b, "if (!mSettings.emitDuplicates && !mShownErrors.insert(msgStr).second) return;", "StdLogger::reportErr")
        m = rd("cli/main.cpp")
        need(strip_code(m), "CppCheckExecutor exec; return exec.check(argc, argv);", "main")
    guard(t_check)

    def t_single():
        s = rd("cli/singleexecutor.cpp")
        b = function_body(s, "unsigned int SingleExecutor::check()")
        need(b, "unsigned int result = 0;", "SingleExecutor::check")
        need(b, "result += mCppcheck.check(*i);", "SingleExecutor::check")
        need(b, "result += mCppcheck.check(fs);", "SingleExecutor::check")
        need(b, "if (mCppcheck.analyseWholeProgram()) result++; return result; }", "SingleExecutor::check")
        if len(re.findall(r"\bresult\b", b)) != 5:
            raise Unrecognised("SingleExecutor::check: `result` used %d times (expected 5)" % len(re.findall(r"\bresult\b", b)))
    guard(t_single)

    def t_thread():
        s = rd("cli/threadexecutor.cpp")
        b = function_body(s, "static unsigned int STDCALL threadProc(ThreadData *data)")
        need(b, "unsigned int result = 0;", "threadProc")
        need(b, "result += data->check(file, fs);", "threadProc")
        need(b, "return result; }", "threadProc")
        b = function_body(s, "unsigned int ThreadExecutor::check()")
        need(b, "unsigned int result = std::accumulate(threadFutures.begin(), threadFutures.end(), 0U, [](unsigned int v, std::future<unsigned int>& f) { return v + f.get(); }); return result; }", "ThreadExecutor::check")
        b = function_body(s, "unsigned int check(const FileWithDetails *file, const FileSettings *fs)")
        need(b, "CppCheck fileChecker(mSettings, mSuppressions, mLogForwarder, mTimerResults, false, mExecuteCommand);", "ThreadData::check")
        need(b, "result = fileChecker.check(*fs);", "ThreadData::check")
        need(b, "result = fileChecker.check(*file);", "ThreadData::check")
        need(b, "return result; }", "ThreadData::check")
        b = function_body(s, "void reportErr(const ErrorMessage &msg) override")
        need(b, "if (!mThreadExecutor.hasToLog(msg)) return;", "SyncLogForwarder::reportErr")
    guard(t_thread)

    def t_process():
        s = rd("cli/processexecutor.cpp")
        b = function_body(s, "bool ProcessExecutor::handleRead(int rpipe, unsigned int &result, const std::string& filename)")
        need(b, "++result; return false; }", "handleRead")
        need(b, "result += std::stoi(buf); res = false;", "handleRead")
        need(b, "if (hasToLog(msg)) mErrorLogger.reportErr(msg);", "handleRead")
        if len(re.findall(r"\bresult\b", b)) != 3:
            raise Unrecognised("handleRead: `result` used %d times (expected 3)" % len(re.findall(r"\bresult\b", b)))
        b = function_body(s, "unsigned int ProcessExecutor::check()")
        need(b, "unsigned int result = 0;", "ProcessExecutor::check")
        need(b, "CppCheck fileChecker(mSettings, supprs, pipewriter, timerResults.get(), false, mExecuteCommand);", "ProcessExecutor::check")
        need(b, "resultOfCheck = fileChecker.check(*iFileSettings);", "ProcessExecutor::check")
        need(b, "resultOfCheck = fileChecker.check(*iFile);", "ProcessExecutor::check")
        need(b, "pipewriter.writeEnd(std::to_string(resultOfCheck));", "ProcessExecutor::check")
        need(b, "const bool readRes = handleRead(*rp, result, name);", "ProcessExecutor::check")
        need(b, "return result; }", "ProcessExecutor::check")
        # a worker that exits with a non-zero status / is killed by a signal: one more increment each (C21 fix 3771e69)
        need(b, "reportInternalChildErr(childname, oss.str()); ++result; }", "ProcessExecutor::check", 2)
        if len(re.findall(r"\bresult\b", b)) != 5:
            raise Unrecognised("ProcessExecutor::check: `result` used %d times (expected 5)" % len(re.findall(r"\bresult\b", b)))
        e = rd("cli/executor.cpp")
        b = function_body(e, "bool Executor::hasToLog(const ErrorMessage &msg)")
        need(b, "if (msg.severity == Severity::internal) return true; if (!mSuppressions.nomsg.isSuppressed(msg, {})) {", "hasToLog")
        need(b, "if (errmsg.empty()) return false; if (mSettings.emitDuplicates) return true;", "hasToLog")
        need(b, "if (mErrorList.emplace(std::move(errmsg)).second) { return true; } } return false; }", "hasToLog")
    guard(t_process)

    cc = rd("lib/cppcheck.cpp")

    def t_logger():
        b = function_body(cc, "void reportErr(const ErrorMessage &msg) override")
        for st in ["if (msg.severity == Severity::internal) { mErrorLogger.reportErr(msg); return; }",
                   "if (!mSettings.library.reportErrors(msg.file0)) return;",
                   "bool suppressed = false; if (mSuppressions.nomsg.isSuppressed(errorMessage, mUseGlobalSuppressions)) {",
                   "if (mSettings.safety && ErrorLogger::isCriticalErrorId(msg.id)) { mExitCode = 1; if (mSuppressions.nomsg.isSuppressedExplicitly(errorMessage, mUseGlobalSuppressions)) {",
                   "temp.severity = Severity::internal; mErrorLogger.reportErr(temp); } else { mErrorLogger.reportErr(msg); } } suppressed = true;",
                   "if (errmsg.empty()) return; const bool suppressedLater = !suppressed && !mUseGlobalSuppressions && mSuppressions.nomsg.isSuppressed(errorMessage); "
                   "if (!mSettings.emitDuplicates && !((suppressed || suppressedLater) ? mSuppressedErrorList : mErrorList).emplace(std::move(errmsg)).second) return;",
                   "if (suppressed) return; if (!mSuppressions.nofail.isSuppressed(errorMessage) && !mSuppressions.nomsg.isSuppressed(errorMessage)) { mExitCode = 1; }"]:
            need(b, st, "CppCheckLogger::reportErr")
        # after `suppressed = true;` the block closes, optionally after showing the finding to all suppressions (C24 F24c repair:
        # one more isSuppressed call, no effect on the exit code)
        tail_a = "suppressed = true; } std::string errmsg = msg.toString("
        tail_b = "suppressed = true; if (!mUseGlobalSuppressions) (void)mSuppressions.nomsg.isSuppressed(errorMessage, true); } std::string errmsg = msg.toString("
        if b.count(tail_a) + b.count(tail_b) != 1:
            raise Unrecognised("CppCheckLogger::reportErr: unexpected statements after `suppressed = true;`")
        if b.count("mExitCode") != 2:
            raise Unrecognised("CppCheckLogger::reportErr: mExitCode used %d times (expected 2)" % b.count("mExitCode"))
        whole = strip_code(cc)
        if whole.count("mExitCode") != 5:
            raise Unrecognised("lib/cppcheck.cpp: mExitCode used %d times (expected 5)" % whole.count("mExitCode"))
        need(whole, "void resetExitCode() { mExitCode = 0; }", "CppCheckLogger")
        need(whole, "void clear() { mErrorList.clear(); mSuppressedErrorList.clear(); }", "CppCheckLogger")
        if whole.count("mErrorList") != 3 or whole.count("mSuppressedErrorList") != 3:
            raise Unrecognised("CppCheckLogger: duplicate filters used %d / %d times (expected 3 / 3)" % (whole.count("mErrorList"), whole.count("mSuppressedErrorList")))
        need(whole, "unsigned int exitcode() const { return mExitCode; }", "CppCheckLogger")
        need(whole, "unsigned int mExitCode{};", "CppCheckLogger")
        need(whole, "mLogger->resetExitCode();", "lib/cppcheck.cpp")
    guard(t_logger)

    def t_checkinternal():
        b = function_body(cc, "unsigned int CppCheck::checkInternal(const FileWithDetails& file, const std::string &cfgname, const CreateTokenListFn& createTokenList)")
        need(b, "mLogger->resetExitCode(); mLogger->clear(); if (Settings::terminated()) return mLogger->exitcode();", "checkInternal")
        need(b, "mLogger->clear();", "checkInternal", 2)
        if not b.endswith("return mLogger->exitcode(); }"):
            raise Unrecognised("checkInternal does not end in `return mLogger->exitcode();`")
        pre = "if (mSettings.checkConfiguration) { for (const std::string &config : configurations) (void)preprocessor.getcode(config, files, false); " \
              "if (configurations.size() > maxConfigs) tooManyConfigsError(Path::toNativeSeparators(file.spath()), configurations.size()); " \
              "if (analyzerInformation) mLogger->setAnalyzerInfo(nullptr); "
        n0, n1 = b.count(pre + "return 0; }"), b.count(pre + "return mLogger->exitcode(); }")
        if n0 == 1 and n1 == 0:
            var["checkConfigLogger"] = False
        elif n0 == 0 and n1 == 1:
            var["checkConfigLogger"] = True
        else:
            raise Unrecognised("checkInternal: the --check-config branch has neither the shipped nor the patched form")
        rets = re.findall(r"return ([^;]*);", b)
        allowed = {"mLogger->exitcode()", "EXIT_SUCCESS", "0", "simplecpp::TokenList{{data, size}, files, file.spath(), outputList}"}
        extra = [r for r in rets if r not in allowed]
        if extra:
            raise Unrecognised("checkInternal: unexpected return value(s) %s" % extra[:3])
        if rets.count("0") != (0 if var["checkConfigLogger"] else 1) or rets.count("EXIT_SUCCESS") != 1:
            raise Unrecognised("checkInternal: constant returns changed: %s" % rets)
        b = function_body(cc, "bool CppCheck::analyseWholeProgram()")
        need(b, "return errors && (mLogger->exitcode() > 0); }", "analyseWholeProgram()")
        b = function_body(cc, "unsigned int CppCheck::analyseWholeProgram(const std::string &buildDir, const std::list<FileWithDetails> &files, const std::list<FileSettings>& fileSettings, const std::string& ctuInfo)")
        if not b.endswith("return mLogger->exitcode(); }"):
            raise Unrecognised("analyseWholeProgram(buildDir,..) does not end in `return mLogger->exitcode();`")
        b = function_body(cc, "unsigned int CppCheck::check(const FileWithDetails &file)")
        need(b, "returnValue = checkFile(file, \"\");", "CppCheck::check(file)")
        need(b, "return returnValue; }", "CppCheck::check(file)")
        b = function_body(cc, "unsigned int CppCheck::check(const FileSettings &fs)")
        need(b, "CppCheck temp(tempSettings, mSuppressions, mErrorLoggerDirect, mTimerResults, mUseGlobalSuppressions, mExecuteCommand); const unsigned int returnValue = temp.checkFile(fs.file, fs.cfg);", "CppCheck::check(fs)")
    guard(t_checkinternal)

    def t_cmdline():
        c = strip_code(rd("cli/cmdlineparser.cpp"))
        need(c, "else if (std::strncmp(argv[i], \"--error-exitcode=\", 17) == 0) { if (!parseNumberArg(argv[i], 17, mSettings.exitCode)) return Result::Fail; }", "cmdlineparser")
        need(c, "const std::string errmsg(mSuppressions.nofail.addSuppressionLine(suppression));", "cmdlineparser")
        need(c, "const std::string errmsg(mSuppressions.nofail.parseFile(f));", "cmdlineparser")
        need(c, "case Result::Exit: Settings::terminate(); return true; case Result::Fail: return false; }", "cmdlineparser")
        need(strip_code(rd("lib/settings.h")), "int exitCode{};", "settings.h")
    guard(t_cmdline)
    return var, errs


# ---- running the binary -------------------------------------------------------------------------------------
def parse_lines(stderr):
    out = []
    for l in stderr.split("\n"):
        if not l:
            continue
        p = l.split("|", 5)
        if len(p) != 6 or not re.match(r"^-?\d+$", p[2]):
            out.append(dict(raw=l, id="?", file="", line=0, sev="?", text=l))
            continue
        out.append(dict(raw=l, id=p[0], file=p[1], line=int(p[2]), sev=p[4], text=l))
    return out


def robust_harness(ctx, name, **kw):
    """ctx.harness, retried: while a concurrent check of another property rebuilds objects of the working tree the link can fail"""
    last = None
    for attempt in range(8):
        try:
            return ctx.harness(name, **kw)
        except core.CheckBroken as ex:
            last = ex
            time.sleep(6)
            try:
                ctx.build_repo()
            except core.CheckBroken:
                pass
    raise last


class Runner:
    def __init__(self, ctx, binary):
        self.ctx = ctx
        self.bin = binary
        self.n = 0
        self.bdn = 0

    def run(self, cwd, args, env=None):
        self.n += 1
        e = dict(os.environ)
        for k in list(e):
            if k.startswith("VERIF_"):
                e.pop(k)
        if env:
            e.update(env)
        for attempt in range(40):
            try:
                r = subprocess.run([self.bin] + args, cwd=cwd, stdout=subprocess.PIPE, stderr=subprocess.PIPE, timeout=120, env=e)
                return r.returncode, r.stdout.decode("latin-1"), r.stderr.decode("latin-1")
            except subprocess.TimeoutExpired:
                return -999, "", "TIMEOUT"
            except (PermissionError, FileNotFoundError, OSError):
                time.sleep(3)      # the binary is being relinked by a concurrent check of another property
        raise core.CheckBroken("cannot execute " + self.bin)

    def new_bd(self, cwd):
        self.bdn += 1
        d = os.path.join(cwd, "bd%d" % self.bdn)
        os.makedirs(d)
        return d


def base_args(case, proj, bd):
    a = ["-q", TEMPLATE, "--template-location="]
    if proj["enable"]:
        a.append("--enable=" + proj["enable"])
    ex = case["executor"]
    if ex == "thread":
        a += ["-j2", "--executor=thread"]
    elif ex == "process":
        a += ["-j2", "--executor=process"]
    if bd:
        a.append("--cppcheck-build-dir=" + bd)
    if case.get("checkcfg"):
        a.append("--check-config")
    if case.get("inline"):
        a.append("--inline-suppr")
    if case.get("project"):
        a.append("--project=cc.json")
    else:
        a += case["order"]
    return a


def case_args(case, proj, bd):
    a = base_args(case, proj, bd)
    a.append("--error-exitcode=%s" % case["code"])
    for s in case["nomsg"]:
        a.append("--suppress=" + s)
    for s in case["nofail"]:
        a.append("--exitcode-suppress=" + s)
    if case.get("safety"):
        a.append("--safety")
    if case.get("emitdup"):
        a.append("--emit-duplicates")
    a += case.get("extra", [])
    return a


def write_project(d, proj):
    os.makedirs(d, exist_ok=True)
    for name, text in proj["files"].items():
        open(os.path.join(d, name), "w").write(text)
    srcs = [n for n in proj["files"] if n.endswith(".c")]
    json.dump([dict(directory=d, command="gcc -c " + n, file=n) for n in srcs], open(os.path.join(d, "cc.json"), "w"))


# ---- generators ------------------------------------------------------------------------------------------------
def gen_project(rng, k):
    nfiles = rng.choice([2, 2, 3, 3, 4])
    enable = rng.choice(["", "style", "information,missingInclude", "all", "style,information", "all"])
    files = {"h.h": "static inline void hh%d(void){ int *hp = 0; *hp = 1; }\n" % k}
    names = ["f%d_%d.c" % (k, i) for i in range(nfiles)]
    use_hdr = rng.random() < 0.6
    for i, n in enumerate(names):
        lines = []
        kinds = rng.sample(["np", "zd", "uv", "st", "mi", "np", "zd"], rng.choice([0, 1, 2, 2, 3]))
        if use_hdr and (i < 2 or rng.random() < 0.3):
            lines.append('#include "h.h"')
        if rng.random() < 0.08:
            lines.append("#error boom%d" % i)
        for j, kd in enumerate(kinds):
            t = "%d_%d_%d" % (k, i, j)
            if kd == "np":
                lines.append("void np%s(void){ int *p = 0; *p = 1; }" % t)
            elif kd == "zd":
                lines.append("int zd%s(int x){ return x / 0; }" % t)
            elif kd == "uv":
                lines.append("int uv%s(void){ int a; return a; }" % t)
            elif kd == "st":
                lines.append("void st%s(void){ int u; }" % t)
            elif kd == "mi":
                lines.append('#include "missing%s.h"' % t)
        if rng.random() < 0.07:
            lines.append("void sy%d( {" % i)
        lines.append("int ok%d_%d;" % (k, i))
        files[n] = "\n".join(lines) + "\n"
    return dict(files=files, order=names, enable=enable, name="p%d" % k)


def gen_suppr_pool(rng, proj, raw):
    """suppression lines derived from the raw findings of the project (hits and near misses)"""
    pool = []
    fs = [f for f in raw if f["id"] not in ("checkersReport", "?")]
    for f in fs:
        pool += [f["id"], "%s:%s" % (f["id"], f["file"]), "%s:%s:%d" % (f["id"], f["file"], f["line"]),
                 "%s:%s:%d" % (f["id"], f["file"], f["line"] + 1), f["id"][:3] + "*", "%s:*.c" % f["id"], "*:%s" % f["file"]]
    srcs = proj["order"]
    pool += ["*", "bogusId", "bogusId:%s" % rng.choice(srcs), "bogusId:%s:1" % rng.choice(srcs), "bogus*:%s" % rng.choice(srcs),
             "unmatchedSuppression", "unmatchedSuppression:%s" % rng.choice(srcs), "unmatchedSuppression:*", "unusedFunction", "missingInclude",
             "nullPointer", "zerodiv:%s" % rng.choice(srcs), "uninitvar", "checkersReport", "memleak:%s" % rng.choice(srcs)]
    return pool


def gen_case(rng, proj, pool, thorough):
    def pick():
        n = rng.choice([0, 0, 1, 1, 2, 3])
        return rng.sample(pool, min(n, len(pool)))
    case = dict(order=list(proj["order"]), nomsg=pick(), nofail=pick(),
                code=rng.choice([7, 7, 7, 7, 1, 3, 255, 256, -1, 0, 519, 2147483647]),
                executor=rng.choice(["single", "single", "thread", "process"]),
                bd=rng.choice(["none", "none", "fresh", "warm"]),
                safety=rng.random() < 0.1, checkcfg=rng.random() < 0.12, emitdup=rng.random() < 0.1,
                project=rng.random() < 0.12)
    if rng.random() < 0.3:
        rng.shuffle(case["order"])
    if rng.random() < 0.25:   # aim at F9's class: an unmatched suppression that is exitcode-suppressed
        case["nomsg"] = case["nomsg"] + [rng.choice(["bogusId", "bogusId:%s" % case["order"][0]])]
        case["nofail"] = case["nofail"] + [rng.choice(["unmatchedSuppression", "unmatchedSuppression:%s" % case["order"][0], "*"])]
    if case["executor"] == "process" and rng.random() < 0.15:
        # a killed worker: the model takes the lost pipe as input; what the dead worker would have contributed to the build dir
        # (whole-program findings) and the parent's own critical cppcheckError under --safety are outside the model (C21)
        case["fault"] = rng.choice(case["order"])
        case["bd"] = "none"
        case["safety"] = False
    # duplicates are rejected by the command line parser only across identical parameters; keep lists duplicate free
    case["nomsg"] = list(dict.fromkeys(case["nomsg"]))
    case["nofail"] = list(dict.fromkeys(case["nofail"]))
    return case


def gen_wp_project(rng, k):
    """projects whose ONLY findings come from the whole-program stages: staticFunction (a non-static function used only in its own
    translation unit), unusedFunction, a CTU finding across two files (one definition rule) and a CTU finding inside one file"""
    # the first four projects of a run carry exactly one kind each (a run whose ONLY finding is that one), later ones mix
    kinds = [["static"], ["unused"], ["odr"], ["ctu1"]][k] if k < 4 else rng.sample(["static", "unused", "odr", "ctu1"], 2)
    files, order = {}, []
    files["w%d_clean.c" % k] = "int main(void)\n{\n    return wuse%d();\n}\n" % k if False else "int wclean%d;\n" % k
    order.append("w%d_clean.c" % k)
    nomsg = []
    for kd in kinds:
        if kd == "static":
            n = "w%d_static.c" % k
            files[n] = "int whelper%d(int x)\n{\n    return x + 1;\n}\n\nint main(void)\n{\n    return whelper%d(1);\n}\n" % (k, k)
            order.append(n)
        elif kd == "unused":
            n = "w%d_unused.c" % k
            files[n] = "int wnever%d(int x)\n{\n    return x + 1;\n}\n" % k
            order.append(n)
        elif kd == "odr":
            files["w%d_o1.cpp" % k] = "struct WS%d { int a; };\nint wo1_%d;\n" % (k, k)
            files["w%d_o2.cpp" % k] = "struct WS%d { char b; long c; };\nint wo2_%d;\n" % (k, k)
            order += ["w%d_o1.cpp" % k, "w%d_o2.cpp" % k]
        else:
            n = "w%d_ctu.c" % k
            files[n] = "static void wf%d(int *p) { *p = 3; }\nvoid wg%d(void) {\n    int *p = 0;\n    wf%d(p);\n}\n" % (k, k, k)
            order.append(n)
            nomsg = ["nullPointer"]
    if rng.random() < 0.4:
        rng.shuffle(order)
    enable = "unusedFunction" if ("static" in kinds or "unused" in kinds) else rng.choice(["", "unusedFunction"])
    return dict(files=files, order=order, enable=enable, name="w%d" % k, kinds=kinds, nomsg=nomsg)


def gen_wp_case(rng, proj, raw_ids):
    nofail = rng.choice([[], [], [], [rng.choice(raw_ids)] if raw_ids else [], ["*"], [x for x in raw_ids]])
    return dict(order=list(proj["order"]), nomsg=list(proj["nomsg"]), nofail=list(dict.fromkeys(nofail)), code=rng.choice([7, 7, 3, 255]),
                executor=rng.choice(["single", "single", "single", "thread", "process"]), bd=rng.choice(["none", "none", "fresh", "warm"]),
                safety=False, checkcfg=False, emitdup=rng.random() < 0.1, project=False)


# ---- evaluation of one case ----------------------------------------------------------------------------------
class Evaluator:
    def __init__(self, ctx, res, runner, harness, drv, variant):
        self.ctx, self.res, self.runner, self.harness, self.drv, self.variant = ctx, res, runner, harness, drv, variant
        self.refs = {}
        self.keys = {}

    def key(self, text):
        if text not in self.keys:
            self.keys[text] = len(self.keys) + 1
        return self.keys[text]

    def per_file(self, pdir, proj, name, checkcfg):
        k = ("file", pdir, name, checkcfg)
        if k not in self.refs:
            case = dict(executor="single", order=[name], checkcfg=checkcfg)
            rc, out, err = self.runner.run(pdir, base_args(case, proj, None) + ["--emit-duplicates"])
            self.refs[k] = [f for f in parse_lines(err) if not is_wp_id(f["id"]) and f["id"] != "checkersReport"]
        return self.refs[k]

    def base(self, pdir, proj, case, bd):
        """all messages of the base configuration (multiset), from a run with --emit-duplicates and no suppressions"""
        # fresh and warm build dirs are different base configurations: on a warm cache the files are not analysed again, the
        # in-memory whole-program stage has no file infos and only the build-dir stage raises the CTU findings
        k = ("base", pdir, tuple(case["order"]), case["executor"], case["bd"], bool(case.get("checkcfg")), bool(case.get("project")))
        if k not in self.refs:
            bd2 = self.runner.new_bd(pdir) if case["bd"] != "none" else None
            if case["bd"] == "warm":
                self.runner.run(pdir, base_args(case, proj, bd2) + ["--emit-duplicates"])
            rc, out, err = self.runner.run(pdir, base_args(case, proj, bd2) + ["--emit-duplicates"])
            self.refs[k] = [f for f in parse_lines(err) if f["id"] != "checkersReport"]
        return self.refs[k]

    def bits(self, pdir, case, items):
        """items: list of (id, file, line) -> list of (bits5, crit) from the real suppression lists"""
        if not items:
            return []
        pre = ["q", str(len(case["nomsg"]))] + [core.hx(s) for s in case["nomsg"]] + [str(len(case["nofail"]))] + [core.hx(s) for s in case["nofail"]]
        lines = [" ".join(pre + [core.hx(i), core.hx(f), str(l), "-"]) for (i, f, l) in items]
        r = subprocess.run([self.harness], input="\n".join(lines) + "\n", cwd=pdir, stdout=subprocess.PIPE, stderr=subprocess.PIPE, text=True, timeout=120)
        out = r.stdout.split("\n")[:-1]
        if len(out) != len(lines):
            raise core.CheckBroken("c25 harness: %d answers for %d queries: %s" % (len(out), len(lines), r.stderr[-300:]))
        res = []
        for o in out:
            m = re.match(r"^b ([01]{5}) crit=([01])$", o)
            if not m:
                return None      # a suppression line was rejected: the command line is invalid
            res.append((m.group(1), m.group(2)))
        return res

    def evaluate(self, pdir, proj, case, name):
        """returns dict with real/model/expected results"""
        runner = self.runner
        bd = None
        if case["bd"] != "none":
            bd = runner.new_bd(pdir)
        args = case_args(case, proj, bd)
        env = {}
        if case.get("fault"):
            env["VERIF_WORKER_FAULT"] = "%s:0:exit" % case["fault"]
        if case["bd"] == "warm":
            runner.run(pdir, args, env)      # first run fills the cache
        rc, out, err = runner.run(pdir, args, env)
        real_lines = parse_lines(err)
        invalid = rc == 1 and "cppcheck: error:" in out and not real_lines
        r = dict(case=case, args=args, rc=rc, stdout=out[-400:], stderr=err[-1500:])
        if invalid:
            r.update(kind="invalid", real="status=1", model="status=1", expected=1)
            # model: processStatus .fail = 1 (theorem invalid_cmdline_is_1); nothing else to compare
            return r
        # ---- model inputs
        checkcfg = bool(case.get("checkcfg"))
        per = [self.per_file(pdir, proj, n, checkcfg) for n in case["order"]]
        basem = self.base(pdir, proj, case, bd)
        cnt = collections.Counter(f["text"] for f in basem)
        for fl in per:
            for f in fl:
                cnt[f["text"]] -= 1
        incons = [t for t, c in cnt.items() if c < 0]
        if case.get("fault"):
            # the faulted worker delivers nothing; its file contributes no findings but one lost pipe
            per = [[] if n == case["fault"] else fl for n, fl in zip(case["order"], per)]
        wtexts = []
        bytext = {f["text"]: f for f in basem}
        for t, c in cnt.items():
            wtexts += [t] * max(c, 0)
        wp = [bytext[t] for t in wtexts]
        if case["executor"] == "single":
            seen, wp1, wp2 = set(), [], []
            for f in wp:
                (wp2 if f["text"] in seen else wp1).append(f)
                seen.add(f["text"])
        else:
            wp1, wp2 = [], wp
        um = [f for f in real_lines if f["id"] in ("unmatchedSuppression", "unmatchedPolyspaceSuppression")]
        allf = [f for fl in per for f in fl] + wp1 + wp2
        items = [(f["id"], f["file"], f["line"]) for f in allf]
        # unmatchedSuppression messages without a location are matched with an empty file name and NO_LINE
        items += [(f["id"], "" if f["file"] == "nofile" else f["file"], -1 if f["file"] == "nofile" else f["line"]) for f in um]
        if case.get("fault"):
            items.append(("cppcheckError", case["fault"], 0))
        # what the run really printed (the checkers summary is StdLogger's own message; the parent's cppcheckError for a lost
        # worker is raised by the executor, not by the analysis: both are outside `printed`)
        shown = [f for f in real_lines if f["id"] != "checkersReport"]
        if case.get("fault"):
            shown = [f for f in shown if not (f["id"] == "cppcheckError" and f["file"].strip() == case["fault"])]   # project mode: "<file> <cfg>"
        pitems = [(f["id"], "" if (f["file"] == "nofile" and f["id"].startswith("unmatched")) else f["file"],
                   -1 if (f["file"] == "nofile" and f["id"].startswith("unmatched")) else f["line"]) for f in shown]
        ball = self.bits(pdir, case, items + pitems)
        b = None if ball is None else ball[:len(items)]
        pb = None if ball is None else ball[len(items):]
        if b is None:
            r.update(kind="machinery", real="?", model="?", expected=None, note="harness rejected a suppression the binary accepted")
            return r

        def enc(f, bb, is_um=False):
            bits5, crit = bb
            if is_um:
                bits5 = "0000" + bits5[4]
            return "%d:%s%s%s" % (self.key(f["text"]), "000", crit, bits5)
        it = iter(b)
        files_enc = [[enc(f, next(it)) for f in fl] for fl in per]
        wp1_enc = [enc(f, next(it)) for f in wp1]
        wp2_enc = [enc(f, next(it)) for f in wp2]
        um_enc = [enc(f, next(it), True) for f in um]
        lost = 0
        fault_line = None
        if case.get("fault"):
            lost = 2      # `++result` for the pipe closed before CHILD_END and `++result` for the worker's exit status 3
            fb = next(it)
            # reportInternalChildErr -> hasToLog -> StdLogger: a cppcheckError message the parent raises itself
            fault_line = fb
        exn = {"single": 0, "thread": 1, "process": 2}[case["executor"]]

        def model_line(v):
            toks = ["run", "1" if v["unmatchedNofail"] else "0", "1" if v["checkConfigLogger"] else "0", str(case["code"]),
                    "1" if case.get("safety") else "0", "1" if checkcfg else "0", "1" if case.get("emitdup") else "0", str(exn),
                    "1" if case.get("project") else "0", "1" if any(f["id"] != "staticFunction" for f in wp1) else "0", "1" if um else "0",
                    str(lost), "files", str(len(files_enc))]
            for fe in files_enc:
                toks += [str(len(fe))] + fe
            toks += ["wp1", str(len(wp1_enc))] + wp1_enc + ["wp2", str(len(wp2_enc))] + wp2_enc + ["um", str(len(um_enc))] + um_enc
            return " ".join(toks)
        variants = [self.variant, dict(self.variant, unmatchedNofail=False), dict(self.variant, checkConfigLogger=False)]
        rcm, mout, merr = core.run_lines(self.drv, [], [model_line(v) for v in variants])
        if len(mout) != 3 or any(not o.startswith("status=") for o in mout):
            raise core.CheckBroken("drv_c25: %s %s" % (mout, merr[-300:]))

        def parse_model(o):
            m = re.match(r"^status=(\d+) ret=(-?\d+) rv1=(\d+) crit=([01]) printed=(\S+)$", o)
            keys = [] if m.group(5) == "-" else [int(x) for x in m.group(5).split(",")]
            return int(m.group(1)), sorted(keys)
        mstat, mprinted = parse_model(mout[0])
        rprinted = sorted(self.key(f["text"]) for f in shown)
        r["real"] = "status=%d printed=%s" % (rc, ",".join(map(str, rprinted)) or "-")
        r["model"] = "status=%d printed=%s" % (mstat, ",".join(map(str, mprinted)) or "-")
        r["kind"] = "run"
        r["incons"] = incons
        r["alt_f9"] = parse_model(mout[1])[0]
        r["alt_cc"] = parse_model(mout[2])[0]
        # ---- P_impl on the implementation alone: nofail answers for what the run really printed
        counts = any(bb[0][4] == "0" for bb in pb)
        try:
            code = int(case["code"])
        except ValueError:
            code = 0
        r["expected"] = (code % 256) if counts else 0
        r["um"] = len(um)
        r["um_all_nofail"] = bool(um) and all(bb[0][4] == "1" for f, bb in zip(shown, pb) if f["id"].startswith("unmatched"))
        r["anybit"] = any("1" in bb[0] for bb in b) or bool(um)
        r["nprinted"] = len(shown)
        return r


def classify(r, variant):
    """class of a P_impl failure: premise:* = outside the property's statement; anything else is a violation (the two keys
    name the regressions of the fixed defects F9 / F25b in the replay; a fixed entry suppresses nothing)"""
    c = r["case"]
    if c.get("safety"):
        return "premise:safety"
    if c.get("fault"):
        return "premise:lost-pipe"
    if r["um"] and r["um_all_nofail"] and r["rc"] == r["alt_f9"] and r["rc"] != r["expected"]:
        return KEY_F9
    if c.get("checkcfg") and r["rc"] == r["alt_cc"] and r["rc"] != r["expected"]:
        return KEY_CC
    return None


def translate(ctx):
    pass   # no generated Lean module: the variant is passed to the model on every op line


def load_corpus():
    p = os.path.join(core.VERIF, "corpus", "C25", "cases.json")
    return json.load(open(p)) if os.path.exists(p) else []


def run_one(ev, res, pdir, proj, case, name, variant, expect_key=None, sample=False):
    r = ev.evaluate(pdir, proj, case, name)
    canon = json.dumps(dict(files=proj["files"], enable=proj["enable"], case=case), sort_keys=True)
    if r["kind"] == "machinery":
        res.count("skipped:harness-rejected-suppression")
        return r
    nt = r["kind"] == "run" and r.get("anybit", False) and (r["expected"] is not None) and (int(case["code"]) % 256 != 0 if re.match(r"^-?\d+$", str(case["code"])) else False)
    samp = None
    if sample:
        samp = dict(tie="cli", args=" ".join(r["args"]), impl=r["real"], model=r["model"])
    res.case(canon, nt, samp)
    res.count("executor:" + case["executor"]); res.count("bd:" + case["bd"]); res.count("kind:" + r["kind"])
    for fl in ("safety", "checkcfg", "emitdup", "project", "fault"):
        if case.get(fl):
            res.count("opt:" + fl)
    if r["kind"] == "run":
        if r["nprinted"] and r["expected"] == 0 and int(case["code"]) % 256 != 0:
            res.count("discriminating:printed-but-all-exitcode-suppressed" + ("-status-0" if r["rc"] == 0 else "-STATUS-NONZERO"))
        if r["nprinted"] == 0 and int(case["code"]) % 256 != 0:
            res.count("nothing-printed-status-%s" % ("0" if r["rc"] == 0 else "nonzero"))
        res.count("unmatched-reported" if r["um"] else "no-unmatched")
        res.count("exit:" + ("code" if r["rc"] not in (0,) else "0"))
    return r


def run(ctx, res):
    rng = ctx.rng
    thorough = ctx.tier == "thorough"
    core.prove(ctx, res, MODULES, THEOREMS)
    res.assumptions += [
        "the per-file analysis is a function of the file (model inputs = findings of reference runs of the same binary without suppressions)",
        "the answers of the suppression lists for a finding are those of the real SuppressionList on (id, file, line) (harness c25); symbolName / hash / macro suppressions are not generated",
        "the unmatchedSuppression messages of a run are taken from the run itself (their exactness is property C24); for them only the exit status is an independent observation",
        "theorem hypotheses: no --safety, exit code mod 256 != 0, no lost worker, < 2^32 files, equal rendered text => equal exitcode/global-suppression answers (keyCoherent), unmatchedSuppression messages are visible messages"]
    # ---- T1/T2
    variant, errs = extract_chain(core.REPO)
    # the model the check runs is the chain with both fixes (a59832c, 4c58edf); seeing the old statement shape again is a regression
    t1_ok = variant["unmatchedNofail"] is True and variant["checkConfigLogger"] is True
    t1_detail = "; ".join(errs)
    if variant["unmatchedNofail"] is False:
        t1_detail += " | check_internal again sets the exit status from reportUnmatchedSuppressions without the exitcode suppressions (pre-a59832c statement)"
    if variant["checkConfigLogger"] is False:
        t1_detail += " | checkInternal's --check-config branch again returns 0 (pre-4c58edf statement)"
    res.oblig("T1:fixed-statements-at-the-two-patch-points", t1_ok, "translation", t1_detail)
    res.oblig("T2:exit-code-chain-statements", not errs, "translation", "; ".join(errs))
    res.extra["variant_seen"] = variant
    v = dict(PATCHED)
    drv = ctx.driver("drv_c25")
    harness = robust_harness(ctx, "c25")
    runner = Runner(ctx, ctx.cppcheck)
    ev = Evaluator(ctx, res, runner, harness, drv, v)
    mism, viol = [], []

    def handle(r, pdir, proj, name):
        if r["kind"] == "machinery":
            return
        if r["real"] != r["model"]:
            mism.append((r, proj, name))
        if r["kind"] == "run" and r.get("incons"):
            res.count("reference-inconsistent")
        if r["kind"] == "invalid":
            if r["rc"] != 1:
                viol.append((r, proj, None))
            return
        if r["expected"] is not None and r["rc"] != r["expected"]:
            k = classify(r, v)
            if k and k.startswith("premise:"):
                res.count("outside-" + k)
                return
            viol.append((r, proj, k))

    # ---- corpus first
    corpus = load_corpus()
    seen_keys = set()
    for ci, c in enumerate(corpus):
        pdir = os.path.join(ctx.tmp, "corpus%d" % ci)
        write_project(pdir, c["project"])
        r = run_one(ev, res, pdir, c["project"], c["case"], c["name"], v, sample=True)
        handle(r, pdir, c["project"], c["name"])
        if c.get("expect_key") and r["kind"] == "run" and r["rc"] != r["expected"]:
            seen_keys.add(c["expect_key"])
    # ---- generated grid
    nproj = 12 if thorough else 2
    ncase = 100 if thorough else 30
    for k in range(nproj):
        proj = gen_project(rng, k)
        pdir = os.path.join(ctx.tmp, proj["name"])
        write_project(pdir, proj)
        raw = []
        for n in proj["order"]:
            raw += ev.per_file(pdir, proj, n, False)
        raw += ev.base(pdir, proj, dict(order=proj["order"], executor="single", bd="none"), None)
        pool = gen_suppr_pool(rng, proj, raw)
        for j in range(ncase):
            case = gen_case(rng, proj, pool, thorough)
            r = run_one(ev, res, pdir, proj, case, "%s-%d" % (proj["name"], j), v, sample=(j % 12 == 0))
            handle(r, pdir, proj, "%s-%d" % (proj["name"], j))
        # invalid command lines: exit status 1 before anything is analysed
        for extra in (["--error-exitcode=abc"], ["--suppress=:"], ["--exitcode-suppress="], ["--no-such-option"], ["--exitcode-suppressions=/nonexistent/file"]):
            case = dict(order=list(proj["order"]), nomsg=[], nofail=[], code=7, executor="single", bd="none", extra=extra)
            r = run_one(ev, res, pdir, proj, case, "invalid", v)
            handle(r, pdir, proj, "invalid")
    # ---- runs whose only findings come from the whole-program stages
    for k in range(8 if thorough else 4):
        proj = gen_wp_project(rng, k)
        pdir = os.path.join(ctx.tmp, proj["name"])
        write_project(pdir, proj)
        base = ev.base(pdir, proj, dict(order=proj["order"], executor="single", bd="none", nomsg=[]), None)
        raw_ids = sorted(set(f["id"] for f in base))
        fixed = [dict(executor="single", bd="none", nofail=[]), dict(executor="single", bd="none", nofail=list(raw_ids)),
                 dict(executor="single", bd="fresh", nofail=[]), dict(executor="thread", bd="fresh", nofail=[]),
                 dict(executor="process", bd="none", nofail=[])]
        for j in range(24 if thorough else 8):
            case = gen_wp_case(rng, proj, raw_ids)
            if j < len(fixed):
                case.update(fixed[j], emitdup=False)
            r = run_one(ev, res, pdir, proj, case, "%s-%d" % (proj["name"], j), v, sample=(j == 0))
            res.count("wp-only:" + "+".join(sorted(proj["kinds"])))
            if r["kind"] == "run" and r["nprinted"]:
                res.count("wp-only:finding-printed")
            handle(r, pdir, proj, "%s-%d" % (proj["name"], j))
    res.extra["cli_runs"] = runner.n
    res.traces_validated += res.evaluations - len(mism)
    first = ""
    if mism:
        r = mism[0][0]
        first = "%d cases differ; first: %s real=[%s] model=[%s]" % (len(mism), " ".join(r["args"]), r["real"], r["model"])
    res.oblig("correspondence:cli-exit-status-and-printed-findings", not mism, "correspondence", first)
    if mism:
        res.extra["mismatch_cases"] = [dict(project=pj, case=r["case"], args=r["args"], real=r["real"], model=r["model"], stderr=r["stderr"],
                                            keys={v: k for k, v in ev.keys.items() if str(v) in re.split(r"[=, ]", r["real"] + " " + r["model"])})
                                       for (r, pj, nm) in mism[:3]]
    for (r, proj, k) in viol:
        res.violation("exit status %d but P_impl expects %d: cppcheck %s   printed: %s" % (r["rc"], r["expected"], " ".join(r["args"]), r["real"]),
                      dict(project=proj, case=r["case"], args=r["args"], status=r["rc"], expected=r["expected"], real=r["real"], model=r["model"],
                           replay_cmd="./check.py C25 --replay <this file>"), concrete=True, key=k)
    # a broken correspondence without a P_impl failure: search wider around the disagreeing cases
    if mism and not viol:
        search(ctx, res, ev, mism, v)


def search(ctx, res, ev, mism, v):
    """the model no longer explains the binary: evaluate P_impl on many variations of the disagreeing cases"""
    rng = ctx.rng
    n = 0
    for (r0, proj, name) in mism[:6]:
        pdir = os.path.join(ctx.tmp, "search%d" % n)
        write_project(pdir, proj)
        n += 1
        base = r0["case"]
        for t in range(60):
            case = dict(base)
            case["code"] = rng.choice([7, 1, 255])
            case["executor"] = rng.choice(["single", "thread", "process"])
            case["bd"] = rng.choice(["none", "fresh"])
            case["safety"] = False
            case.pop("fault", None)
            if rng.random() < 0.5 and case["nofail"]:
                case["nofail"] = case["nofail"][:-1]
            if rng.random() < 0.5 and case["nomsg"]:
                case["nomsg"] = case["nomsg"][:-1]
            r = ev.evaluate(pdir, proj, case, "search")
            if r["kind"] == "run" and r["expected"] is not None and r["rc"] != r["expected"]:
                k = classify(r, v)
                if k and k.startswith("premise:"):
                    continue
                res.violation("search: exit status %d but P_impl expects %d: cppcheck %s   printed: %s" % (r["rc"], r["expected"], " ".join(r["args"]), r["real"]),
                              dict(project=proj, case=case, args=r["args"], status=r["rc"], expected=r["expected"], real=r["real"], model=r["model"]),
                              concrete=True, key=k)
                if len(res.violations) > 10:
                    return


def replay(ctx, res, rp):
    v = dict(PATCHED)
    ev = Evaluator(ctx, res, Runner(ctx, ctx.cppcheck), robust_harness(ctx, "c25"), ctx.driver("drv_c25"), v)
    pdir = os.path.join(ctx.tmp, "replay")
    write_project(pdir, rp["project"])
    r = ev.evaluate(pdir, rp["project"], rp["case"], "replay")
    print("cppcheck %s" % " ".join(r["args"]))
    print("real   %s" % r["real"])
    print("model  %s" % r["model"])
    print("P_impl expects status %s" % r["expected"])
    bad = r["kind"] == "run" and r["expected"] is not None and r["rc"] != r["expected"]
    k = classify(r, v) if r["kind"] == "run" else None
    if bad and k and k.startswith("premise:"):
        bad = False
        print("outside the property's statement (%s)" % k)
    if bad:
        print("VIOLATION property=C25 replay=(replayed) class=%s" % k)
    print("replay: %s" % ("still fails" if bad else "passes"))
    return 1 if bad else 0

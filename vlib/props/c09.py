"""C09 — expression types follow the language's conversion rules.

Obligations
  theorems   Cppcheck.Props.C09 (Lean): the model of SymbolDatabase::setValueType's operator typing (`conv*`, the code as pinned =
             variant `.base`) against the C17 / C++17 rules (`spec*`), for EVERY consistent platform shape (not only the table):
             `_partial` theorems whose hypotheses are the deviation classes K1..K5, theorems that a class deviates everywhere,
             proved counterexamples on the platforms of the generated table (F7: win64 / unix64, avr8), theorems about the
             code with the proposed patches (`.fixA`, `.fixAB`: documentation of the repaired algorithm), and the UNBOUNDED
             integer-literal theorem (every value, every triple of maxima; class K6 = octal literals).
  T1         Platform::set (lib/platform.cpp) + string→Type chain + loadFromXmlDocument chain + platforms/*.xml
             → lean/Cppcheck/Gen/PlatformsC09.lean (fail closed); theorems platforms_sane / platforms_maxima_ordered and the
             witnesses are re-proved over it on every run
  T2         the fields the real Platform object holds after Platform::set(name) == the generated record (harness `plat`)
  C1         EXHAUSTIVE in-process correspondence: every platform x {C, C++} x every ordered pair of the 15 arithmetic types x
             every binary operator / ?: / unary operator / cast: real Tokenizer + SymbolDatabase (harness/c09.cpp) vs the
             Lean model `.base` (a tree that matches `.fixA`/`.fixAB` instead is reported as a correspondence break)
  C2         integer literals: boundary grid + seeded values x dec/oct/hex/bin x every suffix x platforms vs the model
  oracle     thorough tier: clang -fsyntax-only _Generic / decltype probes for 16 target/flag combinations validate the SPEC
P_impl       type attached by the real code == type the language gives, evaluated on every explored case; a deviation is a
             KNOWN-FINDING only if it lies in a listed class (predicates computed by the Lean driver with the definitions the
             theorems use) AND equals what the model of the pinned code predicts; anything else is a VIOLATION with a replay.
"""
import os, re, json, glob
import xml.etree.ElementTree as ET
from .. import core, build_repo

ID = "C09"
LEVEL = "proof"
RULE = ("cases = (a) (platform, language, operator, operand type tuple): EVERY built-in and file platform x {C, C++} x every "
        "ordered pair of the 15 standard arithmetic types x every binary operator / ?: plus every unary operator and cast "
        "(exhaustive, not sampled; operands are declared variables, depth 1); non-trivial = the operator is not a cast or "
        "assignment (whose result is an operand type by definition) i.e. a conversion rule is exercised; (b) integer literals "
        "(boundary grid + seeded values x dec/oct/hex/bin x suffix spellings), non-trivial = suffixed or >= 2^15; (c) seeded "
        "random expression TREES of depth 1-4 over variables and integer literals (all node kinds, every platform, both "
        "languages), non-trivial = depth >= 2; (d) character-literal probes")
EXPLANATION = ("Scope of the proof: expressions built from variables of the 15 standard arithmetic types and integer literals with the "
               "unary, binary, assignment, ?: and C-cast operators, to ANY nesting depth (typeOf_eq_spec_partial: structural induction over "
               "expression trees; the type the model attaches to the root = the C17/C++17 type of the whole expression whenever every "
               "node is well-typed and outside K1..K6), for every platform with ordered sizes and both languages. Per node: the code's "
               "operator typing equals C17 6.3.1.1/6.3.1.8/6.5.x resp. C++17 [expr] outside the explicit classes K1..K5 (each with proved "
               "counterexample, each reproduced on the real code = findings F9a..F9e), and integer-literal typing equals 6.4.4.1p5 for "
               "every value outside K6 (octal literals, F9f). Tie: platform table by translator (fail closed) + EXHAUSTIVE in-process "
               "correspondence of the per-node model with the real Tokenizer/SymbolDatabase over the whole finite depth-1 table + "
               "SAMPLED correspondence of the tree fold (that the code is compositional: seeded depth 1-4 trees on every platform; this "
               "step is tested, not proved, the code's recursion through astParent() is not modelled); spec validated against clang for "
               "16 targets incl. nested trees (thorough). NOT covered (the property's 'enum and pointer operands' among them):  pointer/array/container/record/enum/bit-field operands, "
               "wchar_t/char16_t/char32_t/char8_t, unary plus (removed by the tokenizer), the comma operator, sizeof/alignof result "
               "types, floating literal and character literal types (probed only), user-defined suffixes, i64 suffixes, "
               "platforms given as Type::Unspecified for literals (suffix-only typing, not compared with the language).")
THEOREMS = ["Cppcheck.C09." + t for t in (
    "platforms_sane platforms_consistent platforms_char_lt_int conv_eq_spec_partial conv_eq_spec_partial_table "
    "conv_counterexample conv_counterexample_lp64 sameSize_class_deviates arith_fixed_eq_spec promotion_below_int "
    "promotion_counterexample promotion_fixed shift_takes_left_type shift_fixed comparison_yields_int_or_bool "
    "lnot_yields_int_or_bool comparison_c_counterexample assignment_keeps_left_type cast_takes_target_type incdec_partial "
    "incdec_fixed ternary_partial_different ternary_partial_same ternary_counterexample ternary_fixA_different ternary_fixed "
    "literal_type_partial literal_octal_deviates platforms_maxima_ordered literal_counterexample_oct literal_hex_window_closed "
    "node_bin node_un node_tern node_lit typeOf_eq_spec_partial typeOf_eq_spec_partial_table typeOf_counterexample").split()]
MODULES = ["Cppcheck.Props.C09"]

TYPES = ["bool", "char", "schar", "uchar", "short", "ushort", "int", "uint", "long", "ulong", "llong", "ullong", "float", "double", "ldouble"]
SPELL = {"bool": None, "char": "char", "schar": "signed char", "uchar": "unsigned char", "short": "short", "ushort": "unsigned short",
         "int": "int", "uint": "unsigned int", "long": "long", "ulong": "unsigned long", "llong": "long long",
         "ullong": "unsigned long long", "float": "float", "double": "double", "ldouble": "long double"}
BINOPS = {"add": "+", "sub": "-", "mul": "*", "div": "/", "mod": "%", "band": "&", "bor": "|", "bxor": "^", "shl": "<<", "shr": ">>",
          "lt": "<", "le": "<=", "gt": ">", "ge": ">=", "eq": "==", "ne": "!=", "land": "&&", "lor": "||",
          "assign": "=", "addA": "+=", "subA": "-=", "mulA": "*=", "divA": "/=", "modA": "%=", "andA": "&=", "orA": "|=", "xorA": "^=",
          "shlA": "<<=", "shrA": ">>="}
UNOPS = {"neg": "-a", "bnot": "~a", "lnot": "!a", "preInc": "++a", "preDec": "--a", "postInc": "a++", "postDec": "a--"}


class Unrecognised(Exception):
    pass


def spell(t, lang):
    if t == "bool":
        return "_Bool" if lang == "c" else "bool"
    return SPELL[t]


# ------------------------------------------------------------------------------------------------------------
# T1: translator lib/platform.cpp + platforms/*.xml → Gen/PlatformsC09.lean
# ------------------------------------------------------------------------------------------------------------
FIELDS = ["sizeof_bool", "sizeof_short", "sizeof_int", "sizeof_long", "sizeof_long_long", "sizeof_float", "sizeof_double",
          "sizeof_long_double", "sizeof_wchar_t", "sizeof_size_t", "sizeof_pointer"]
NATIVE = {"sizeof_bool": "bool", "sizeof_short": "short", "sizeof_int": "int", "sizeof_long": "long", "sizeof_long_long": "long long",
          "sizeof_float": "float", "sizeof_double": "double", "sizeof_long_double": "long double", "sizeof_wchar_t": "wchar_t",
          "sizeof_size_t": "std::size_t", "sizeof_pointer": "void *"}
XML_SIZEOF = {"short": "sizeof_short", "bool": "sizeof_bool", "int": "sizeof_int", "long": "sizeof_long", "long-long": "sizeof_long_long",
              "float": "sizeof_float", "double": "sizeof_double", "long-double": "sizeof_long_double", "pointer": "sizeof_pointer",
              "size_t": "sizeof_size_t", "wchar_t": "sizeof_wchar_t"}
NAME2TYPE = {"win32A": "Win32A", "win32W": "Win32W", "win64": "Win64", "unix32": "Unix32", "unix64": "Unix64", "native": "Native",
             "unspecified": "Unspecified"}


def strip_comments(text):
    text = re.sub(r"/\*.*?\*/", "", text, flags=re.S)
    return re.sub(r"//[^\n]*", "", text)


def function_body(text, header_re):
    m = re.search(header_re, text)
    if not m:
        raise Unrecognised("function header not found: " + header_re)
    i = text.index("{", m.end() - 1)
    depth, j = 0, i
    while j < len(text):
        if text[j] == "{":
            depth += 1
        elif text[j] == "}":
            depth -= 1
            if depth == 0:
                return text[i + 1:j]
        j += 1
    raise Unrecognised("unbalanced braces after " + header_re)


def native_probe(ctx):
    src = "#include <cstdio>\n#include <cstddef>\n#include <limits>\nint main(){\n"
    for f in FIELDS:
        src += 'std::printf("%s %%zu\\n", sizeof(%s));\n' % (f, NATIVE[f])
    src += 'std::printf("char_signed %d\\n", (int)std::numeric_limits<char>::is_signed);\n}\n'
    p = os.path.join(ctx.tmp, "c09_native_probe.cpp")
    open(p, "w").write(src)
    exe = os.path.join(ctx.tmp, "c09_native_probe")
    rc, out, err = core.sh(["g++", "-std=c++17", p, "-o", exe])
    if rc != 0:
        raise Unrecognised("native probe does not compile: " + err[-300:])
    rc, out, err = core.sh([exe])
    d = dict((l.split()[0], int(l.split()[1])) for l in out.strip().split("\n"))
    return d


def parse_platform_set(ctx, text):
    """case groups of `bool Platform::set(Type t)`: every statement must be one of the known shapes"""
    body = function_body(text, r"bool\s+Platform::set\s*\(\s*Type\s+t\s*\)\s*\{")
    lines = [l.strip() for l in body.split("\n") if l.strip()]
    if not lines or lines[0] != "switch (t) {":
        raise Unrecognised("Platform::set: expected `switch (t) {`")
    groups, cur, i = {}, None, 1
    native = None
    while i < len(lines):
        l = lines[i]
        m = re.match(r"^case Type::(\w+):$", l)
        if m:
            if cur is not None and cur["stmts"]:
                raise Unrecognised("Platform::set: fall-through into case " + m.group(1))
            if cur is None:
                cur = dict(labels=[], stmts=0, vals={}, native=False, ret=None)
            cur["labels"].append(m.group(1))
            i += 1
            continue
        if cur is None:
            if l in ("}", "return false;"):
                i += 1
                continue
            raise Unrecognised("Platform::set: statement outside a case: " + l)
        m = re.match(r"^(sizeof_\w+) = (\d+);$", l)
        if m and m.group(1) in FIELDS:
            cur["vals"][m.group(1)] = int(m.group(2)); cur["stmts"] += 1; i += 1; continue
        m = re.match(r"^(sizeof_\w+) = sizeof\(([\w :*]+)\);$", l)
        if m and m.group(1) in FIELDS and NATIVE[m.group(1)] == m.group(2).strip():
            if native is None:
                native = native_probe(ctx)
            cur["vals"][m.group(1)] = native[m.group(1)]; cur["native"] = True; cur["stmts"] += 1; i += 1; continue
        m = re.match(r"^windows = (true|false);$", l)
        if m:
            cur["stmts"] += 1; i += 1; continue
        m = re.match(r"^defaultSign = '([su])';$", l)
        if m:
            cur["vals"]["defaultSign"] = m.group(1); cur["stmts"] += 1; i += 1; continue
        m = re.match(r"^char_bit = (\d+);$", l)
        if m:
            cur["vals"]["char_bit"] = int(m.group(1)); cur["stmts"] += 1; i += 1; continue
        if l in ("type = t;", "calculateBitMembers();"):
            cur["stmts"] += 1; i += 1; continue
        if l == "if (type == Type::Unspecified) {":
            want = ["defaultSign = '\\0';", "} else {", "defaultSign = std::numeric_limits<char>::is_signed ? 's' : 'u';", "}"]
            if lines[i + 1:i + 5] != want:
                raise Unrecognised("Platform::set: native defaultSign shape: %s" % lines[i:i + 5])
            if native is None:
                native = native_probe(ctx)
            cur["vals"]["defaultSign"] = "native"; cur["stmts"] += 1; i += 5; continue
        if l in ("return true;", "return false;"):
            cur["ret"] = (l == "return true;")
            for lab in cur["labels"]:
                groups[lab] = cur
            cur = None; i += 1; continue
        raise Unrecognised("Platform::set: statement not understood: " + l)
    if cur is not None:
        raise Unrecognised("Platform::set: case group without return")
    return groups, native


def check_name_chain(text):
    """`Platform::set(const std::string&, ...)`: the platform names and the Type each selects"""
    body = function_body(text, r"bool\s+Platform::set\s*\(\s*const\s+std::string\s*&\s*platformstr")
    found = dict(re.findall(r'platformstr == "(\w+)"\)\s*set\(Type::(\w+)\);', body))
    if found != NAME2TYPE:
        raise Unrecognised("Platform::set(string): name→Type chain is %s" % found)
    if len(re.findall(r"platformstr ==", body)) != len(NAME2TYPE):
        raise Unrecognised("Platform::set(string): extra comparison on platformstr")
    if "loadFromFile(paths, platformstr, debug)" not in body:
        raise Unrecognised("Platform::set(string): file fallback not found")


def check_xml_chain(text):
    body = function_body(text, r"bool\s+Platform::loadFromXmlDocument\s*\(")
    flat = re.sub(r"\s+", " ", body)
    pairs = dict(re.findall(r'std::strcmp\(szname, "([\w-]+)"\) == 0\) (sizeof_\w+) = xmlTextAsUInt\(sz, error\);', flat))
    if pairs != XML_SIZEOF:
        raise Unrecognised("loadFromXmlDocument: sizeof element→field chain is %s" % pairs)
    if len(re.findall(r"std::strcmp\(szname,", flat)) != len(XML_SIZEOF):
        raise Unrecognised("loadFromXmlDocument: extra comparison on szname")
    names = re.findall(r'std::strcmp\((?:name|node->Name\(\)), "([\w-]+)"\)', flat)
    if sorted(names) != sorted(["default-sign", "char_bit", "sizeof", "windows"]):
        raise Unrecognised("loadFromXmlDocument: top-level elements are %s" % names)
    if 'if (!error) defaultSign = *str;' not in flat:
        raise Unrecognised("loadFromXmlDocument: default-sign handling changed")
    if '"char_bit") == 0) char_bit = xmlTextAsUInt(node, error);' not in flat:
        raise Unrecognised("loadFromXmlDocument: char_bit handling changed")
    if 'std::strcmp(rootnode->Name(), "platform") != 0' not in flat:
        raise Unrecognised("loadFromXmlDocument: root element test changed")


def parse_xml(path, defaults):
    vals = dict(defaults)
    root = ET.parse(path).getroot()
    if root.tag != "platform":
        raise Unrecognised("%s: root element %s" % (path, root.tag))
    for node in root:
        if node.tag == "default-sign":
            t = (node.text or "")
            if not t or t[0] not in "su":
                raise Unrecognised("%s: default-sign %r" % (path, t))
            vals["defaultSign"] = t[0]
        elif node.tag == "char_bit":
            vals["char_bit"] = int(node.text)
        elif node.tag == "sizeof":
            for sz in node:
                if sz.tag not in XML_SIZEOF:
                    raise Unrecognised("%s: sizeof element %s" % (path, sz.tag))
                vals[XML_SIZEOF[sz.tag]] = int(sz.text)
        elif node.tag == "windows":
            pass
        else:
            raise Unrecognised("%s: element %s" % (path, node.tag))
    return vals


def extract_platforms(ctx):
    text = strip_comments(open(os.path.join(core.REPO, "lib", "platform.cpp")).read())
    groups, native = parse_platform_set(ctx, text)
    check_name_chain(text)
    check_xml_chain(text)
    plats = []
    for name, ty in NAME2TYPE.items():
        g = groups.get(ty)
        if g is None or not g["ret"]:
            raise Unrecognised("Platform::set: no successful case for Type::" + ty)
        v = dict(g["vals"])
        missing = [f for f in ("sizeof_short", "sizeof_int", "sizeof_long", "sizeof_long_long", "char_bit", "defaultSign") if f not in v]
        if missing:
            raise Unrecognised("Platform::set: case %s does not set %s" % (ty, missing))
        if v["defaultSign"] == "native":
            # Native: the host compiler's plain char.  Unspecified: defaultSign is '\\0', which is not 'u' for the code;
            # the language side has nothing better to go by, so plain char counts as signed there as well
            v["defaultSign"] = "s" if (native["char_signed"] or ty == "Unspecified") else "u"
        plats.append((name, v))
    if not all(t in groups for t in ("File",)) or groups["File"]["ret"]:
        raise Unrecognised("Platform::set: case Type::File must return false")
    defaults = dict(dict(plats)["native"])
    for p in sorted(glob.glob(os.path.join(core.REPO, "platforms", "*.xml"))):
        plats.append((os.path.basename(p)[:-4], parse_xml(p, defaults)))
    return plats


def lean_platforms(plats):
    out = ["import Cppcheck.Model.ConvSpec",
           "/- GENERATED by vlib/props/c09.py from lib/platform.cpp (Platform::set, Platform::set(string), loadFromXmlDocument)",
           "   and platforms/*.xml — do not edit -/",
           "namespace Cppcheck.Gen.PlatformsC09", "open Cppcheck.ValueTypeConv", "",
           "def platforms : List Plat := ["]
    rows = []
    for name, v in plats:
        rows.append('  { name := "%s", charBit := %d, sizeofShort := %d, sizeofInt := %d, sizeofLong := %d, sizeofLongLong := %d, charUnsigned := %s }'
                    % (name, v["char_bit"], v["sizeof_short"], v["sizeof_int"], v["sizeof_long"], v["sizeof_long_long"],
                       "true" if v["defaultSign"] == "u" else "false"))
    out.append(",\n".join(rows))
    out += ["]", "", "end Cppcheck.Gen.PlatformsC09", ""]
    return "\n".join(out)


def translate(ctx):
    plats = extract_platforms(ctx)
    ctx.write_gen("PlatformsC09", lean_platforms(plats))
    return plats


# ------------------------------------------------------------------------------------------------------------
# programs
# ------------------------------------------------------------------------------------------------------------
def is_float(t):
    return t in ("float", "double", "ldouble")


def bin_ops_for(t1, t2):
    intonly = {"mod", "band", "bor", "bxor", "shl", "shr", "modA", "andA", "orA", "xorA", "shlA", "shrA"}
    return [o for o in BINOPS if o not in intonly or not (is_float(t1) or is_float(t2))]


def un_ops_for(t):
    r = ["neg"]
    if not is_float(t):
        r.append("bnot")
    r.append("lnot")
    if t != "bool":
        r += ["preInc", "preDec", "postInc", "postDec"]
    return r


def bin_program(lang, t1, t2):
    names = ["var1", "var2"] + bin_ops_for(t1, t2) + ["tern"]
    s = "void f(%s a, %s b, int c) {\n(void)(a);\n(void)(b);\n" % (spell(t1, lang), spell(t2, lang))
    for o in bin_ops_for(t1, t2):
        s += "(void)(a %s b);\n" % BINOPS[o]
    s += "(void)(c ? a : b);\n}\n"
    return s, names


def un_program(lang, t):
    names = ["var"] + un_ops_for(t) + ["cast_" + t2 for t2 in TYPES]
    s = "void f(%s a) {\n(void)(a);\n" % spell(t, lang)
    for o in un_ops_for(t):
        s += "(void)(%s);\n" % UNOPS[o]
    for t2 in TYPES:
        s += "(void)((%s)a);\n" % spell(t2, lang)
    s += "}\n"
    return s, names


def op_program(op):
    f = op.split()
    if f[0] == "bin":
        return bin_program(f[2], f[3], f[4])
    return un_program(f[2], f[3])


def canon_impl(op, out):
    """harness `ok vt vt ...` → the driver's `name=vt` format (conv part only)"""
    prog, names = op_program(op)
    f = out.split()
    if not f or f[0] != "ok" or len(f) - 1 != len(names):
        return "impl-error:" + out
    vts = f[1:]
    if op.startswith("bin"):
        parts = ["var=%s,%s" % (vts[0], vts[1])] + ["%s=%s" % (n, v) for n, v in zip(names[2:], vts[2:])]
    else:
        parts = ["var=%s" % vts[0]] + ["%s=%s" % (n, v) for n, v in zip(names[1:], vts[1:])]
    return " ".join(parts)


VARIANTS = ["base", "fixA", "fixAB"]
ARITH = {"add", "sub", "mul", "div", "mod"}
BIT = {"band", "bor", "bxor"}
SHIFT = {"shl", "shr"}
BOOLVAL = {"lt", "le", "gt", "ge", "eq", "ne", "land", "lor"}
INCDEC = {"preInc", "preDec", "postInc", "postDec"}

# the classes of deviation of the code AS PINNED (hypotheses of the `_partial` theorems); key -> what
CLASSES = {
    "uac-rank-not-size": "F9a (F7, class K1): usual arithmetic conversions pick the operand of higher RANK with its sign although it is not wider: "
                         "`unsigned int + long` is typed `signed long` where sizeof(long)==sizeof(int) (win32A/W, win64, unix32, arm32, mips32, riscv32 ...), "
                         "`unsigned long + long long` is typed `signed long long` where sizeof(long long)==sizeof(long) (unix64, native, aix_ppc64, riscv64 ...); "
                         "C17 6.3.1.8 gives the unsigned type (clang --target=x86_64-pc-windows-msvc / x86_64-linux-gnu agree)",
    "promotion-unsigned-fills-int": "F9b (class K2): every type below int is promoted to `signed int`: `unsigned short` operands of + - * / % & | ^ << >> unary - ~ "
                                    "where sizeof(short)==sizeof(int) (avr8, msp430_eabi_large_datamodel, pic8, pic8-enhanced, pic16) are typed `signed int`; "
                                    "C17 6.3.1.1p2 gives `unsigned int`",
    "literal-octal-as-decimal": "F9f (class K6): an octal literal is treated as a decimal one (MathLib::isDec accepts every digit string), so the unsigned types "
                                "of 6.4.4.1p5's octal/hex column are never chosen: `037777777777` (= UINT_MAX) is typed `signed long` on unix64 "
                                "(`signed long long` on win64); the language gives `unsigned int`",
    "c-boolean-typed-bool": "F9c (class K3): in C, `a < b`, `a == b`, `a && b`, `!a` (and `_Bool ? _Bool : _Bool`) are typed `bool`; C17 6.5.8p6/6.5.9p3/6.5.13p3/6.5.3.3p5 "
                            "give `int` (visible consequence: `sizeof(a<b) == 1` is reported as always true in a .c file)",
    "incdec-promoted": "F9d (class K4): `++a`, `a++`, `--a`, `a--` on char/short operands are typed `signed int` (the promotion branch is shared with the arithmetic operators); "
                       "C17 6.5.3.1p2/6.5.2.4p2 and C++17 [expr.pre.incr]/[expr.post.incr] give the operand's type (`sizeof(++us)` is folded to 4)",
    "ternary-same-enum-type": "F9e (class K5): `c ? a : b` with operands of one ValueType::Type takes the type of `a` (ValueType::isTypeEqual ignores the sign): "
                              "`c ? i : u` (int, unsigned int) is typed `signed int`, `c ? sc : uc` `signed char`; in C `c ? s : s` (short) stays `short`; "
                              "C17 6.5.15p5 / C++17 [expr.cond] give the usual arithmetic conversions (`unsigned int`, `int`, `int`)",
}


def split_model(out):
    """driver line → ({variant: conv line}, spec dict, flags dict)"""
    conv = dict((v, []) for v in VARIANTS)
    spec, flags = {}, {}
    for p in out.split():
        if p.startswith("K:"):
            flags = dict(kv.split("=") for kv in p[2:].split(","))
            continue
        n, v = p.split("=", 1)
        if "|" in v:
            c, s = v.split("|")
            cs = c.split("/")
            for k, vr in enumerate(VARIANTS):
                conv[vr].append("%s=%s" % (n, cs[k]))
            spec[n] = s
        else:
            for vr in VARIANTS:
                conv[vr].append(p)
    return dict((vr, " ".join(conv[vr])) for vr in VARIANTS), spec, flags


def table_ops(plat_names, langs=("c", "cpp")):
    ops = []
    for name in plat_names:
        for lang in langs:
            for t1 in TYPES:
                for t2 in TYPES:
                    ops.append("bin %s %s %s %s" % (name, lang, t1, t2))
                ops.append("un %s %s %s" % (name, lang, t1))
    return ops


def run_ops(ctx, drv, exe, ops):
    """returns impl lines (canonical), {variant: model lines}, spec dicts, flag dicts"""
    hl = []
    for op in ops:
        f = op.split()
        prog, _ = op_program(op)
        hl.append("%s %s %s" % (f[1], f[2], core.hx(prog)))
    rc, hout, herr = core.run_lines([exe, core.REPO], [], hl, timeout=900)
    if len(hout) != len(ops):
        raise core.CheckBroken("C09 harness produced %d lines for %d ops (rc=%s): %s" % (len(hout), len(ops), rc, herr[-500:]))
    rc, mout, merr = core.run_lines(drv, [], ops, timeout=900)
    if len(mout) != len(ops):
        raise core.CheckBroken("C09 driver produced %d lines for %d ops: %s" % (len(mout), len(ops), merr[-500:]))
    if any(o in ("bad-op", "unknown-platform") for o in mout):
        raise core.CheckBroken("C09 driver rejected an op: %s" % ops[[o in ("bad-op", "unknown-platform") for o in mout].index(True)])
    impl = [canon_impl(op, o) for op, o in zip(ops, hout)]
    split = [split_model(o) for o in mout]
    models = dict((vr, [s[0][vr] for s in split]) for vr in VARIANTS)
    return impl, models, [s[1] for s in split], [s[2] for s in split]


def pick_variant(impl, models):
    """the modelled state of the code whose model agrees with the implementation on every op (first match);
    if none does, the one with the fewest disagreements"""
    best = None
    for vr in VARIANTS:
        mism = [i for i in range(len(impl)) if impl[i] != models[vr][i]]
        if not mism:
            return vr, mism
        if best is None or len(mism) < len(best[1]):
            best = (vr, mism)
    return best


def classify(op, name, flags):
    """class (known-finding key) of a deviation from the language rule at operator `name` of program `op`; None = none
    of the classes the `_partial` theorems exclude.  The predicates k1/k2*/svt/below are computed by the Lean driver with
    the very definitions the theorems use."""
    f = op.split()
    lang = f[2]
    if f[0] == "bin":
        t1, t2 = f[3], f[4]
        if name in BOOLVAL:
            return "c-boolean-typed-bool" if lang == "c" else None
        if name == "tern" and flags.get("svt") == "1":
            if lang == "c" and t1 == "bool" and t2 == "bool":
                return "c-boolean-typed-bool"
            return "ternary-same-enum-type"
        if name in ARITH or name in BIT or name == "tern":
            if flags.get("k2a") == "1" or flags.get("k2b") == "1":
                return "promotion-unsigned-fills-int"
            if flags.get("k1") == "1":
                return "uac-rank-not-size"
            return None
        if name in SHIFT:
            return "promotion-unsigned-fills-int" if flags.get("k2a") == "1" else None
        return None
    if name == "lnot":
        return "c-boolean-typed-bool" if lang == "c" else None
    if name in INCDEC:
        return "incdec-promoted" if flags.get("below") == "1" else None
    if name in ("neg", "bnot"):
        return "promotion-unsigned-fills-int" if flags.get("k2") == "1" else None
    return None


def expr_text(op, name):
    f = op.split()
    if f[0] == "bin":
        e = "c ? a : b" if name == "tern" else ("a" if name == "var1" else "b" if name == "var2" else "a %s b" % BINOPS[name])
        return "%s a; %s b; (%s)" % (spell(f[3], f[2]), spell(f[4], f[2]), e)
    if f[0] == "lit":
        return lit_spelling(f[3], int(f[4]), int(f[5]), int(f[6]), int(f[7]))
    if f[0] == "expr":
        return " ".join(f[3:])
    if name.startswith("cast_"):
        e = "(%s)a" % spell(name[5:], f[2])
    else:
        e = UNOPS.get(name, "a")
    return "%s a; (%s)" % (spell(f[3], f[2]), e)


def evaluate(ctx, res, drv, exe, ops, tie, count=True):
    """correspondence (against the matching modelled state of the code) + P_impl on every operator of every program"""
    impl, models, specs, flags = run_ops(ctx, drv, exe, ops)
    # THE model is `base` (the code as pinned).  The models of the patched code (proposed diffs) are only consulted to
    # say, in the failure message, whether the working tree is one of those states; any state other than `base` is a
    # correspondence break.
    variant, _ = pick_variant(impl, models)
    model = models["base"]
    mism = [i for i in range(len(ops)) if impl[i] != model[i]]
    res.traces_validated += len(ops) - len(mism)
    res.oblig("correspondence:" + tie, not mism, "correspondence",
              "" if not mism else "%d of %d programs differ from the model of the pinned code (closest modelled state: %s%s); first: op=%s impl=[%s] model=[%s]" %
              (len(mism), len(ops), variant,
               "" if variant == "base" else " = the code with /verif/proposed/C09-*.diff applied; the model of record must then be switched deliberately",
               ops[mism[0]], impl[mism[0]], model[mism[0]]))
    devs = []
    for i, op in enumerate(ops):
        f = op.split()
        bad = impl[i].startswith("impl-error")
        got = {} if bad else dict(p.split("=", 1) for p in impl[i].split())
        if bad:
            devs.append(dict(op=op, name="*", impl=impl[i], spec="(program rejected by the implementation)", key=None))
        mod = dict(p.split("=", 1) for p in model[i].split())
        for n, s in specs[i].items():
            if count:
                nt = not (n.startswith("cast_") or n.endswith("A") or n == "assign")
                res.case("%s|%s|%s" % (tie, op, n), nt,
                         dict(tie=tie, op="%s [%s]" % (op, n), impl=got.get(n), model=mod.get(n), spec=s) if (i % 2500 == 7 and n in ("add", "neg")) else None)
                res.count("op:" + n.split("_")[0])
            if got.get(n) != s:
                key = classify(op, n, flags[i])
                if key is not None and got.get(n) != mod.get(n):
                    key = None          # a deviation, but not the one the model of the code predicts
                devs.append(dict(op=op, name=n, impl=got.get(n), spec=s, key=key))
                if count:
                    res.count("deviation:" + (key or "UNCLASSIFIED"))
    return variant, devs, mism


def report(res, devs, origin):
    """one violation per class (the first witness), every unclassified deviation (at most 5)"""
    seen = set(v.get("key") for v in res.violations if v.get("key"))
    unclassified = sum(1 for v in res.violations if not v.get("key"))
    for d in devs:
        if d["key"] in seen:
            continue
        if d["key"] is None:
            if unclassified >= 5:
                continue
            unclassified += 1
        else:
            seen.add(d["key"])
        f = d["op"].split()
        res.violation("%s: --platform=%s, %s: `%s` is typed %s by cppcheck, the language gives %s%s" %
                      (origin, f[1], "C" if f[2] == "c" else "C++", d.get("text") or (expr_text(d["op"], d["name"]) if d["name"] != "*" else d["op"]), d["impl"], d["spec"],
                       "" if d["key"] else " (outside every known class)"),
                      dict(op=d["op"], name=d["name"], impl=d["impl"], spec=d["spec"], klass=d["key"],
                           program=d.get("program") or (("void f(void) { (void)(%s); }" % d["text"]) if d["op"].startswith("lit") else op_program(d["op"])[0]),
                           replay_cmd="./check.py C09 --replay <this file>"),
                      concrete=True, key=d["key"])


# ------------------------------------------------------------------------------------------------------------
# integer literals
# ------------------------------------------------------------------------------------------------------------
def lit_spelling(base, us, longs, value, k):
    """one of the spellings of the literal; k selects hex vs binary, letter case and suffix order"""
    if base == "dec":
        body = str(value)
    elif base == "oct":
        body = "0" + oct(value)[2:] if value else "00"
    elif k % 5 == 4:
        body = "0b" + bin(value)[2:]
    else:
        body = ("0x%X" if k % 2 else "0x%x") % value
    l = ["", "l", "ll"][longs]
    if (k // 2) % 2:
        l = l.upper()
    u = ("U" if (k // 4) % 2 else "u") if us else ""
    return body + (u + l if (k // 8) % 2 == 0 else l + u)


def literal_cases(rng, thorough):
    vals = set([0, 1, 9, 127, 255, 32767, 65535])
    for b in (7, 8, 15, 16, 17, 31, 32, 33, 34, 47, 62, 63, 64):
        for d in (-2, -1, 0, 1):
            v = (1 << b) + d
            if 0 <= v < (1 << 64):
                vals.add(v)
    for _ in range(400 if thorough else 60):
        vals.add(rng.getrandbits(rng.choice([8, 16, 17, 30, 31, 32, 33, 34, 40, 62, 63, 64])))
    cases = []
    for v in sorted(vals):
        for base in ("dec", "oct", "hex"):
            for us in (0, 1):
                for longs in (0, 1, 2):
                    cases.append((base, us, longs, v, rng.randrange(16)))
    return cases


def run_literals(ctx, res, drv, exe, names, thorough):
    cases = literal_cases(ctx.rng, thorough)
    groups = [(plat, lang, cases[i:i + 150]) for plat in names for lang in ("c", "cpp") for i in range(0, len(cases), 150)]
    return literal_devs(ctx, res, drv, exe, groups, "literal-types", True)


def literal_devs(ctx, res, drv, exe, groups, tie, count):
    """groups: (platform, language, [(base, us, longs, value, spelling variant)]) - one program per group"""
    dops, hl = [], []
    for plat, lang, part in groups:
        prog = "void f(void) {\n" + "".join("(void)(%s);\n" % lit_spelling(*c) for c in part) + "}\n"
        hl.append("%s %s %s" % (plat, lang, core.hx(prog)))
        for c in part:
            dops.append("lit %s %s %d %d %d" % (plat, c[0], c[1], c[2], c[3]))
    rc, hout, herr = core.run_lines([exe, core.REPO], [], hl, timeout=900)
    rc, mout, merr = core.run_lines(drv, [], dops, timeout=900)
    if len(hout) != len(hl) or len(mout) != len(dops):
        raise core.CheckBroken("C09 literal streams: harness %d/%d driver %d/%d: %s" % (len(hout), len(hl), len(mout), len(dops), (herr + merr)[-300:]))
    mism, devs, j = [], [], 0
    for (plat, lang, part), o in zip(groups, hout):
        f = o.split()
        ok = f and f[0] == "ok" and len(f) - 1 == len(part)
        for k, c in enumerate(part):
            m = re.match(r"^lit=(\S+)\|(\S+) K:k6=(\d)$", mout[j])
            if not m:
                raise core.CheckBroken("C09 driver literal line: " + mout[j])
            conv, spec, k6 = m.groups()
            got = f[1 + k] if ok else "impl-error:" + o[:60]
            sp = lit_spelling(*c)
            desc = "%s %s %s" % (plat, lang, sp)
            if count:
                res.case("literal|" + desc, bool(c[3] >= (1 << 15) or c[1] or c[2]),
                         dict(tie=tie, op=desc, impl=got, model=conv, spec=spec) if j % 9000 == 11 else None)
                res.count("literal:" + ("bin" if sp.startswith("0b") else c[0]))
            if got != conv:
                mism.append((desc, got, conv))
            if plat != "unspecified" and spec != "none" and got != spec:
                key = "literal-octal-as-decimal" if k6 == "1" else None
                if key is not None and got != conv:
                    key = None
                devs.append(dict(op="lit %s %s %s %d %d %d %d" % (plat, lang, c[0], c[1], c[2], c[3], c[4]), name="lit", impl=got, spec=spec, key=key, text=sp))
                if count:
                    res.count("deviation:" + (key or "UNCLASSIFIED"))
            j += 1
    res.traces_validated += j - len(mism)
    res.oblig("correspondence:" + tie, not mism, "correspondence",
              "" if not mism else "%d of %d literals differ; first: %s impl=%s model=%s" % (len(mism), j, mism[0][0], mism[0][1], mism[0][2]))
    if count:
        res.extra["literals"] = j
    return devs


def lit_group(op):
    f = op.split()
    return (f[1], f[2], [(f[3], int(f[4]), int(f[5]), int(f[6]), int(f[7]))])


# ------------------------------------------------------------------------------------------------------------
# nested expressions (the tree theorem's tie): depth 2-4 trees over variables and integer literals
# ------------------------------------------------------------------------------------------------------------
KCLS = {"k1": "uac-rank-not-size", "k2": "promotion-unsigned-fills-int", "k3": "c-boolean-typed-bool", "k4": "incdec-promoted",
        "k5": "ternary-same-enum-type", "k6": "literal-octal-as-decimal"}
ASSIGN = [o for o in BINOPS if o == "assign" or o.endswith("A")]
NONASSIGN = [o for o in BINOPS if o not in ASSIGN]


def gen_leaf(rng):
    if rng.random() < 0.25:
        v = rng.choice([0, 1, 2, 5, 127, 255, 65535, 65536, 2147483647, 2147483648, 4294967295, 4294967296, rng.getrandbits(rng.choice([8, 31, 33, 63]))])
        return ("l", rng.choice(["dec", "dec", "hex", "oct"]), rng.choice([0, 0, 1]), rng.choice([0, 0, 0, 1, 2]), v, rng.randrange(16))
    ints = [t for t in TYPES if not is_float(t)]
    return ("v", rng.choice(TYPES) if rng.random() < 0.12 else rng.choice(ints))


def gen_tree(rng, depth):
    if depth == 0:
        return gen_leaf(rng)
    k = rng.random()
    if k < 0.12:
        op = rng.choice(["neg", "bnot", "lnot", "neg", "bnot"])
        return ("u", op, gen_tree(rng, depth - 1))
    if k < 0.17:
        return ("u", rng.choice(sorted(INCDEC)), ("v", rng.choice([t for t in TYPES if t != "bool"])))
    if k < 0.25:
        return ("c", rng.choice(TYPES), gen_tree(rng, depth - 1))
    if k < 0.40:
        return ("t", gen_tree(rng, rng.randrange(depth)), gen_tree(rng, depth - 1), gen_tree(rng, rng.randrange(depth)))
    if k < 0.47:
        return ("b", rng.choice(ASSIGN), ("v", rng.choice(TYPES)), gen_tree(rng, depth - 1))
    a, b = gen_tree(rng, depth - 1), gen_tree(rng, rng.randrange(depth))
    if rng.random() < 0.5:
        a, b = b, a
    return ("b", rng.choice(NONASSIGN), a, b)


def tree_tokens(t):
    if t[0] == "v":
        return ["v:" + t[1]]
    if t[0] == "l":
        return ["l:%s:%d:%d:%d" % (t[1], t[2], t[3], t[4])]
    if t[0] == "u":
        return ["u:" + t[1]] + tree_tokens(t[2])
    if t[0] == "b":
        return ["b:" + t[1]] + tree_tokens(t[2]) + tree_tokens(t[3])
    if t[0] == "t":
        return ["t"] + tree_tokens(t[1]) + tree_tokens(t[2]) + tree_tokens(t[3])
    return ["c:" + t[1]] + tree_tokens(t[2])


def tree_render(t, lang, params, prefix):
    """fully parenthesised C text; every variable leaf becomes a parameter of its own"""
    if t[0] == "v":
        n = "%s%d" % (prefix, len(params))
        params.append("%s %s" % (spell(t[1], lang), n))
        return n
    if t[0] == "l":
        return lit_spelling(t[1], t[2], t[3], t[4], t[5])
    if t[0] == "u":
        return "(" + UNOPS[t[1]].replace("a", tree_render(t[2], lang, params, prefix)) + ")"
    if t[0] == "b":
        return "(%s %s %s)" % (tree_render(t[2], lang, params, prefix), BINOPS[t[1]], tree_render(t[3], lang, params, prefix))
    if t[0] == "t":
        return "(%s ? %s : %s)" % (tree_render(t[1], lang, params, prefix), tree_render(t[2], lang, params, prefix), tree_render(t[3], lang, params, prefix))
    return "((%s)%s)" % (spell(t[1], lang), tree_render(t[2], lang, params, prefix))


def tree_depth(t):
    if t[0] in ("v", "l"):
        return 0
    return 1 + max(tree_depth(x) for x in t[1:] if isinstance(x, tuple))


def parse_expr_line(o):
    m = re.match(r"^root=(\S+)\|(\S+) K:ok=(\d),wt=(\d),cls=(\w+)$", o)
    if not m:
        raise core.CheckBroken("C09 driver expr line: " + o)
    cs = m.group(1).split("/")
    return dict(models=dict(zip(VARIANTS, cs)), spec=m.group(2), ok=m.group(3) == "1", wt=m.group(4) == "1", cls=m.group(5))


def nested_devs(ctx, res, drv, exe, items, tie, count):
    """items: (platform, language, tree).  Ill-typed trees are dropped (the driver says which).  One program per 30 trees."""
    dops = ["expr %s %s %s" % (p, l, " ".join(tree_tokens(t))) for p, l, t in items]
    rc, mout, merr = core.run_lines(drv, [], dops, timeout=900)
    if len(mout) != len(dops):
        raise core.CheckBroken("C09 driver (nested): %d lines for %d ops: %s" % (len(mout), len(dops), merr[-300:]))
    info = [parse_expr_line(o) for o in mout]
    keep = [i for i in range(len(items)) if info[i]["wt"]]
    groups = {}
    for i in keep:
        groups.setdefault((items[i][0], items[i][1]), []).append(i)
    hl, hidx = [], []
    for (p, l), idx in groups.items():
        for j in range(0, len(idx), 30):
            part = idx[j:j + 30]
            params, body = [], ""
            for n, i in enumerate(part):
                body += "(void)(%s);\n" % tree_render(items[i][2], l, params, "v%d_" % n)
            prog = "void f(%s) {\n%s}\n" % (", ".join(params) if params else "void", body)
            hl.append("%s %s %s" % (p, l, core.hx(prog)))
            hidx.append(part)
    rc, hout, herr = core.run_lines([exe, core.REPO], [], hl, timeout=900)
    if len(hout) != len(hl):
        raise core.CheckBroken("C09 harness (nested): %d lines for %d programs: %s" % (len(hout), len(hl), herr[-300:]))
    mism, devs, n = [], [], 0
    for part, o in zip(hidx, hout):
        f = o.split()
        good = f and f[0] == "ok" and len(f) - 1 == len(part)
        for k, i in enumerate(part):
            p, l, t = items[i]
            got = f[1 + k] if good else "impl-error:" + o[:60]
            inf = info[i]
            params = []
            text = tree_render(t, l, params, "a")
            desc = "%s %s %s" % (p, l, text)
            n += 1
            if count:
                res.case("nested|" + dops[i], tree_depth(t) >= 2,
                         dict(tie=tie, op=desc, impl=got, model=inf["models"]["base"], spec=inf["spec"]) if n % 700 == 3 else None)
                res.count("nested-depth:%d" % tree_depth(t))
                res.count("nested-ok:%d" % inf["ok"])
            if got != inf["models"]["base"]:
                mism.append((desc, got, inf["models"]["base"]))
            if got != inf["spec"]:
                key = KCLS.get(inf["cls"]) if (not inf["ok"] and got == inf["models"]["base"]) else None
                devs.append(dict(op=dops[i], name="root", impl=got, spec=inf["spec"], key=key, text=text,
                                 program="void f(%s) { (void)(%s); }" % (", ".join(params) if params else "void", text)))
                if count:
                    res.count("deviation:" + (key or "UNCLASSIFIED"))
    res.traces_validated += n - len(mism)
    res.oblig("correspondence:" + tie, not mism, "correspondence",
              "" if not mism else "%d of %d nested expressions differ from the fold of the per-node rules; first: %s impl=%s model=%s" %
              (len(mism), n, mism[0][0], mism[0][1], mism[0][2]))
    if count:
        res.extra["nested_expressions"] = n
    return devs


def run_nested(ctx, res, drv, exe, names, thorough):
    rng = ctx.rng
    per = 400 if thorough else 70
    items = []
    for p in names:
        if p == "unspecified":
            continue        # literal leaves are typed from the suffix only there (outside the comparison with the language)
        for l in ("c", "cpp"):
            for _ in range(per):
                items.append((p, l, gen_tree(rng, rng.choice([2, 2, 3, 3, 4]))))
    return nested_devs(ctx, res, drv, exe, items, "nested-expressions", True)


def load_corpus():
    p = os.path.join(core.VERIF, "corpus", "C09", "witnesses.json")
    return json.load(open(p)) if os.path.exists(p) else []


def run(ctx, res):
    thorough = ctx.tier == "thorough"
    try:
        plats = translate(ctx)
        res.oblig("T1:platform-table", len(plats) >= 7, "translation", "")
    except Unrecognised as ex:
        res.oblig("T1:platform-table", False, "translation", "unrecognised shape: %s" % ex)
        plats = None
    core.prove(ctx, res, MODULES, THEOREMS)
    if plats is None:
        return
    drv = ctx.driver("drv_c09")
    exe = ctx.harness("c09")
    names = [n for n, _ in plats]
    res.assumptions += [
        "the real setValueType (re-entry through astParent(), typing of a parent when its last operand gets a type) computes the fold `typeOf` "
        "of the per-node rules on nested expressions: tested on seeded depth 1-4 trees on every run, not proved",
        "operands are of the 15 standard arithmetic types (variables) or integer literals; pointer, array, enum, record, bit-field, wchar_t "
        "and charN_t operands are outside model, theorems and tie",
        "the hand-written language spec is validated against clang only in the thorough tier and only for shapes clang has a target for "
        "(no sizeof(int)==8, no 32-bit long long)",
        "Platform::Type::Unspecified: literal typing is suffix-only and is not compared with the language",
    ]

    # ---- corpus: the witnesses of the known classes and past disagreements run first -------------------------
    corpus = [c for c in load_corpus() if c["op"].split()[1] in names]
    cops = sorted(set(c["op"] for c in corpus if not c["op"].startswith("lit")))
    if cops:
        variant0, devs0, _ = evaluate(ctx, res, drv, exe, cops, "corpus", count=False)
        want = set((c["op"], c["name"]) for c in corpus)
        report(res, [d for d in devs0 if (d["op"], d["name"]) in want], "corpus witness")
    clits = sorted(set(c["op"] for c in corpus if c["op"].startswith("lit")))
    if clits:
        report(res, literal_devs(ctx, res, drv, exe, [lit_group(o) for o in clits], "corpus-literals", False), "corpus witness")

    # ---- T2: the sizes the real Platform object holds == the generated record ------------------------------------
    t2_bad = check_platform_sizes(ctx, drv, exe, plats)
    res.oblig("T2:platform-sizes-in-process", not t2_bad, "translation", "; ".join(t2_bad[:3]))

    # ---- C1 + P_impl: exhaustive over the table ------------------------------------------------------------------
    ops = table_ops(names)
    variant, devs, mism = evaluate(ctx, res, drv, exe, ops, "operator-types")
    res.extra["code_variant"] = variant
    res.extra["exhaustive"] = True
    res.extra["platforms"] = names
    res.extra["programs"] = len(ops)
    res.extra["deviations_from_language"] = len(devs)
    res.extra["deviation_classes"] = sorted(set(d["key"] or "UNCLASSIFIED" for d in devs))
    res.notes.append("modelled state of the code matched by exhaustive correspondence: " + variant)
    report(res, devs, "exhaustive table")

    # ---- literals: boundary grid + seeded values x bases x suffixes x platforms ---------------------------------------
    # literal typing reads int_bit/long_bit/long_long_bit only (and Type::Unspecified): the quick tier takes one platform per
    # distinct triple (T2 ties every platform's fields to the table), the thorough tier all of them
    lit_names, seen_bits = [], set()
    for n, v in plats:
        k = (n == "unspecified", v["char_bit"] * v["sizeof_int"], v["char_bit"] * v["sizeof_long"], v["char_bit"] * v["sizeof_long_long"])
        if thorough or k not in seen_bits:
            seen_bits.add(k)
            lit_names.append(n)
    res.extra["literal_platforms"] = lit_names
    ldevs = run_literals(ctx, res, drv, exe, lit_names, thorough)
    res.extra["literal_deviations_from_language"] = len(ldevs)
    report(res, ldevs, "integer literal")

    # ---- character literals (audit M2): probes against the language's type, no model ----------------------------------
    # C17 6.4.4.4p10: 'a' and 'ab' have type int; C++17 [lex.ccon]: 'a' char, 'ab' int; L'a' wchar_t in both.
    # u'a' / U'a' / u8'a' are char16_t / char32_t / char8_t: ValueType has no such Type (it records originalTypeName and
    # sizeof folds to 2 / 4 correctly), so the (type, sign) projection printed by the harness cannot express them: not probed.
    want = {"c": ["int:s", "int:s", "wchar:x"], "cpp": ["char:x", "int:s", "wchar:x"]}
    cprog = "void f(void) {\n(void)('a');\n(void)('ab');\n(void)(L'a');\n}\n"
    cl = [(p_, l_) for p_ in names for l_ in ("c", "cpp")]
    rc, cout, cerr = core.run_lines([exe, core.REPO], [], ["%s %s %s" % (p_, l_, core.hx(cprog)) for p_, l_ in cl])
    cbad = ["%s %s: %s (language: %s)" % (p_, l_, o, " ".join(want[l_])) for (p_, l_), o in zip(cl, cout) if o.split()[1:] != want[l_]]
    for (p_, l_), o in zip(cl, cout):
        res.case("charlit|%s|%s" % (p_, l_), True)
    res.oblig("probe:character-literal-types", len(cout) == len(cl) and not cbad, "probe", "; ".join(cbad[:3]))

    # ---- nested expressions: the code must be the fold of the per-node rules (tree theorem) --------------------------
    ndevs = run_nested(ctx, res, drv, exe, names, thorough)
    res.extra["nested_deviations_from_language"] = len(ndevs)
    report(res, ndevs, "nested expression")

    # ---- thorough: clang as second oracle for the SPEC -------------------------------------------------------------
    if thorough:
        clang_oracle(ctx, res, drv)

    if os.environ.get("C09_DUMP"):
        with open(os.environ["C09_DUMP"], "w") as fh:
            for d in devs:
                fh.write(json.dumps(d) + "\n")


def check_platform_sizes(ctx, drv, exe, plats):
    """the fields the real Platform object holds after Platform::set(name, ...) (harness `plat`) == the generated record
    as the Lean driver sees it"""
    names = [n for n, _ in plats]
    rc, hout, herr = core.run_lines([exe, core.REPO], [], ["%s plat" % n for n in names])
    rc, mout, merr = core.run_lines(drv, [], ["plat %s" % n for n in names])
    bad = []
    if len(hout) != len(names) or len(mout) != len(names):
        return ["plat streams: %d/%d lines for %d platforms" % (len(hout), len(mout), len(names))]
    for n, h, m in zip(names, hout, mout):
        hd = dict(kv.split("=") for kv in h.split() if "=" in kv)
        md = dict(kv.split("=") for kv in m.split() if "=" in kv)
        for k in ("charBit", "short", "int", "long", "llong", "charUnsigned"):
            if hd.get(k) != md.get(k):
                bad.append("%s: %s is %s in the real Platform object, %s in the generated table" % (n, k, hd.get(k), md.get(k)))
        if hd.get("bits") != ",".join(str(int(md.get("charBit", "0")) * int(md.get(k, "0"))) for k in ("short", "int", "long", "llong")):
            bad.append("%s: calculateBitMembers gives %s" % (n, hd.get("bits")))
    return bad


CLANG_TARGETS = [("x86_64-linux-gnu", []), ("i386-linux-gnu", []), ("x86_64-pc-windows-msvc", []), ("i686-pc-windows-msvc", []),
                 ("avr", []), ("msp430", []), ("aarch64-linux-gnu", []), ("armv7-linux-gnueabihf", []), ("riscv32", []), ("riscv64", []),
                 ("mips-linux-gnu", []), ("powerpc64-ibm-aix", []), ("x86_64-linux-gnu", ["-funsigned-char"]), ("avr", ["-funsigned-char"]),
                 ("aarch64-linux-gnu", ["-fsigned-char"]), ("x86_64-pc-windows-msvc", ["-funsigned-char"])]
VT2C = {"bool:x": None, "char:x": "char", "char:s": "signed char", "char:u": "unsigned char", "short:s": "short", "short:u": "unsigned short",
        "int:s": "int", "int:u": "unsigned int", "long:s": "long", "long:u": "unsigned long", "llong:s": "long long",
        "llong:u": "unsigned long long", "float:x": "float", "double:x": "double", "ldouble:x": "long double"}


def clang_sizes(target, flags):
    rc, out, err = core.sh(["clang", "--target=" + target] + flags + ["-dM", "-E", "-x", "c", "/dev/null"])
    if rc != 0:
        return None
    d = dict(re.findall(r"#define (\w+) (.*)", out))
    try:
        return dict(charBit=int(d["__CHAR_BIT__"]), short=int(d["__SIZEOF_SHORT__"]), int=int(d["__SIZEOF_INT__"]), long=int(d["__SIZEOF_LONG__"]),
                    llong=int(d["__SIZEOF_LONG_LONG__"]), cu=1 if "__CHAR_UNSIGNED__" in d else 0)
    except KeyError:
        return None


def probe_file(lang, ops, specs):
    """one translation unit asserting, for every operator of every op, that the compiler's type is the spec's type"""
    ids, out = [], []
    if lang == "cpp":
        out.append("template<class T> struct rr { typedef T t; }; template<class T> struct rr<T&> { typedef T t; };\n"
                   "template<class A, class B> struct same { static const bool v = false; }; template<class A> struct same<A, A> { static const bool v = true; };")
    for k, (op, spec) in enumerate(zip(ops, specs)):
        f = op.split()
        if f[0] == "bin":
            out.append("void f%d(%s a, %s b, int c) {" % (k, spell(f[3], lang), spell(f[4], lang)))
            exprs = [("var1", "a"), ("var2", "b")] + [(o, "a %s b" % BINOPS[o]) for o in bin_ops_for(f[3], f[4])] + [("tern", "c ? a : b")]
        else:
            out.append("void f%d(%s a) {" % (k, spell(f[3], lang)))
            exprs = [("var", "a")] + [(o, UNOPS[o]) for o in un_ops_for(f[3])] + [("cast_" + t2, "(%s)a" % spell(t2, lang)) for t2 in TYPES]
        for n, e in exprs:
            if n not in spec:
                continue
            ct = VT2C[spec[n]] or ("_Bool" if lang == "c" else "bool")
            i = len(ids)
            ids.append((op, n, spec[n]))
            if lang == "c":
                out.append('  _Static_assert(_Generic((%s), %s: 1, default: 0), "ID%d");' % (e, ct, i))
            else:
                out.append('  static_assert(same<rr<decltype((%s))>::t, %s>::v, "ID%d");' % (e, ct, i))
        out.append("}")
    return "\n".join(out) + "\n", ids


def clang_oracle(ctx, res, drv):
    """second oracle for the SPEC: for every clang target (a data model each) the Lean spec must name, for every
    operator x operand types, exactly the type clang gives the expression"""
    total = bad_total = 0
    seen_shapes = set()
    for target, flags in CLANG_TARGETS:
        sz = clang_sizes(target, flags)
        tag = target + ("" if not flags else " " + " ".join(flags))
        if sz is None:
            res.notes.append("clang target %s not available; skipped" % tag)
            continue
        pname = "x:%(charBit)d:%(short)d:%(int)d:%(long)d:%(llong)d:%(cu)d" % sz
        bad = []
        for lang in ("c", "cpp"):
            ops = table_ops([pname], [lang])
            rc, mout, merr = core.run_lines(drv, [], ops + ["plat " + pname])
            if len(mout) != len(ops) + 1:
                raise core.CheckBroken("C09 driver (clang oracle): %d lines for %d ops" % (len(mout), len(ops) + 1))
            seen_shapes.add(mout[-1].split("shape=")[-1])
            specs = [split_model(o)[1] for o in mout[:-1]]
            for op, sp in zip(ops, specs):
                if op.startswith("bin"):
                    sp["var1"], sp["var2"] = [declspec(t) for t in op.split()[3:5]]
                else:
                    sp["var"] = declspec(op.split()[3])
            text, ids = probe_file(lang, ops, specs)
            src = os.path.join(ctx.tmp, "c09_probe.%s" % ("c" if lang == "c" else "cpp"))
            open(src, "w").write(text)
            cmd = ["clang" if lang == "c" else "clang++", "--target=" + target] + flags + \
                  ["-std=c17" if lang == "c" else "-std=c++17", "-fsyntax-only", "-ffreestanding", "-w", "-ferror-limit=0", src]
            rc, out, err = core.sh(cmd, timeout=600)
            failed = set(int(x) for x in re.findall(r'"ID(\d+)"', err)) | set(int(x) for x in re.findall(r"failed[^\n]*ID(\d+)", err))
            other = [l for l in err.split("\n") if "error:" in l and "ID" not in l]
            total += len(ids)
            for i in sorted(failed):
                bad.append("%s %s: clang does not give `%s` the type %s" % (lang, ids[i][0], ids[i][1], ids[i][2]))
            if other:
                bad.append("%s: clang rejects the probe file: %s" % (lang, other[0][-200:]))
            res.count("clang-asserts:" + lang, len(ids))
        # nested trees: `specOf` (the fold of the language rules) against the compiler's type of the whole expression
        for lang in ("c", "cpp"):
            trees = [gen_tree(ctx.rng, ctx.rng.choice([2, 3, 3, 4])) for _ in range(250)]
            dops = ["expr %s %s %s" % (pname, lang, " ".join(tree_tokens(t))) for t in trees]
            rc, mout, merr = core.run_lines(drv, [], dops)
            if len(mout) != len(dops):
                raise core.CheckBroken("C09 driver (clang oracle, nested): %d lines for %d ops" % (len(mout), len(dops)))
            lines, ids = [], []
            if lang == "cpp":
                lines.append("template<class T> struct rr { typedef T t; }; template<class T> struct rr<T&> { typedef T t; };\n"
                             "template<class A, class B> struct same { static const bool v = false; }; template<class A> struct same<A, A> { static const bool v = true; };")
            for k, (t, o) in enumerate(zip(trees, mout)):
                inf = parse_expr_line(o)
                if not inf["wt"]:
                    continue
                params = []
                text = tree_render(t, lang, params, "a")
                ct = VT2C[inf["spec"]] or ("_Bool" if lang == "c" else "bool")
                i = len(ids)
                ids.append((text, inf["spec"]))
                if lang == "c":
                    lines.append('void g%d(%s) { _Static_assert(_Generic((%s), %s: 1, default: 0), "ID%d"); }' % (k, ", ".join(params) if params else "void", text, ct, i))
                else:
                    lines.append('void g%d(%s) { static_assert(same<rr<decltype((%s))>::t, %s>::v, "ID%d"); }' % (k, ", ".join(params), text, ct, i))
            src = os.path.join(ctx.tmp, "c09_nprobe.%s" % ("c" if lang == "c" else "cpp"))
            open(src, "w").write("\n".join(lines) + "\n")
            cmd = ["clang" if lang == "c" else "clang++", "--target=" + target] + flags + \
                  ["-std=c17" if lang == "c" else "-std=c++17", "-fsyntax-only", "-ffreestanding", "-w", "-ferror-limit=0", src]
            rc, out, err = core.sh(cmd, timeout=600)
            failed = set(int(x) for x in re.findall(r'"ID(\d+)"', err)) | set(int(x) for x in re.findall(r"failed[^\n]*ID(\d+)", err))
            other = [l for l in err.split("\n") if "error:" in l and "ID" not in l]
            total += len(ids)
            res.count("clang-nested-asserts:" + lang, len(ids))
            for i in sorted(failed):
                bad.append("%s nested: clang does not give `%s` the type %s" % (lang, ids[i][0], ids[i][1]))
            if other:
                bad.append("%s nested: clang rejects the probe file: %s" % (lang, other[0][-300:]))
        bad_total += len(bad)
        res.oblig("spec-vs-clang:%s" % tag, not bad, "oracle", "" if not bad else "%d disagreements; first: %s" % (len(bad), bad[0]))
    res.extra["clang_asserts"] = total
    res.extra["clang_shapes"] = sorted(seen_shapes)


def declspec(t):
    return {"bool": "bool:x", "char": "char:x", "schar": "char:s", "uchar": "char:u", "short": "short:s", "ushort": "short:u", "int": "int:s",
            "uint": "int:u", "long": "long:s", "ulong": "long:u", "llong": "llong:s", "ullong": "llong:u", "float": "float:x",
            "double": "double:x", "ldouble": "ldouble:x"}[t]


def replay(ctx, res, rp):
    """re-run one stored case on the real code; 1 if it still deviates from the language rule"""
    translate(ctx)
    drv = ctx.driver("drv_c09")
    exe = ctx.harness("c09")
    if rp["op"].startswith("lit"):
        devs = literal_devs(ctx, res, drv, exe, [lit_group(rp["op"])], "replay", False)
    else:
        variant, devs, _ = evaluate(ctx, res, drv, exe, [rp["op"]], "replay", count=False)
    hit = [d for d in devs if d["name"] == rp["name"] or rp["name"] == "*"]
    for d in hit:
        print("still fails: %s [%s] impl=%s language=%s class=%s" % (d["op"], d["name"], d["impl"], d["spec"], d["key"]))
    if not hit:
        print("does not reproduce: %s [%s] now has the language's type" % (rp["op"], rp["name"]))
    return 1 if hit else 0

"""C09 — expression types follow the language's conversion rules.

Obligations
  theorems   Cppcheck.Props.C09 (Lean): the model of SymbolDatabase::setValueType's operator typing (`conv*`) against
             the C17 / C++17 rules (`spec*`), for EVERY platform shape (not only the table): exact characterisation
             of the inputs on which they differ (`*_eq_spec_iff`), `_partial` theorems with the excluding hypothesis,
             proved counterexamples (F7 …), and the table theorems over the platforms generated on this run.
  T1         Platform::set (lib/platform.cpp) + string→Type chain + loadFromXmlDocument chain + platforms/*.xml
             → lean/Cppcheck/Gen/PlatformsC09.lean (fail closed)
  C1         EXHAUSTIVE in-process correspondence: for every platform × {C, C++} × every ordered pair of the 15
             arithmetic types × every operator: real Tokenizer + SymbolDatabase (harness/c09.cpp) vs the Lean model
  T2         the sizes the real Platform object holds after Platform::set(name) == the generated record (harness `plat`)
P_impl       type attached by the real code == type the language gives (the Lean spec, which the thorough tier
             validates against clang --target=<data model> _Generic/decltype probes)
"""
import os, re, json, glob
import xml.etree.ElementTree as ET
from .. import core, build_repo

ID = "C09"
LEVEL = "proof"
RULE = ("cases = (platform, language, operator, operand type tuple): EVERY built-in and file platform x {C, C++} x every "
        "ordered pair of the 15 standard arithmetic types x every binary operator / ?: plus every unary operator and cast "
        "(exhaustive, not sampled); non-trivial = the operator is not a cast or assignment (whose result is an operand type "
        "by definition) i.e. a conversion rule is exercised")
EXPLANATION = "filled in below"
THEOREMS = []
MODULES = ["Cppcheck.Props.C09"]

TYPES = ["bool", "char", "schar", "uchar", "short", "ushort", "int", "uint", "long", "ulong", "llong", "ullong", "float", "double", "ldouble"]
SPELL = {"bool": None, "char": "char", "schar": "signed char", "uchar": "unsigned char", "short": "short", "ushort": "unsigned short",
         "int": "int", "uint": "unsigned int", "long": "long", "ulong": "unsigned long", "llong": "long long",
         "ullong": "unsigned long long", "float": "float", "double": "double", "ldouble": "long double"}
BINOPS = {"add": "+", "sub": "-", "mul": "*", "div": "/", "mod": "%", "band": "&", "bor": "|", "bxor": "^", "shl": "<<", "shr": ">>",
          "lt": "<", "le": "<=", "gt": ">", "ge": ">=", "eq": "==", "ne": "!=", "land": "&&", "lor": "||",
          "assign": "=", "addA": "+=", "subA": "-=", "mulA": "*=", "divA": "/=", "modA": "%=", "andA": "&=", "orA": "|=", "xorA": "^=",
          "shlA": "<<=", "shrA": ">>="}
UNOPS = {"neg": "-a", "bnot": "~a", "lnot": "!a", "preInc": "++a", "preDec": "--a", "postInc": "a++", "postDec": "a--"}


class Unrecognised(Exception):
    pass


def spell(t, lang):
    if t == "bool":
        return "_Bool" if lang == "c" else "bool"
    return SPELL[t]


# ------------------------------------------------------------------------------------------------------------
# T1: translator lib/platform.cpp + platforms/*.xml → Gen/PlatformsC09.lean
# ------------------------------------------------------------------------------------------------------------
FIELDS = ["sizeof_bool", "sizeof_short", "sizeof_int", "sizeof_long", "sizeof_long_long", "sizeof_float", "sizeof_double",
          "sizeof_long_double", "sizeof_wchar_t", "sizeof_size_t", "sizeof_pointer"]
NATIVE = {"sizeof_bool": "bool", "sizeof_short": "short", "sizeof_int": "int", "sizeof_long": "long", "sizeof_long_long": "long long",
          "sizeof_float": "float", "sizeof_double": "double", "sizeof_long_double": "long double", "sizeof_wchar_t": "wchar_t",
          "sizeof_size_t": "std::size_t", "sizeof_pointer": "void *"}
XML_SIZEOF = {"short": "sizeof_short", "bool": "sizeof_bool", "int": "sizeof_int", "long": "sizeof_long", "long-long": "sizeof_long_long",
              "float": "sizeof_float", "double": "sizeof_double", "long-double": "sizeof_long_double", "pointer": "sizeof_pointer",
              "size_t": "sizeof_size_t", "wchar_t": "sizeof_wchar_t"}
NAME2TYPE = {"win32A": "Win32A", "win32W": "Win32W", "win64": "Win64", "unix32": "Unix32", "unix64": "Unix64", "native": "Native",
             "unspecified": "Unspecified"}


def strip_comments(text):
    text = re.sub(r"/\*.*?\*/", "", text, flags=re.S)
    return re.sub(r"//[^\n]*", "", text)


def function_body(text, header_re):
    m = re.search(header_re, text)
    if not m:
        raise Unrecognised("function header not found: " + header_re)
    i = text.index("{", m.end() - 1)
    depth, j = 0, i
    while j < len(text):
        if text[j] == "{":
            depth += 1
        elif text[j] == "}":
            depth -= 1
            if depth == 0:
                return text[i + 1:j]
        j += 1
    raise Unrecognised("unbalanced braces after " + header_re)


def native_probe(ctx):
    src = "#include <cstdio>\n#include <cstddef>\n#include <limits>\nint main(){\n"
    for f in FIELDS:
        src += 'std::printf("%s %%zu\\n", sizeof(%s));\n' % (f, NATIVE[f])
    src += 'std::printf("char_signed %d\\n", (int)std::numeric_limits<char>::is_signed);\n}\n'
    p = os.path.join(ctx.tmp, "c09_native_probe.cpp")
    open(p, "w").write(src)
    exe = os.path.join(ctx.tmp, "c09_native_probe")
    rc, out, err = core.sh(["g++", "-std=c++17", p, "-o", exe])
    if rc != 0:
        raise Unrecognised("native probe does not compile: " + err[-300:])
    rc, out, err = core.sh([exe])
    d = dict((l.split()[0], int(l.split()[1])) for l in out.strip().split("\n"))
    return d


def parse_platform_set(ctx, text):
    """case groups of `bool Platform::set(Type t)`: every statement must be one of the known shapes"""
    body = function_body(text, r"bool\s+Platform::set\s*\(\s*Type\s+t\s*\)\s*\{")
    lines = [l.strip() for l in body.split("\n") if l.strip()]
    if not lines or lines[0] != "switch (t) {":
        raise Unrecognised("Platform::set: expected `switch (t) {`")
    groups, cur, i = {}, None, 1
    native = None
    while i < len(lines):
        l = lines[i]
        m = re.match(r"^case Type::(\w+):$", l)
        if m:
            if cur is not None and cur["stmts"]:
                raise Unrecognised("Platform::set: fall-through into case " + m.group(1))
            if cur is None:
                cur = dict(labels=[], stmts=0, vals={}, native=False, ret=None)
            cur["labels"].append(m.group(1))
            i += 1
            continue
        if cur is None:
            if l in ("}", "return false;"):
                i += 1
                continue
            raise Unrecognised("Platform::set: statement outside a case: " + l)
        m = re.match(r"^(sizeof_\w+) = (\d+);$", l)
        if m and m.group(1) in FIELDS:
            cur["vals"][m.group(1)] = int(m.group(2)); cur["stmts"] += 1; i += 1; continue
        m = re.match(r"^(sizeof_\w+) = sizeof\(([\w :*]+)\);$", l)
        if m and m.group(1) in FIELDS and NATIVE[m.group(1)] == m.group(2).strip():
            if native is None:
                native = native_probe(ctx)
            cur["vals"][m.group(1)] = native[m.group(1)]; cur["native"] = True; cur["stmts"] += 1; i += 1; continue
        m = re.match(r"^windows = (true|false);$", l)
        if m:
            cur["stmts"] += 1; i += 1; continue
        m = re.match(r"^defaultSign = '([su])';$", l)
        if m:
            cur["vals"]["defaultSign"] = m.group(1); cur["stmts"] += 1; i += 1; continue
        m = re.match(r"^char_bit = (\d+);$", l)
        if m:
            cur["vals"]["char_bit"] = int(m.group(1)); cur["stmts"] += 1; i += 1; continue
        if l in ("type = t;", "calculateBitMembers();"):
            cur["stmts"] += 1; i += 1; continue
        if l == "if (type == Type::Unspecified) {":
            want = ["defaultSign = '\\0';", "} else {", "defaultSign = std::numeric_limits<char>::is_signed ? 's' : 'u';", "}"]
            if lines[i + 1:i + 5] != want:
                raise Unrecognised("Platform::set: native defaultSign shape: %s" % lines[i:i + 5])
            if native is None:
                native = native_probe(ctx)
            cur["vals"]["defaultSign"] = "native"; cur["stmts"] += 1; i += 5; continue
        if l in ("return true;", "return false;"):
            cur["ret"] = (l == "return true;")
            for lab in cur["labels"]:
                groups[lab] = cur
            cur = None; i += 1; continue
        raise Unrecognised("Platform::set: statement not understood: " + l)
    if cur is not None:
        raise Unrecognised("Platform::set: case group without return")
    return groups, native


def check_name_chain(text):
    """`Platform::set(const std::string&, ...)`: the platform names and the Type each selects"""
    body = function_body(text, r"bool\s+Platform::set\s*\(\s*const\s+std::string\s*&\s*platformstr")
    found = dict(re.findall(r'platformstr == "(\w+)"\)\s*set\(Type::(\w+)\);', body))
    if found != NAME2TYPE:
        raise Unrecognised("Platform::set(string): name→Type chain is %s" % found)
    if len(re.findall(r"platformstr ==", body)) != len(NAME2TYPE):
        raise Unrecognised("Platform::set(string): extra comparison on platformstr")
    if "loadFromFile(paths, platformstr, debug)" not in body:
        raise Unrecognised("Platform::set(string): file fallback not found")


def check_xml_chain(text):
    body = function_body(text, r"bool\s+Platform::loadFromXmlDocument\s*\(")
    flat = re.sub(r"\s+", " ", body)
    pairs = dict(re.findall(r'std::strcmp\(szname, "([\w-]+)"\) == 0\) (sizeof_\w+) = xmlTextAsUInt\(sz, error\);', flat))
    if pairs != XML_SIZEOF:
        raise Unrecognised("loadFromXmlDocument: sizeof element→field chain is %s" % pairs)
    if len(re.findall(r"std::strcmp\(szname,", flat)) != len(XML_SIZEOF):
        raise Unrecognised("loadFromXmlDocument: extra comparison on szname")
    names = re.findall(r'std::strcmp\((?:name|node->Name\(\)), "([\w-]+)"\)', flat)
    if sorted(names) != sorted(["default-sign", "char_bit", "sizeof", "windows"]):
        raise Unrecognised("loadFromXmlDocument: top-level elements are %s" % names)
    if 'if (!error) defaultSign = *str;' not in flat:
        raise Unrecognised("loadFromXmlDocument: default-sign handling changed")
    if '"char_bit") == 0) char_bit = xmlTextAsUInt(node, error);' not in flat:
        raise Unrecognised("loadFromXmlDocument: char_bit handling changed")
    if 'std::strcmp(rootnode->Name(), "platform") != 0' not in flat:
        raise Unrecognised("loadFromXmlDocument: root element test changed")


def parse_xml(path, defaults):
    vals = dict(defaults)
    root = ET.parse(path).getroot()
    if root.tag != "platform":
        raise Unrecognised("%s: root element %s" % (path, root.tag))
    for node in root:
        if node.tag == "default-sign":
            t = (node.text or "")
            if not t or t[0] not in "su":
                raise Unrecognised("%s: default-sign %r" % (path, t))
            vals["defaultSign"] = t[0]
        elif node.tag == "char_bit":
            vals["char_bit"] = int(node.text)
        elif node.tag == "sizeof":
            for sz in node:
                if sz.tag not in XML_SIZEOF:
                    raise Unrecognised("%s: sizeof element %s" % (path, sz.tag))
                vals[XML_SIZEOF[sz.tag]] = int(sz.text)
        elif node.tag == "windows":
            pass
        else:
            raise Unrecognised("%s: element %s" % (path, node.tag))
    return vals


def extract_platforms(ctx):
    text = strip_comments(open(os.path.join(core.REPO, "lib", "platform.cpp")).read())
    groups, native = parse_platform_set(ctx, text)
    check_name_chain(text)
    check_xml_chain(text)
    plats = []
    for name, ty in NAME2TYPE.items():
        g = groups.get(ty)
        if g is None or not g["ret"]:
            raise Unrecognised("Platform::set: no successful case for Type::" + ty)
        v = dict(g["vals"])
        missing = [f for f in ("sizeof_short", "sizeof_int", "sizeof_long", "sizeof_long_long", "char_bit", "defaultSign") if f not in v]
        if missing:
            raise Unrecognised("Platform::set: case %s does not set %s" % (ty, missing))
        if v["defaultSign"] == "native":
            # Native: the host compiler's plain char.  Unspecified: defaultSign is '\\0', which is not 'u' for the code;
            # the language side has nothing better to go by, so plain char counts as signed there as well
            v["defaultSign"] = "s" if (native["char_signed"] or ty == "Unspecified") else "u"
        plats.append((name, v))
    if not all(t in groups for t in ("File",)) or groups["File"]["ret"]:
        raise Unrecognised("Platform::set: case Type::File must return false")
    defaults = dict(dict(plats)["native"])
    for p in sorted(glob.glob(os.path.join(core.REPO, "platforms", "*.xml"))):
        plats.append((os.path.basename(p)[:-4], parse_xml(p, defaults)))
    return plats


def lean_platforms(plats):
    out = ["import Cppcheck.Model.ConvSpec",
           "/- GENERATED by vlib/props/c09.py from lib/platform.cpp (Platform::set, Platform::set(string), loadFromXmlDocument)",
           "   and platforms/*.xml — do not edit -/",
           "namespace Cppcheck.Gen.PlatformsC09", "open Cppcheck.ValueTypeConv", "",
           "def platforms : List Plat := ["]
    rows = []
    for name, v in plats:
        rows.append('  { name := "%s", charBit := %d, sizeofShort := %d, sizeofInt := %d, sizeofLong := %d, sizeofLongLong := %d, charUnsigned := %s }'
                    % (name, v["char_bit"], v["sizeof_short"], v["sizeof_int"], v["sizeof_long"], v["sizeof_long_long"],
                       "true" if v["defaultSign"] == "u" else "false"))
    out.append(",\n".join(rows))
    out += ["]", "", "end Cppcheck.Gen.PlatformsC09", ""]
    return "\n".join(out)


def translate(ctx):
    plats = extract_platforms(ctx)
    ctx.write_gen("PlatformsC09", lean_platforms(plats))
    return plats


# ------------------------------------------------------------------------------------------------------------
# programs
# ------------------------------------------------------------------------------------------------------------
def is_float(t):
    return t in ("float", "double", "ldouble")


def bin_ops_for(t1, t2):
    intonly = {"mod", "band", "bor", "bxor", "shl", "shr", "modA", "andA", "orA", "xorA", "shlA", "shrA"}
    return [o for o in BINOPS if o not in intonly or not (is_float(t1) or is_float(t2))]


def un_ops_for(t):
    r = ["neg"]
    if not is_float(t):
        r.append("bnot")
    r.append("lnot")
    if t != "bool":
        r += ["preInc", "preDec", "postInc", "postDec"]
    return r


def bin_program(lang, t1, t2):
    names = ["var1", "var2"] + bin_ops_for(t1, t2) + ["tern"]
    s = "void f(%s a, %s b, int c) {\n(void)(a);\n(void)(b);\n" % (spell(t1, lang), spell(t2, lang))
    for o in bin_ops_for(t1, t2):
        s += "(void)(a %s b);\n" % BINOPS[o]
    s += "(void)(c ? a : b);\n}\n"
    return s, names


def un_program(lang, t):
    names = ["var"] + un_ops_for(t) + ["cast_" + t2 for t2 in TYPES]
    s = "void f(%s a) {\n(void)(a);\n" % spell(t, lang)
    for o in un_ops_for(t):
        s += "(void)(%s);\n" % UNOPS[o]
    for t2 in TYPES:
        s += "(void)((%s)a);\n" % spell(t2, lang)
    s += "}\n"
    return s, names


def op_program(op):
    f = op.split()
    if f[0] == "bin":
        return bin_program(f[2], f[3], f[4])
    return un_program(f[2], f[3])


def canon_impl(op, out):
    """harness `ok vt vt ...` → the driver's `name=vt` format (conv part only)"""
    prog, names = op_program(op)
    f = out.split()
    if not f or f[0] != "ok" or len(f) - 1 != len(names):
        return "impl-error:" + out
    vts = f[1:]
    if op.startswith("bin"):
        parts = ["var=%s,%s" % (vts[0], vts[1])] + ["%s=%s" % (n, v) for n, v in zip(names[2:], vts[2:])]
    else:
        parts = ["var=%s" % vts[0]] + ["%s=%s" % (n, v) for n, v in zip(names[1:], vts[1:])]
    return " ".join(parts)


VARIANTS = ["base", "fixA", "fixAB"]


def split_model(out):
    """driver line → ({variant: conv line}, spec dict)"""
    conv = dict((v, []) for v in VARIANTS)
    spec = {}
    for p in out.split():
        n, v = p.split("=", 1)
        if "|" in v:
            c, s = v.split("|")
            cs = c.split("/")
            for k, vr in enumerate(VARIANTS):
                conv[vr].append("%s=%s" % (n, cs[k]))
            spec[n] = s
        else:
            for vr in VARIANTS:
                conv[vr].append(p)
    return dict((vr, " ".join(conv[vr])) for vr in VARIANTS), spec


def table_ops(plat_names, langs=("c", "cpp")):
    ops = []
    for name in plat_names:
        for lang in langs:
            for t1 in TYPES:
                for t2 in TYPES:
                    ops.append("bin %s %s %s %s" % (name, lang, t1, t2))
                ops.append("un %s %s %s" % (name, lang, t1))
    return ops


def run_ops(ctx, drv, exe, ops):
    """returns impl lines (canonical), {variant: model lines}, spec dicts"""
    hl = []
    for op in ops:
        f = op.split()
        prog, _ = op_program(op)
        hl.append("%s %s %s" % (f[1], f[2], core.hx(prog)))
    rc, hout, herr = core.run_lines([exe, core.REPO], [], hl, timeout=900)
    if len(hout) != len(ops):
        raise core.CheckBroken("C09 harness produced %d lines for %d ops (rc=%s): %s" % (len(hout), len(ops), rc, herr[-500:]))
    rc, mout, merr = core.run_lines(drv, [], ops, timeout=900)
    if len(mout) != len(ops):
        raise core.CheckBroken("C09 driver produced %d lines for %d ops: %s" % (len(mout), len(ops), merr[-500:]))
    impl = [canon_impl(op, o) for op, o in zip(ops, hout)]
    split = [split_model(o) for o in mout]
    models = dict((vr, [s[0][vr] for s in split]) for vr in VARIANTS)
    return impl, models, [s[1] for s in split]


def pick_variant(impl, models):
    """the modelled state of the code whose model agrees with the implementation on every op (first match);
    if none does, the one with the fewest disagreements"""
    best = None
    for vr in VARIANTS:
        mism = [i for i in range(len(impl)) if impl[i] != models[vr][i]]
        if not mism:
            return vr, mism
        if best is None or len(mism) < len(best[1]):
            best = (vr, mism)
    return best


def run(ctx, res):
    thorough = ctx.tier == "thorough"
    try:
        plats = translate(ctx)
        res.oblig("T1:platform-table", len(plats) >= 7, "translation", "")
    except Unrecognised as ex:
        res.oblig("T1:platform-table", False, "translation", "unrecognised shape: %s" % ex)
        plats = None
    if THEOREMS:
        core.prove(ctx, res, MODULES, THEOREMS)
    if plats is None:
        return
    drv = ctx.driver("drv_c09")
    exe = ctx.harness("c09")
    ops = table_ops([n for n, _ in plats])
    impl, models, specs = run_ops(ctx, drv, exe, ops)
    variant, mism = pick_variant(impl, models)
    res.extra["code_variant"] = variant
    model = models[variant]
    res.traces_validated += len(ops) - len(mism)
    res.oblig("correspondence:operator-types", not mism, "correspondence",
              "" if not mism else "closest modelled state of the code: %s; %d of %d programs differ; first: op=%s impl=[%s] model=[%s]" %
              (variant, len(mism), len(ops), ops[mism[0]], impl[mism[0]], model[mism[0]]))
    devs = {}
    for i, op in enumerate(ops):
        f = op.split()
        got = dict(p.split("=", 1) for p in impl[i].split()) if not impl[i].startswith("impl-error") else {}
        for n, s in specs[i].items():
            res.case("%s|%s" % (op, n), not (n.startswith("cast_") or n == "assign"))
            if got.get(n) != s:
                devs.setdefault((f[0], f[2], n, got.get(n), s, tuple(f[3:])), []).append(f[1])
    res.extra["deviations"] = len(devs)
    if os.environ.get("C09_DUMP"):
        with open(os.environ["C09_DUMP"], "w") as fh:
            for k, v in sorted(devs.items(), key=str):
                fh.write("%s %s\n" % (k, ",".join(v)))


def replay(ctx, res, rp):
    return 0

#!/usr/bin/env python3
"""Mutation experiments for C26 (documentation aid, not part of the check).

Builds a harness linked against a hand-mutated copy of one anchored source file (the copy lives under /tmp, /repo is
never touched) and runs ./check.py C26 against it through VERIF_C26_HARNESS.  Usage: corpus/C26/mutate.py [name ...]
"""
import os, subprocess, sys, shutil
sys.path.insert(0, os.path.join(os.path.dirname(os.path.abspath(__file__)), "..", ".."))
from vlib import build_repo

REPO = build_repo.REPO
MUT = {
    # name: (file, old, new, what)
    "M1-fixInvalidChars-isprint": ("lib/errorlogger.cpp", "if (std::isprint(static_cast<unsigned char>(*from))) {", "if (static_cast<unsigned char>(*from) >= 0x20) {",
                                   "fixInvalidChars lets bytes >= 0x7f through"),
    "M2-toXML-verbose-unsanitised": ("lib/errorlogger.cpp", 'printer.PushAttribute("verbose", fixInvalidChars(mVerboseMessage).c_str());', 'printer.PushAttribute("verbose", mVerboseMessage.c_str());',
                                     "toXML writes the verbose message without fixInvalidChars"),
    "M3-toString-remark-before-message": ("lib/errorlogger.cpp", 'findAndReplace(result, "{message}", verbose ? mVerboseMessage : mShortMessage);\n    findAndReplace(result, "{remark}", remark);',
                                          'findAndReplace(result, "{remark}", remark);\n    findAndReplace(result, "{message}", verbose ? mVerboseMessage : mShortMessage);',
                                          "toString substitutes {remark} before {message}"),
    "M4-toString-column-off-by-one": ("lib/errorlogger.cpp", 'findAndReplace(result, "{column}", std::to_string(callStack.back().column));', 'findAndReplace(result, "{column}", std::to_string(callStack.back().column + 1));',
                                      "toString prints column + 1"),
    "M5-sarif-warning-level": ("lib/sarifreport.cpp", "    case Severity::error:\n    case Severity::warning:\n        return \"error\";", "    case Severity::error:\n        return \"error\";\n    case Severity::warning:\n        return \"warning\";",
                               "sarifSeverity maps warning to \"warning\""),
    "M6-sarif-keep-unlocated-rule": ("lib/sarifreport.cpp", "        if (ruleIds.insert(finding.id).second) {", "        if (true) {", "serializeRules no longer deduplicates rule ids"),
    "M7-toxml-apos": ("lib/errorlogger.cpp", "            xml += \"&apos;\";", "            xml += \"'\";", "ErrorLogger::toxml leaves the apostrophe"),
}

def build(name):
    f, old, new, what = MUT[name]
    d = "/tmp/c26-mut/" + name
    os.makedirs(d, exist_ok=True)
    src = open(os.path.join(REPO, f)).read()
    assert src.count(old) == 1, "mutation site of %s not found exactly once" % name
    mp = os.path.join(d, os.path.basename(f))
    open(mp, "w").write(src.replace(old, new))
    obj = os.path.join(d, "mut.o")
    flags = ["-std=c++11", "-w", "-pipe", "-D" + build_repo.GUARD, "-DHAVE_BOOST", "-DHAVE_EXECINFO_H=1", "-DNDEBUG", "-O1"] + ["-I%s/%s" % (REPO, x) for x in build_repo.INC_LIB]
    subprocess.run(["g++"] + flags + ["-c", mp, "-o", obj], check=True)
    base = "lib_" + os.path.basename(f)[:-4] + ".o"
    objs = [o for o in build_repo.lib_objs("o1") if os.path.basename(o) != base] + [obj]
    exe = os.path.join(d, "harness")
    subprocess.run(["g++"] + build_repo.harness_cxxflags("o1") + ["-I" + os.path.join(build_repo.VERIF, "harness"), os.path.join(build_repo.VERIF, "harness", "c26.cpp"), "-o", exe] + objs + ["-lpthread"], check=True)
    return exe, what

if __name__ == "__main__":
    names = sys.argv[1:] or sorted(MUT)
    for n in names:
        exe, what = build(n)
        r = subprocess.run(["./check.py", "C26"], cwd=build_repo.VERIF, env=dict(os.environ, VERIF_C26_HARNESS=exe), stdout=subprocess.PIPE, stderr=subprocess.STDOUT, text=True)
        lines = [l for l in r.stdout.split("\n") if l.startswith("VIOLATION") or l.startswith("  undischarged") or l.startswith("C26 tier")]
        print("==", n, "(" + what + ") exit", r.returncode)
        for l in lines[:6]:
            print("   ", l[:260])
    shutil.rmtree("/tmp/c26-mut", ignore_errors=True)

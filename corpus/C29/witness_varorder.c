struct S { int a; int b; char *name; };
static int helper(int first, int second, struct S *s)
{
    int local1 = first + second;
    int local2 = s->a;
    char buf[10];
    buf[0] = (char)local1;
    return local2 + buf[0];
}
int entry(int argc, char **argv)
{
    struct S s = { 1, 2, 0 };
    int i;
    int sum = 0;
    for (i = 0; i < argc; i++) {
        int inner = helper(i, argc, &s);
        sum += inner;
    }
    return sum + (argv != 0);
}

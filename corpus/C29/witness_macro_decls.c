/* several entities that share file / line / column because one macro expansion declares or uses them */
struct node { struct node *next; int val; int flags; };
struct pool { struct node *head; int count; };

struct node *find_node(int key);
struct pool *node_pool(const struct node *n);
int consume(int v);

#define LOOKUP(n, pl, key) struct node *n = find_node(key); struct pool *pl = node_pool(n);
#define LOOKUP3(a, b, c, key) struct node *a = find_node(key); struct node *b = find_node(key + 1); struct pool *c = node_pool(a);
#define SUM2(x, y) ((x)->val + (y)->val)
#define BOTH(p, q) do { int *p = 0; int *q = 0; consume(*p); consume(*q); } while (0)
#define TWO_UNINIT(u, v) int u; int v; consume(u + v);

int node_value(int key)
{
    LOOKUP(n, pl, key)
    return n->val + pl->count;
}

int node_flags(int key)
{
    LOOKUP(nd, po, key)
    if (nd->flags < 0)
        return -1;
    return po->count;
}

int three(int key)
{
    LOOKUP3(x, y, z, key)
    return SUM2(x, y) + z->count;
}

int params(struct node *first, struct node *second, struct pool *third)
{
    return SUM2(first, second) + third->count;
}

void null_twice(void)
{
    BOTH(pa, pb);
}

void uninit_twice(void)
{
    TWO_UNINIT(ua, ub)
}

#include <vector>
#include <string>
#include <map>
#include <list>
int use_containers(int n)
{
    std::vector<int> v(n);
    std::string s("abc");
    std::map<int, int> m;
    std::list<int> l;
    m[n] = n;
    l.push_back(n);
    return v.size() + s.size() + m.size() + l.size();
}

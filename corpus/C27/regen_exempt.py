"""maintenance helper: regenerate corpus/C27/exempt.json from the current table, the witnesses and exempt_reasons.json
(run by hand after a deliberate change of the exclusion list; the check itself only READS exempt.json)"""
import sys, json, os, fnmatch
sys.path.insert(0,'/verif')
from vlib import core
from vlib.props import c27
table, flags, syms, problems, info = c27.build_table()
ws = json.load(open('/verif/corpus/C27/witnesses.json'))['witnesses']
REASONS = json.load(open('/verif/corpus/C27/exempt_reasons.json')) if os.path.exists('/verif/corpus/C27/exempt_reasons.json') else {}
def match(pats, fid):
    return any(p == fid or (p.endswith('*') and fid.startswith(p[:-1])) for p in pats)
p='/verif/corpus/C27/exempt.json'
ent=[]; seen=set()
for r in table:
    for what, ok in (('gate', r['gate_ok']), ('inc', r['inc_ok'])):
        if ok or (r['key'],what) in seen: continue
        seen.add((r['key'],what))
        kind = 'severity' if what=='gate' else 'inconclusive'
        sev = r['ls'][1] if r['ls'][0]=='c' else None
        wx = [x for x in ws if x.get('exact_only') and x['exact_key'].endswith(':'+kind) and match(r['site'][3], x['exact_key'].split(':')[0]) and x['finding'][1]==sev]
        w = [x for x in ws if x.get('key') and x['key'].endswith(':'+kind) and match(r['site'][3], x['key'].split(':')[0]) and (what=='inc' or x['finding'][1]==sev) and (what=='gate' or x['finding'][2])]
        if what=='gate' and r['cert']=='inconclusive':
            w = [x for x in w if x['finding'][2]] or w
        e = dict(key=r['key'], what=what)
        if w:
            e['class']='finding'; e['reason']='demonstrated on the built binary'; e['witness']=[x['name'] for x in w]
        elif wx and what=='gate' and r['gate_ok_cli']:
            e['class']='finding-with-disable'; e['witness']=[x['name'] for x in wx]
            fn = r['site'][2]
            e['reason']=REASONS.get(fn) or 'demonstrated with --disable'
        else:
            e['class']='unresolved'
            fn = r['site'][2]
            e['reason']=REASONS.get(r['key']+'/'+what) or REASONS.get(fn+'/'+what) or REASONS.get(fn) or 'TODO'
        e['cli_closed_ok'] = bool(r['gate_ok_cli']) if what=='gate' else None
        ent.append(e)
json.dump(dict(entries=ent), open(p,'w'), indent=1)
print(len(ent), 'entries;', sum(1 for e in ent if e['class']=='finding'),'findings;', sum(1 for e in ent if e['reason']=='TODO'), 'TODO')
for e in ent:
    if e['reason']=='TODO': print(e['key'], e['what'], e['cli_closed_ok'])

import Cppcheck.Model.CacheCrash
import Cppcheck.Proofs.XmlWf
/-
Helper lemmas for C20 / CacheCrash.
-/
namespace Cppcheck.CacheCrash
open Cppcheck.Wire Cppcheck.XmlWf

/-- every item the analysis can write is balanced XML and every cache key is a decimal string -/
def WellFormedWorld (w : World) : Prop :=
  ∀ g s, hashOk (w.hashOf g) = true ∧ ∀ it ∈ (w.analyze g s).items, balancedItem (w.hashOf g) it.bytes = true

def EntryWF (e : CacheEntry) : Prop :=
  hashOk e.hash = true ∧ ∀ it ∈ e.items, balancedItem e.hash it.bytes = true

theorem doc_def (e : CacheEntry) : e.doc = document e.hash (e.items.map (fun it => it.bytes)) := rfl

theorem load_closed (bytes : Str) (hash : Str) (h : run St.init bytes = closed hash) :
    load bytes = .ok (some (rootName, [(hashName, hash)])) := by
  rw [load_eq, h]; rfl

/-- bridge to the byte level: a (prefix of a) cache document loads with root `analyzerinfo` iff at most its final newline
is missing, and then the `hash` attribute is the one that was written -/
theorem rootOk_eq (e : CacheEntry) (hwf : EntryWF e) :
    e.rootOk = if e.doc.length ≤ e.cut + 1 then some [(hashName, e.hash)] else none := by
  have hbal : ∀ it ∈ e.items.map (fun it => it.bytes), balancedItem e.hash it = true := by
    intro b hb
    obtain ⟨it, hit, rfl⟩ := List.mem_map.mp hb
    exact hwf.2 it hit
  unfold CacheEntry.rootOk CacheEntry.bytes
  rw [doc_def]
  generalize hd : document e.hash (e.items.map (fun it => it.bytes)) = D
  by_cases hlen : D.length ≤ e.cut + 1
  · have hs := full_loaded e.hash (e.items.map (fun it => it.bytes)) hwf.1 hbal e.cut (by rw [hd]; exact hlen)
    rw [hd] at hs
    rw [load_closed _ _ hs]
    simp only [hlen, if_true]
    simp
  · have hs := prefix_not_loaded e.hash (e.items.map (fun it => it.bytes)) hwf.1 hbal e.cut (by rw [hd]; omega)
    rw [hd] at hs
    simp only [hlen, if_false]
    rcases load_of_not_loaded _ hs with h | h <;> rw [h]

theorem usable_eq (e : CacheEntry) (hwf : EntryWF e) (h : Str) :
    e.usable h = (decide (e.doc.length ≤ e.cut + 1) && (e.hash == h) && !e.items.any Item.retry) := by
  unfold CacheEntry.usable
  rw [rootOk_eq e hwf]
  by_cases hlen : e.doc.length ≤ e.cut + 1
  · simp only [hlen, if_true, decide_true, Bool.true_and]
    have : attr [(hashName, e.hash)] hashName = some e.hash := by
      simp [attr, List.find?]
    rw [this]
    by_cases hh : e.hash = h
    · simp [hh]
    · have : (e.hash == h) = false := by simpa using hh
      simp [this]
  · simp [hlen]

theorem complete_wf (w : World) (hw : WellFormedWorld w) (g : Nat) (s : List Nat) :
    EntryWF (CacheEntry.complete (w.hashOf g) (w.analyze g s).items) :=
  ⟨(hw g s).1, (hw g s).2⟩

theorem complete_rootOk (w : World) (hw : WellFormedWorld w) (g : Nat) (s : List Nat) :
    (CacheEntry.complete (w.hashOf g) (w.analyze g s).items).rootOk = some [(hashName, w.hashOf g)] := by
  rw [rootOk_eq _ (complete_wf w hw g s)]
  simp [CacheEntry.complete, CacheEntry.doc]

/-! ### invariants of the build directory -/

/-- the invariants the proof needs of a build directory (relative to the current inputs) -/
structure DirOK (w : World) (files : List Nat) (d : Dir) : Prop where
  wf : ∀ f e, d.cache f = some e → EntryWF e
  /-- a cache file whose key matches the current hash of `f` records an analysis of `f` -/
  sound : ∀ f ∈ files, ∀ e, d.cache f = some e → e.hash = w.hashOf f → ∃ s, e.items = (w.analyze f s).items
  /-- files that return before `analyzeFile` have no cache file -/
  earlyFree : ∀ f ∈ files, w.early f ≠ none → d.cache f = none

/-- the analysis of the current inputs does not depend on `summaryReturn` -/
def SummInsensitive (w : World) (files : List Nat) : Prop :=
  ∀ f ∈ files, ∀ s, (w.analyze f s).items = (w.analyze f (w.loadReturn [])).items

def expectedItems (w : World) (f : Nat) : List Item := (w.analyze f (w.loadReturn [])).items

def expectedFindings (w : World) (f : Nat) : List Finding :=
  match w.early f with
  | some fs => fs
  | none => (expectedItems w f).filterMap Item.finding?

def expectedInfos (w : World) (f : Nat) : List Nat :=
  match w.early f with
  | some _ => []
  | none => (expectedItems w f).filterMap Item.info?

/-- after `f` has been processed: no cache file (early return) or a loadable one holding the expected items -/
def Good (w : World) (d : Dir) (f : Nat) : Prop :=
  (w.early f ≠ none → d.cache f = none) ∧
  (w.early f = none → ∃ e, d.cache f = some e ∧ e.rootOk.isSome = true ∧ e.items = expectedItems w f)

/-- the state after `f` was (re-)analysed -/
def analysed (w : World) (summ : List Nat) (a : Acc) (f : Nat) : Acc :=
  { findings := a.findings ++ (w.analyze f summ).items.filterMap Item.finding?
    dir := { a.dir with
      cache := fun g => if g = f then some (CacheEntry.complete (w.hashOf f) (w.analyze f summ).items) else a.dir.cache g
      summ := fun g => if g = f then some (w.analyze f summ).summary else a.dir.summ g }
    active := a.active ++ (w.analyze f summ).active }

theorem fileStep_cases (w : World) (summ : List Nat) (a : Acc) (f : Nat) :
    (∃ fs, w.early f = some fs ∧ fileStep w summ a f = { a with findings := a.findings ++ fs }) ∨
    (w.early f = none ∧ ∃ e, a.dir.cache f = some e ∧ e.usable (w.hashOf f) = true ∧
      fileStep w summ a f = { a with findings := a.findings ++ e.items.filterMap Item.finding? }) ∨
    (w.early f = none ∧ fileStep w summ a f = analysed w summ a f) := by
  unfold fileStep
  cases he : w.early f with
  | some fs => exact Or.inl ⟨fs, rfl, rfl⟩
  | none =>
    right
    cases hc : a.dir.cache f with
    | none => exact Or.inr ⟨rfl, rfl⟩
    | some e =>
      cases hu : e.usable (w.hashOf f) with
      | true => exact Or.inl ⟨rfl, e, rfl, hu, by simp [hu]⟩
      | false => exact Or.inr ⟨rfl, by simp [hu]; rfl⟩

theorem analysed_ok (w : World) (hw : WellFormedWorld w) (files : List Nat) (summ : List Nat) (a : Acc) (f : Nat)
    (he : w.early f = none) (ok : DirOK w files a.dir) : DirOK w files (analysed w summ a f).dir := by
  refine ⟨?_, ?_, ?_⟩
  · intro g e' hg
    simp only [analysed] at hg
    by_cases hgf : g = f
    · simp only [hgf, if_true, Option.some.injEq] at hg; rw [← hg]; exact complete_wf w hw f summ
    · simp only [hgf, if_false] at hg; exact ok.wf g e' hg
  · intro g hgm e' hg hh
    simp only [analysed] at hg
    by_cases hgf : g = f
    · simp only [hgf, if_true, Option.some.injEq] at hg; rw [← hg, hgf]; exact ⟨summ, rfl⟩
    · simp only [hgf, if_false] at hg; exact ok.sound g hgm e' hg hh
  · intro g hgm hge
    simp only [analysed]
    by_cases hgf : g = f
    · rw [hgf] at hge; exact absurd he hge
    · simp only [hgf, if_false]; exact ok.earlyFree g hgm hge

theorem analysed_good (w : World) (hw : WellFormedWorld w) (files : List Nat) (hs : SummInsensitive w files)
    (summ : List Nat) (a : Acc) (f : Nat) (hf : f ∈ files) (he : w.early f = none) :
    Good w (analysed w summ a f).dir f := by
  refine ⟨fun h => absurd he h, fun _ => ⟨CacheEntry.complete (w.hashOf f) (w.analyze f summ).items, ?_, ?_, ?_⟩⟩
  · simp [analysed]
  · rw [complete_rootOk w hw f summ]; rfl
  · simp only [CacheEntry.complete, expectedItems]; exact hs f hf summ

theorem fileStep_spec (w : World) (hw : WellFormedWorld w) (files : List Nat) (hs : SummInsensitive w files)
    (summ : List Nat) (a : Acc) (f : Nat) (hf : f ∈ files) (ok : DirOK w files a.dir) :
    (fileStep w summ a f).findings = a.findings ++ expectedFindings w f ∧
    DirOK w files (fileStep w summ a f).dir ∧
    Good w (fileStep w summ a f).dir f ∧
    (∀ g, Good w a.dir g → Good w (fileStep w summ a f).dir g) ∧
    (fileStep w summ a f).dir.filesTxt = a.dir.filesTxt := by
  rcases fileStep_cases w summ a f with ⟨fs, he, hst⟩ | ⟨he, e, hc, hu, hst⟩ | ⟨he, hst⟩
  · rw [hst]
    refine ⟨by simp [expectedFindings, he], ok, ⟨fun _ => ok.earlyFree f hf (by simp [he]), fun h => by simp [he] at h⟩,
      fun g hg => hg, rfl⟩
  · rw [hst]
    have hwf := ok.wf f e hc
    rw [usable_eq e hwf] at hu
    simp only [Bool.and_eq_true, decide_eq_true_eq, beq_iff_eq] at hu
    obtain ⟨s, hitems⟩ := ok.sound f hf e hc hu.1.2
    have hexp : e.items = expectedItems w f := by rw [hitems]; exact hs f hf s
    refine ⟨by simp [expectedFindings, he, hexp], ok, ⟨fun h => absurd he h, fun _ => ⟨e, hc, ?_, hexp⟩⟩, fun g hg => hg, rfl⟩
    rw [rootOk_eq e hwf]; simp [hu.1.1]
  · rw [hst]
    refine ⟨?_, analysed_ok w hw files summ a f he ok, analysed_good w hw files hs summ a f hf he, ?_, rfl⟩
    · simp only [analysed, expectedFindings, he, expectedItems, hs f hf summ]
    · intro g hg
      by_cases hgf : g = f
      · rw [hgf]; exact analysed_good w hw files hs summ a f hf he
      · unfold Good analysed; simp only [hgf, if_false]; exact hg

theorem foldl_spec (w : World) (hw : WellFormedWorld w) (files : List Nat) (hs : SummInsensitive w files)
    (summ : List Nat) : ∀ (l : List Nat) (a : Acc), (∀ f ∈ l, f ∈ files) → DirOK w files a.dir →
    (l.foldl (fileStep w summ) a).findings = a.findings ++ l.flatMap (expectedFindings w) ∧
    DirOK w files (l.foldl (fileStep w summ) a).dir ∧
    (∀ g, (g ∈ l ∨ Good w a.dir g) → Good w (l.foldl (fileStep w summ) a).dir g) ∧
    (l.foldl (fileStep w summ) a).dir.filesTxt = a.dir.filesTxt := by
  intro l
  induction l with
  | nil => intro a _ ok; exact ⟨by simp, ok, fun g hg => hg.resolve_left (by simp), rfl⟩
  | cons f r ih =>
    intro a hl ok
    obtain ⟨h1, h2, h3, h4, h5⟩ := fileStep_spec w hw files hs summ a f (hl f (by simp)) ok
    obtain ⟨i1, i2, i3, i4⟩ := ih (fileStep w summ a f) (fun g hg => hl g (by simp [hg])) h2
    simp only [List.foldl_cons]
    refine ⟨by rw [i1, h1]; simp, i2, ?_, by rw [i4, h5]⟩
    intro g hg
    apply i3
    rcases hg with hg | hg
    · rcases List.mem_cons.mp hg with rfl | hg
      · exact Or.inr h3
      · exact Or.inl hg
    · exact Or.inr (h4 g hg)

theorem collectInfos_good (w : World) (d : Dir) : ∀ (l : List Nat), (∀ f ∈ l, Good w d f) →
    collectInfos d l = some (l.flatMap (expectedInfos w))
  | [], _ => rfl
  | f :: r, h => by
    have ih := collectInfos_good w d r (fun g hg => h g (by simp [hg]))
    have hg := h f (by simp)
    unfold collectInfos
    cases he : w.early f with
    | some fs =>
      have := hg.1 (by simp [he])
      simp [this, ih, expectedInfos, he]
    | none =>
      obtain ⟨e, hc, hr, hi⟩ := hg.2 he
      simp only [hc]
      cases hro : e.rootOk with
      | none => rw [hro] at hr; cases hr
      | some as => simp [ih, expectedInfos, he, hi]

/-- the findings of a complete run on ANY build directory satisfying the invariants are those of the closed form -/
theorem completeRun_findings (w : World) (o : Opts) (files : List Nat) (d : Dir) (hw : WellFormedWorld w)
    (hs : SummInsensitive w files) (ho : o.reportCheckers = false) (ok : DirOK w files d) :
    (completeRun w o files d).1 = files.flatMap (expectedFindings w) ++ w.wp (files.flatMap (expectedInfos w)) ∧
    DirOK w files (completeRun w o files d).2 := by
  have ok0 : DirOK w files ({ d with filesTxt := files } : Dir) := ⟨ok.wf, ok.sound, ok.earlyFree⟩
  obtain ⟨h1, h2, h3, _⟩ := foldl_spec w hw files hs (summaryOf w d) files ⟨[], { d with filesTxt := files }, []⟩
    (fun f hf => hf) ok0
  have hci := collectInfos_good w _ files (fun f hf => h3 f (Or.inl hf))
  constructor
  · simp only [completeRun, ho, Bool.false_eq_true, if_false, List.append_nil, wholeProgram, hci, h1, List.nil_append]
  · exact ⟨h2.wf, h2.sound, h2.earlyFree⟩

theorem noBuildDirRun_eq (w : World) (o : Opts) (files : List Nat) (ho : o.reportCheckers = false) :
    noBuildDirRun w o files = files.flatMap (expectedFindings w) ++ w.wp (files.flatMap (expectedInfos w)) := by
  simp only [noBuildDirRun, ho, Bool.false_eq_true, if_false, List.append_nil]
  rfl

/-- `fileStep` is the action `fileAction` names -/
theorem fileStep_action (w : World) (summ : List Nat) (a : Acc) (f : Nat) :
    (fileAction w a.dir f = .early ∧ ∃ fs, w.early f = some fs ∧ fileStep w summ a f = { a with findings := a.findings ++ fs }) ∨
    (fileAction w a.dir f = .replay ∧ ∃ e, a.dir.cache f = some e ∧ e.usable (w.hashOf f) = true ∧
      fileStep w summ a f = { a with findings := a.findings ++ e.items.filterMap Item.finding? }) ∨
    (fileAction w a.dir f = .analyse ∧ fileStep w summ a f = analysed w summ a f) := by
  unfold fileStep fileAction
  cases he : w.early f with
  | some fs => exact Or.inl ⟨rfl, fs, rfl, rfl⟩
  | none =>
    right
    cases hc : a.dir.cache f with
    | none => exact Or.inr ⟨rfl, rfl⟩
    | some e =>
      cases hu : e.usable (w.hashOf f) with
      | true => exact Or.inl ⟨by simp [hu], e, rfl, hu, by simp [hu]⟩
      | false => exact Or.inr ⟨by simp [hu], by simp [hu]; rfl⟩

theorem dirOK_empty (w : World) (files : List Nat) : DirOK w files Dir.empty :=
  ⟨fun f e h => by simp [Dir.empty] at h, fun f _ e h => by simp [Dir.empty] at h, fun f _ _ => rfl⟩

theorem min_cut_wf (e : CacheEntry) (n : Nat) (h : EntryWF e) : EntryWF { e with cut := min n e.cut } := h

/-- a kill leaves a build directory that still satisfies the invariants -/
theorem dirOK_crash (w : World) (hw : WellFormedWorld w) (files : List Nat) (d : Dir) (c : Crash) (ok : DirOK w files d) :
    DirOK w files (crashDir w files d c) := by
  refine ⟨?_, ?_, ?_⟩
  · intro f e h
    simp only [crashDir] at h
    split at h
    · split at h
      · exact ok.wf f e h
      · simp only [Option.some.injEq] at h; rw [← h]; exact complete_wf w hw f _
      · rename_i n _
        cases hc : d.cache f with
        | none => simp [hc] at h
        | some e0 =>
          simp only [hc, Option.map_some, Option.some.injEq] at h
          rw [← h]; exact ok.wf f e0 hc
    · exact ok.wf f e h
  · intro f hf e h hh
    simp only [crashDir] at h
    split at h
    · split at h
      · exact ok.sound f hf e h hh
      · simp only [Option.some.injEq] at h; rw [← h]; exact ⟨_, rfl⟩
      · cases hc : d.cache f with
        | none => simp [hc] at h
        | some e0 =>
          simp only [hc, Option.map_some, Option.some.injEq] at h
          rw [← h] at hh ⊢
          exact ok.sound f hf e0 hc hh
    · exact ok.sound f hf e h hh
  · intro f hf he
    simp only [crashDir]
    have : ¬ (f ∈ files ∧ w.early f = none) := fun h => he h.2
    simp only [this, if_false]
    exact ok.earlyFree f hf he

/-- build directories that any history of interrupted and complete runs on these inputs can leave -/
inductive Reachable (w : World) (o : Opts) (files : List Nat) : Dir → Prop where
  | empty : Reachable w o files Dir.empty
  | crash (d : Dir) (c : Crash) : Reachable w o files d → Reachable w o files (crashDir w files d c)
  | complete (d : Dir) : Reachable w o files d → Reachable w o files (completeRun w o files d).2

theorem dirOK_reachable (w : World) (o : Opts) (files : List Nat) (hw : WellFormedWorld w)
    (hs : SummInsensitive w files) (ho : o.reportCheckers = false) (d : Dir) (h : Reachable w o files d) :
    DirOK w files d := by
  induction h with
  | empty => exact dirOK_empty w files
  | crash d c _ ih => exact dirOK_crash w hw files d c ih
  | complete d _ ih => exact (completeRun_findings w o files d hw hs ho ih).2

end Cppcheck.CacheCrash

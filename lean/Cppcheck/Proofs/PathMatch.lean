import Cppcheck.Model.PathMatch
import Cppcheck.Proofs.PathCanon
/-
C31 — helper lemmas for `PathMatch::match`: the backtracking loop (stack machine) computes the recursive search `mC`
within `costC` iterations; `mC` accepts exactly the documented glob relation read backwards.
-/
namespace Cppcheck.PathMatch
open Cppcheck.Wire Cppcheck.PathCanon

def stackAny (fx real : Bool) (b : Stack) : Bool := b.any (fun st => mC fx real st.1 st.2)
def stackCost (fx : Bool) (b : Stack) : Nat := (b.map (fun st => costC fx st.1 st.2)).sum
def restAny (fx real : Bool) (p q : Str) : Bool := (afterSeps q).any (mC fx real p)
def restCost (fx : Bool) (p q : Str) : Nat := ((afterSeps q).map (costC fx p)).sum

theorem starScan_spec (fx real slash : Bool) (s2 : Str) : ∀ (t : Str) (b : Stack),
    (mC fx real s2 (starScan fx slash s2 t b).1 || stackAny fx real (starScan fx slash s2 t b).2)
      = (scanC fx (mC fx real s2) slash (hd s2) t || stackAny fx real b) ∧
    costC fx s2 (starScan fx slash s2 t b).1 + stackCost fx (starScan fx slash s2 t b).2
      = scanCost fx (costC fx s2) slash (hd s2) t + stackCost fx b := by
  intro t
  induction t with
  | nil => intro b; simp [starScan, scanC, scanCost]
  | cons c t ih =>
    intro b
    simp only [starScan, scanC, scanCost]
    by_cases hc : (c != NUL && (slash || c != '/')) = true
    · simp only [hc, if_true]
      by_cases hh : pushOk fx (hd s2) c = true
      · simp only [hh, if_true, Bool.true_and]
        have := ih ((s2, c :: t) :: b)
        constructor
        · rw [this.1]; simp [stackAny, Bool.or_assoc, Bool.or_comm, Bool.or_left_comm]
        · rw [this.2]; simp [stackCost]; omega
      · simp only [hh, Bool.false_and, Bool.false_or]
        have := ih b
        simp only [Bool.false_eq_true, if_false, Nat.zero_add]
        exact this
    · simp only [hc]
      simp

/-- unfolding of `mC` at a star, in the shape the loop computes `slash` and `s2` -/
theorem mC_star (fx real : Bool) (s1 t : Str) :
    mC fx real ('*' :: s1) t =
      scanC fx (mC fx real (if hd s1 == '*' then s1.tail else s1)) (hd s1 == '*') (hd (if hd s1 == '*' then s1.tail else s1)) t := by
  cases s1 with
  | nil => simp [mC, hd, NUL]
  | cons c2 s2 =>
    by_cases h : c2 = '*'
    · subst h; simp [mC, hd]
    · have h' : (c2 == '*') = false := by simp [h]
      simp [mC, hd, h, h']

theorem costC_star (fx : Bool) (s1 t : Str) :
    costC fx ('*' :: s1) t =
      1 + scanCost fx (costC fx (if hd s1 == '*' then s1.tail else s1)) (hd s1 == '*') (hd (if hd s1 == '*' then s1.tail else s1)) t := by
  cases s1 with
  | nil => simp [costC, hd, NUL]
  | cons c2 s2 =>
    by_cases h : c2 = '*'
    · subst h; simp [costC, hd]
    · have h' : (c2 == '*') = false := by simp [h]
      simp [costC, hd, h, h']

theorem afterSeps_skipToSep (q : Str) (hq : NUL ∉ q) : afterSeps (skipToSep q) = afterSeps q := by
  induction q with
  | nil => rfl
  | cons c q ih =>
    have hc : c ≠ NUL := fun e => hq (by simp [e])
    have hq' : NUL ∉ q := fun e => hq (by simp [e])
    by_cases hs : c = '/'
    · subst hs; simp [skipToSep]
    · simp [skipToSep, hc, hs, afterSeps, ih hq']

theorem skipToSep_cases (q : Str) (hq : NUL ∉ q) :
    skipToSep q = [] ∨ ∃ q2, skipToSep q = '/' :: q2 := by
  induction q with
  | nil => left; rfl
  | cons c q ih =>
    have hc : c ≠ NUL := fun e => hq (by simp [e])
    have hq' : NUL ∉ q := fun e => hq (by simp [e])
    by_cases hs : c = '/'
    · subst hs; right; exact ⟨q, by simp [skipToSep]⟩
    · have hcond : (c != NUL && c != '/') = true := by simp [hc, hs]
      simp only [skipToSep, hcond, if_true]
      exact ih hq'

theorem skipToSep_suffix (q : Str) : ∃ pre, q = pre ++ skipToSep q := by
  induction q with
  | nil => exact ⟨[], rfl⟩
  | cons c q ih =>
    simp only [skipToSep]
    split
    · obtain ⟨pre, h⟩ := ih; exact ⟨c :: pre, by simp [← h]⟩
    · exact ⟨[], rfl⟩

theorem nul_not_mem_skipToSep (q : Str) (hq : NUL ∉ q) : NUL ∉ skipToSep q := by
  obtain ⟨pre, h⟩ := skipToSep_suffix q
  intro hm; apply hq; rw [h]; simp [hm]

theorem costC_pos (fx : Bool) (s t : Str) : 1 ≤ costC fx s t := by
  cases s with
  | nil => simp [costC]
  | cons c s' =>
    unfold costC
    split
    · split
      · omega
      · split <;> omega
    · split
      · split
        · omega
        · split <;> omega
      · split
        · omega
        · split
          · omega
          · split <;> omega

theorem mC_qm (fx real : Bool) (s' t : Str) :
    mC fx real ('?' :: s') t = (hd t != NUL && hd t != '/' && mC fx real s' t.tail) := by
  conv => lhs; unfold mC
  cases t <;> simp [hd, NUL]

theorem costC_qm (fx : Bool) (s' t : Str) :
    costC fx ('?' :: s') t = if (hd t != NUL && hd t != '/') = true then 1 + costC fx s' t.tail else 1 := by
  conv => lhs; unfold costC
  cases t <;> simp [hd, NUL]

theorem mC_nulc (fx real : Bool) (s' t : Str) :
    mC fx real (NUL :: s') t = (hd t == NUL || (hd t == '/' && !real)) := by
  conv => lhs; unfold mC
  simp [NUL]

theorem costC_nulc (fx : Bool) (s' t : Str) : costC fx (NUL :: s') t = 1 := by
  conv => lhs; unfold costC
  simp [NUL]

theorem mC_lit (fx real : Bool) (c : Char) (s' t : Str) (h1 : c ≠ '*') (h2 : c ≠ '?') (h3 : c ≠ NUL) :
    mC fx real (c :: s') t = (c == hd t && mC fx real s' t.tail) := by
  conv => lhs; unfold mC
  cases t with
  | nil => simp [h1, h2, h3, hd]
  | cons d t' => simp [h1, h2, h3, hd]

theorem costC_lit (fx : Bool) (c : Char) (s' t : Str) (h1 : c ≠ '*') (h2 : c ≠ '?') (h3 : c ≠ NUL) :
    costC fx (c :: s') t = if (c == hd t) = true then 1 + costC fx s' t.tail else 1 := by
  conv => lhs; unfold costC
  cases t with
  | nil => simp [h1, h2, h3, hd]
  | cons d t' => simp [h1, h2, h3, hd]

/-- the "no match" continuation of the loop body -/
def failK (fx : Bool) (fuel : Nat) (real : Bool) (p q : Str) (b : Stack) : Option Bool :=
  match b with
  | (s', t') :: b' => matchLoopF fx fuel real p s' t' q b'
  | [] =>
    let q1 := skipToSep q
    if hd q1 == '/' then matchLoopF fx fuel real p p q1.tail q1.tail [] else some false

theorem failK_eq (fx real : Bool) (p : Str) (fuel : Nat)
    (ih : ∀ s t q b, NUL ∉ q → costC fx s t + stackCost fx b + restCost fx p q ≤ fuel →
      matchLoopF fx fuel real p s t q b = some (mC fx real s t || stackAny fx real b || restAny fx real p q))
    (q : Str) (b : Stack) (hq : NUL ∉ q) (hf : stackCost fx b + restCost fx p q ≤ fuel) :
    failK fx fuel real p q b = some (stackAny fx real b || restAny fx real p q) := by
  cases b with
  | cons st b' =>
    obtain ⟨s', t'⟩ := st
    simp only [failK]
    rw [ih s' t' q b' hq (by simp [stackCost] at hf ⊢; omega)]
    simp [stackAny]
  | nil =>
    simp only [failK]
    have hsuf := afterSeps_skipToSep q hq
    rcases skipToSep_cases q hq with h | ⟨q2, h⟩
    · rw [h] at hsuf
      simp [h, hd, NUL, stackAny, restAny, ← hsuf, afterSeps]
    · have hq2 : NUL ∉ q2 := by
        have := nul_not_mem_skipToSep q hq
        rw [h] at this
        intro hm; exact this (by simp [hm])
      rw [h] at hsuf
      simp only [afterSeps, beq_self_eq_true, if_true] at hsuf
      have hr : restCost fx p q = costC fx p q2 + restCost fx p q2 := by
        simp [restCost, ← hsuf]
      have ha : restAny fx real p q = (mC fx real p q2 || restAny fx real p q2) := by
        simp [restAny, ← hsuf]
      simp only [h, hd, List.headD_cons, beq_self_eq_true, if_true, List.tail_cons]
      rw [ih p q2 q2 [] hq2 (by simp [stackCost] at hf ⊢; omega)]
      simp [stackAny, ha]


theorem matchLoopF_succ (fx : Bool) (fuel : Nat) (real : Bool) (p s t q : Str) (b : Stack) :
    matchLoopF fx (fuel + 1) real p s t q b =
      if hd s == '*' then
        matchLoopF fx fuel real p (if hd s.tail == '*' then s.tail.tail else s.tail)
          (starScan fx (hd s.tail == '*') (if hd s.tail == '*' then s.tail.tail else s.tail) t b).1 q
          (starScan fx (hd s.tail == '*') (if hd s.tail == '*' then s.tail.tail else s.tail) t b).2
      else if hd s == '?' && (hd t != NUL && hd t != '/') then matchLoopF fx fuel real p s.tail t.tail q b
      else if hd s == NUL && (hd t == NUL || (hd t == '/' && !real)) then some true
      else if hd s != '?' && hd s != NUL && hd s == hd t then matchLoopF fx fuel real p s.tail t.tail q b
      else failK fx fuel real p q b := by
  conv => lhs; unfold matchLoopF
  simp only [failK]
  split <;> rfl

theorem matchLoopF_star (fx : Bool) (fuel : Nat) (real : Bool) (p s1 t q : Str) (b : Stack) :
    matchLoopF fx (fuel + 1) real p ('*' :: s1) t q b =
        matchLoopF fx fuel real p (if hd s1 == '*' then s1.tail else s1)
          (starScan fx (hd s1 == '*') (if hd s1 == '*' then s1.tail else s1) t b).1 q
          (starScan fx (hd s1 == '*') (if hd s1 == '*' then s1.tail else s1) t b).2 := by
  rw [matchLoopF_succ]
  rfl

theorem hd_cons (c : Char) (s : Str) : hd (c :: s) = c := rfl
theorem hd_nil : hd ([] : Str) = NUL := rfl

theorem matchLoopF_eq (fx real : Bool) (p : Str) : ∀ (fuel : Nat) (s t q : Str) (b : Stack), NUL ∉ q →
    costC fx s t + stackCost fx b + restCost fx p q ≤ fuel →
    matchLoopF fx fuel real p s t q b = some (mC fx real s t || stackAny fx real b || restAny fx real p q) := by
  intro fuel
  induction fuel with
  | zero =>
    intro s t q b _ hf
    have := costC_pos fx s t
    omega
  | succ fuel ih =>
    intro s t q b hq hf
    have hfail : ∀ (hm : mC fx real s t = false), failK fx fuel real p q b = some (mC fx real s t || stackAny fx real b || restAny fx real p q) := by
      intro hm
      rw [failK_eq fx real p fuel ih q b hq (by have := costC_pos fx s t; omega), hm]
      simp
    cases s with
    | nil =>
      rw [matchLoopF_succ]
      have h1 : (NUL == '*') = false := by decide
      have h2 : (NUL == '?') = false := by decide
      have h4 : (NUL != NUL) = false := by decide
      simp only [hd_nil, h1, h2, h4, beq_self_eq_true, Bool.false_and, Bool.true_and, Bool.and_false, Bool.false_eq_true, if_false]
      have hm : mC fx real [] t = (hd t == NUL || (hd t == '/' && !real)) := by simp [mC]
      by_cases hc : (hd t == NUL || (hd t == '/' && !real)) = true
      · simp only [hc, if_true, hm, Bool.true_or]
      · simp only [hc, Bool.false_eq_true, if_false]
        exact hfail (by rw [hm]; simpa using hc)
    | cons c s' =>
      by_cases hstar : c = '*'
      · subst hstar
        rw [matchLoopF_star]
        have hsp := starScan_spec fx real (hd s' == '*') (if hd s' == '*' then s'.tail else s') t b
        have hmc := mC_star fx real s' t
        have hcc := costC_star fx s' t
        rw [ih _ _ q _ hq (by have := hsp.2; omega), hmc, hsp.1]
      · rw [matchLoopF_succ]
        simp only [hd_cons, List.tail_cons]
        have hs1 : (c == '*') = false := by simp [hstar]
        simp only [hs1, Bool.false_eq_true, if_false]
        by_cases hq1 : c = '?'
        · subst hq1
          have hm := mC_qm fx real s' t
          have hcst := costC_qm fx s' t
          by_cases hc : (hd t != NUL && hd t != '/') = true
          · simp only [beq_self_eq_true, hc, Bool.and_self, if_true]
            rw [ih _ _ q _ hq (by rw [hcst] at hf; simp only [hc, if_true] at hf; omega), hm, hc]
            simp
          · have hne : ('?' == NUL) = false := by decide
            simp only [beq_self_eq_true, hc, Bool.and_false, Bool.false_eq_true, if_false, hne, Bool.false_and, bne_self_eq_false]
            exact hfail (by rw [hm]; simp only [Bool.not_eq_true] at hc; rw [hc]; rfl)
        · have hs2 : (c == '?') = false := by simp [hq1]
          simp only [hs2, Bool.false_and, Bool.false_eq_true, if_false]
          by_cases hn : c = NUL
          · subst hn
            have hm := mC_nulc fx real s' t
            by_cases hc : (hd t == NUL || (hd t == '/' && !real)) = true
            · simp only [beq_self_eq_true, hc, Bool.and_self, if_true, hm, Bool.true_or]
            · simp only [beq_self_eq_true, hc, Bool.and_false, Bool.false_eq_true, if_false, bne_self_eq_false, Bool.false_and]
              exact hfail (by rw [hm]; simpa using hc)
          · have hs3 : (c == NUL) = false := by simp [hn]
            have hm := mC_lit fx real c s' t hstar hq1 hn
            have hcst := costC_lit fx c s' t hstar hq1 hn
            have hb2 : (c != '?') = true := by simp [hq1]
            have hb3 : (c != NUL) = true := by simp [hn]
            simp only [hs3, Bool.false_and, Bool.false_eq_true, if_false, hb2, hb3, Bool.true_and]
            by_cases hc : (c == hd t) = true
            · simp only [hc, if_true]
              rw [ih _ _ q _ hq (by rw [hcst] at hf; simp only [hc, if_true] at hf; omega), hm, hc]
              simp
            · simp only [hc, Bool.false_eq_true, if_false]
              exact hfail (by rw [hm]; simp only [Bool.not_eq_true] at hc; rw [hc]; rfl)


/-- the loop terminates within `matchFuel` iterations and computes the recursive search from every restart position -/
theorem matchStreams_eq (fx real : Bool) (s t : Str) (ht : NUL ∉ t) :
    matchStreams fx real s t = some (mC fx real s t || restAny fx real s t) := by
  unfold matchStreams
  rw [matchLoopF_eq fx real s (matchFuel fx s t) s t t [] ht (by simp [matchFuel, stackCost, restCost])]
  simp [stackAny]

/-- the loop's test at the end of the pattern -/
def endOk (real : Bool) (t2 : Str) : Prop := t2 = [] ∨ (t2.head? = some '/' ∧ real = false)

theorem hd_eq_nul_iff (t : Str) (ht : NUL ∉ t) : hd t = NUL ↔ t = [] := by
  cases t with
  | nil => simp [hd]
  | cons c r =>
    simp only [hd, List.headD_cons, reduceCtorEq, iff_false]
    intro h; exact ht (by simp [h])

theorem mC_nil_iff (fx real : Bool) (t : Str) (ht : NUL ∉ t) : mC fx real [] t = true ↔ endOk real t := by
  cases t with
  | nil => simp [mC, hd, endOk]
  | cons c r =>
    have hc : c ≠ NUL := fun h => ht (by simp [h])
    simp [mC, hd, endOk, hc]

def scannable (slash : Bool) (u : Str) : Prop := ∀ c ∈ u, c ≠ NUL ∧ (slash = true ∨ c ≠ '/')

theorem scanC_sound (fx : Bool) (k : Str → Bool) (slash : Bool) (h : Char) : ∀ t : Str,
    scanC fx k slash h t = true → ∃ u v, t = u ++ v ∧ scannable slash u ∧ k v = true := by
  intro t
  induction t with
  | nil => intro hk; exact ⟨[], [], rfl, by simp [scannable], by simpa [scanC] using hk⟩
  | cons c t ih =>
    intro hk
    simp only [scanC] at hk
    by_cases hc : (c != NUL && (slash || c != '/')) = true
    · simp only [hc, if_true, Bool.or_eq_true, Bool.and_eq_true] at hk
      rcases hk with ⟨_, hk⟩ | hk
      · exact ⟨[], c :: t, rfl, by simp [scannable], hk⟩
      · obtain ⟨u, v, e, hs, hv⟩ := ih hk
        refine ⟨c :: u, v, by simp [e], ?_, hv⟩
        intro d hd'
        simp only [List.mem_cons] at hd'
        rcases hd' with rfl | hd'
        · simp only [Bool.and_eq_true, bne_iff_ne, ne_eq, Bool.or_eq_true] at hc
          exact ⟨hc.1, hc.2⟩
        · exact hs d hd'
    · simp only [hc, Bool.false_eq_true, if_false] at hk
      exact ⟨[], c :: t, rfl, by simp [scannable], hk⟩

theorem scanC_complete (fx : Bool) (k : Str → Bool) (slash : Bool) (h : Char) : ∀ (u v : Str),
    scannable slash u → k v = true →
    (v = [] ∨ hd v = NUL ∨ (slash = false ∧ hd v = '/') ∨ pushOk fx h (hd v) = true) →
    scanC fx k slash h (u ++ v) = true := by
  intro u
  induction u with
  | nil =>
    intro v _ hk hcond
    cases v with
    | nil => simpa [scanC] using hk
    | cons c v' =>
      simp only [List.nil_append, scanC]
      by_cases hc : (c != NUL && (slash || c != '/')) = true
      · simp only [hc, if_true, hk, Bool.and_true, Bool.or_eq_true]
        left
        simp only [Bool.and_eq_true, bne_iff_ne, ne_eq, Bool.or_eq_true] at hc
        rcases hcond with h0 | h0 | h0 | h0
        · cases h0
        · exact absurd h0 hc.1
        · rcases hc.2 with h2 | h2
          · rw [h0.1] at h2; cases h2
          · exact absurd h0.2 h2
        · exact h0
      · simp only [hc, Bool.false_eq_true, if_false, hk]
  | cons c u ih =>
    intro v hs hk hcond
    have hc : (c != NUL && (slash || c != '/')) = true := by
      have := hs c (by simp)
      simp only [Bool.and_eq_true, bne_iff_ne, ne_eq, Bool.or_eq_true]
      exact this
    simp only [List.cons_append, scanC, hc, if_true, Bool.or_eq_true]
    right
    exact ih v (fun d hd' => hs d (by simp [hd'])) hk hcond


theorem not_mem_tail {a : Char} {l : Str} (h : a ∉ l) : a ∉ l.tail := fun hm => h (List.mem_of_mem_tail hm)

theorem scannable_no_slash {u : Str} (h : scannable false u) : '/' ∉ u := by
  intro hm
  rcases (h '/' hm).2 with h2 | h2
  · cases h2
  · exact h2 rfl

/-- soundness: whatever the search accepts is matched by the glob relation (any variant of the code) -/
theorem mC_sound (fx real : Bool) : ∀ (n : Nat) (s t : Str), s.length ≤ n → NUL ∉ s → NUL ∉ t →
    mC fx real s t = true → ∃ t1 t2, t = t1 ++ t2 ∧ Glob s t1 ∧ endOk real t2 := by
  intro n
  induction n with
  | zero =>
    intro s t hl _ ht hm
    have : s = [] := List.eq_nil_of_length_eq_zero (by omega)
    subst this
    exact ⟨[], t, rfl, .nil, (mC_nil_iff fx real t ht).1 hm⟩
  | succ n ih =>
    intro s t hl hs ht hm
    cases s with
    | nil => exact ⟨[], t, rfl, .nil, (mC_nil_iff fx real t ht).1 hm⟩
    | cons c s' =>
      have hc0 : c ≠ NUL := fun h => hs (by simp [h])
      have hs' : NUL ∉ s' := fun h => hs (by simp [h])
      simp only [List.length_cons] at hl
      by_cases hstar : c = '*'
      · subst hstar
        rw [mC_star] at hm
        obtain ⟨u, v, e, hu, hv⟩ := scanC_sound fx _ _ _ t hm
        have hvn : NUL ∉ v := fun h => ht (by simp [e, h])
        by_cases h2 : (hd s' == '*') = true
        · simp only [h2, if_true] at hv
          cases s' with
          | nil => simp [hd, NUL] at h2
          | cons c2 s2 =>
            have : c2 = '*' := by simpa [hd] using h2
            subst this
            simp only [List.tail_cons] at hv
            obtain ⟨v1, v2, ev, hg, he⟩ := ih s2 v (by simp at hl; omega) (fun h => hs' (by simp [h])) hvn hv
            exact ⟨u ++ v1, v2, by simp [e, ev], .sstar u hg, he⟩
        · simp only [h2, Bool.false_eq_true, if_false] at hv hu
          obtain ⟨v1, v2, ev, hg, he⟩ := ih s' v (by omega) hs' hvn hv
          exact ⟨u ++ v1, v2, by simp [e, ev], .star u (scannable_no_slash hu) hg, he⟩
      · by_cases hq : c = '?'
        · subst hq
          rw [mC_qm] at hm
          simp only [Bool.and_eq_true, bne_iff_ne, ne_eq] at hm
          cases t with
          | nil => exact absurd rfl hm.1.1
          | cons d t' =>
            obtain ⟨v1, v2, ev, hg, he⟩ := ih s' t' (by omega) hs' (fun h => ht (by simp [h])) hm.2
            exact ⟨d :: v1, v2, by simp [ev], .any1 (by simpa [hd] using hm.1.2) hg, he⟩
        · rw [mC_lit fx real c s' t hstar hq hc0] at hm
          simp only [Bool.and_eq_true, beq_iff_eq] at hm
          cases t with
          | nil => exact absurd hm.1 hc0
          | cons d t' =>
            have : c = d := by simpa [hd] using hm.1
            subst this
            obtain ⟨v1, v2, ev, hg, he⟩ := ih s' t' (by omega) hs' (fun h => ht (by simp [h])) hm.2
            exact ⟨c :: v1, v2, by simp [ev], .lit hstar hq hg, he⟩


/-- the pattern positions at which the unrepaired loop loses backtrack positions are excluded -/
def SO (fx : Bool) (s : Str) : Prop := fx = true ∨ starOkR s = true

theorem SO_tail {fx : Bool} {c : Char} {s : Str} (hc : c ≠ '*') (h : SO fx (c :: s)) : SO fx s := by
  rcases h with h | h
  · exact Or.inl h
  · right
    have hb : (c == '*') = false := by simp [hc]
    simp only [starOkR, hb, Bool.false_eq_true, if_false, Bool.true_and] at h
    exact h

theorem pushOk_of_mC (fx real : Bool) (c : Char) (s3 v : Str) (hn : c ≠ NUL)
    (hso : fx = true ∨ (c ≠ '?' ∧ c ≠ '*')) (hm : mC fx real (c :: s3) v = true) :
    pushOk fx c (hd v) = true := by
  by_cases h1 : c = '*'
  · rcases hso with h | h
    · subst h1; simp [pushOk, h]
    · exact absurd h1 h.2
  · by_cases h2 : c = '?'
    · rcases hso with h | h
      · subst h2; simp [pushOk, h]
      · exact absurd h2 h.1
    · rw [mC_lit fx real c s3 v h1 h2 hn] at hm
      simp only [Bool.and_eq_true] at hm
      simp [pushOk, hm.1]

/-- the condition under which `scanC` explores the candidate `v` when the rest of the pattern is `s2` -/
theorem cand_ok (fx real slash : Bool) (s2 v : Str) (hs2 : NUL ∉ s2) (hne : s2 ≠ [])
    (hso : fx = true ∨ (hd s2 ≠ '?' ∧ hd s2 ≠ '*')) (hm : mC fx real s2 v = true) :
    v = [] ∨ hd v = NUL ∨ (slash = false ∧ hd v = '/') ∨ pushOk fx (hd s2) (hd v) = true := by
  cases s2 with
  | nil => exact absurd rfl hne
  | cons c s3 =>
    right; right; right
    exact pushOk_of_mC fx real c s3 v (fun h => hs2 (by simp [h])) hso hm

/-- a star (single: `slash = false`, double: `slash = true`) in front of `s2` accepts `u ++ w ++ t2` -/
theorem star_complete (fx real slash : Bool) (s2 u w t2 : Str) (hs2 : NUL ∉ s2)
    (hu : scannable slash u) (hwn : NUL ∉ w) (ht2 : NUL ∉ t2)
    (hso : fx = true ∨ (hd s2 ≠ '?' ∧ hd s2 ≠ '*'))
    (hw : s2 = [] → w = []) (he : endOk real t2)
    (hm : mC fx real s2 (w ++ t2) = true) :
    scanC fx (mC fx real s2) slash (hd s2) (u ++ (w ++ t2)) = true := by
  by_cases hne : s2 = []
  · subst hne
    have hw' := hw rfl
    subst hw'
    simp only [List.nil_append]
    rcases he with he | he
    · subst he
      exact scanC_complete fx _ slash _ u [] hu (by simp [mC, hd]) (Or.inl rfl)
    · cases t2 with
      | nil => simp at he
      | cons d t2' =>
        have hd' : d = '/' := by simpa using he.1
        subst hd'
        cases slash with
        | false =>
          exact scanC_complete fx _ false _ u ('/' :: t2') hu (by simpa using hm) (Or.inr (Or.inr (Or.inl ⟨rfl, rfl⟩)))
        | true =>
          have := scanC_complete fx (mC fx real []) true (hd ([] : Str)) (u ++ '/' :: t2') [] (by
            intro c hc
            simp only [List.mem_append] at hc
            rcases hc with hc | hc
            · exact ⟨(hu c hc).1, Or.inl rfl⟩
            · exact ⟨fun h => ht2 (by rw [← h]; exact hc), Or.inl rfl⟩) (by simp [mC, hd]) (Or.inl rfl)
          simpa using this
  · exact scanC_complete fx _ slash _ u (w ++ t2) hu hm (cand_ok fx real slash s2 (w ++ t2) hs2 hne hso hm)


theorem glob_nil_inv {w : Str} (h : Glob [] w) : w = [] := by cases h; rfl

theorem scannable_true_of (u : Str) (h : NUL ∉ u) : scannable true u :=
  fun c hc => ⟨fun e => h (e ▸ hc), Or.inl rfl⟩

theorem scannable_false_of (u : Str) (h : NUL ∉ u) (h2 : '/' ∉ u) : scannable false u :=
  fun c hc => ⟨fun e => h (e ▸ hc), Or.inr (fun e => h2 (e ▸ hc))⟩

/-- completeness: whatever the glob relation matches is accepted by the search — for the repaired loop (`fx`)
    always, for the loop before the repair on patterns where no star is followed by `?`/`*` -/
theorem mC_complete (fx real : Bool) : ∀ (n : Nat) (s t1 t2 : Str), s.length ≤ n → NUL ∉ s → NUL ∉ t1 → NUL ∉ t2 →
    SO fx s → Glob s t1 → endOk real t2 → mC fx real s (t1 ++ t2) = true := by
  intro n
  induction n with
  | zero =>
    intro s t1 t2 hl _ _ ht2 _ hg he
    have : s = [] := List.eq_nil_of_length_eq_zero (by omega)
    subst this
    have := glob_nil_inv hg
    subst this
    exact (mC_nil_iff fx real t2 ht2).2 he
  | succ n ih =>
    intro s t1 t2 hl hs ht1 ht2 hso hg he
    cases s with
    | nil =>
      have := glob_nil_inv hg
      subst this
      exact (mC_nil_iff fx real t2 ht2).2 he
    | cons c p =>
      have hc0 : c ≠ NUL := fun h => hs (by simp [h])
      have hp : NUL ∉ p := fun h => hs (by simp [h])
      simp only [List.length_cons] at hl
      by_cases hstar : c = '*'
      · subst hstar
        rw [mC_star]
        cases p with
        | nil =>
          -- single star at the end of the pattern
          cases hg with
          | lit h1 _ _ => exact absurd rfl h1
          | star u hu hg' =>
            have := glob_nil_inv hg'
            subst this
            have hun : NUL ∉ u := fun h => ht1 (by simp [h])
            have h2 : (hd ([] : Str) == '*') = false := by decide
            simp only [h2, Bool.false_eq_true, if_false]
            have := star_complete fx real false [] u [] t2 (by simp) (scannable_false_of u hun hu) (by simp) ht2
              (Or.inr ⟨by decide, by decide⟩) (fun _ => rfl) he (by simpa using (mC_nil_iff fx real t2 ht2).2 he)
            simpa using this
        | cons c2 p2 =>
          have hp2 : NUL ∉ p2 := fun h => hp (by simp [h])
          by_cases h2 : c2 = '*'
          · subst h2
            -- the loop reads `**`
            have hb : (hd ('*' :: p2) == '*') = true := by simp [hd]
            simp only [hb, if_true, List.tail_cons]
            have hso2 : fx = true ∨ (hd p2 ≠ '?' ∧ hd p2 ≠ '*') := by
              rcases hso with h | h
              · exact Or.inl h
              · right
                simp only [starOkR, hd, List.headD_cons, List.tail_cons, beq_self_eq_true, if_true, Bool.and_eq_true,
                  bne_iff_ne, ne_eq] at h
                exact ⟨h.1.2, h.1.1⟩
            have hsop2 : SO fx p2 := by
              rcases hso with h | h
              · exact Or.inl h
              · right
                simp only [starOkR, Bool.and_eq_true] at h
                exact h.2.2
            have key : ∀ (u w : Str), NUL ∉ u → NUL ∉ w → Glob p2 w →
                scanC fx (mC fx real p2) true (hd p2) (u ++ (w ++ t2)) = true := by
              intro u w hun hwn hgw
              exact star_complete fx real true p2 u w t2 hp2 (scannable_true_of u hun) hwn ht2 hso2
                (fun e => by subst e; exact glob_nil_inv hgw) he
                (ih p2 w t2 (by simp at hl; omega) hp2 hwn ht2 hsop2 hgw he)
            cases hg with
            | lit h1 _ _ => exact absurd rfl h1
            | sstar u hg' =>
              rename_i w
              have hun : NUL ∉ u := fun h => ht1 (by simp [h])
              have hwn : NUL ∉ w := fun h => ht1 (by simp [h])
              have := key u w hun hwn hg'
              simpa [List.append_assoc] using this
            | star u hu hg' =>
              rename_i w
              have hun : NUL ∉ u := fun h => ht1 (by simp [h])
              have hwn : NUL ∉ w := fun h => ht1 (by simp [h])
              cases hg' with
              | lit h1 _ _ => exact absurd rfl h1
              | star u' hu' hg'' =>
                rename_i w'
                have hun' : NUL ∉ u' := fun h => hwn (by simp [h])
                have hwn' : NUL ∉ w' := fun h => hwn (by simp [h])
                have := key (u ++ u') w' (by simp [hun, hun']) hwn' hg''
                simpa [List.append_assoc] using this
              | sstar u' hg'' =>
                -- a run of three stars: the rule read `*` then `**`, the loop reads `**` then `*`
                rename_i p3 w'
                have hun' : NUL ∉ u' := fun h => hwn (by simp [h])
                have hwn' : NUL ∉ w' := fun h => hwn (by simp [h])
                rcases hso with hfx | hso'
                · have hg3 : Glob ('*' :: p3) w' := by
                    have := Glob.star (p := p3) (w := w') [] (by simp) hg''
                    simpa using this
                  have := key (u ++ u') w' (by simp [hun, hun']) hwn' hg3
                  simpa [List.append_assoc] using this
                · simp [starOkR, hd] at hso'
          · -- the loop reads a single `*`
            have hb : (hd (c2 :: p2) == '*') = false := by simp [hd, h2]
            simp only [hb, Bool.false_eq_true, if_false]
            have hso2 : fx = true ∨ (hd (c2 :: p2) ≠ '?' ∧ hd (c2 :: p2) ≠ '*') := by
              rcases hso with h | h
              · exact Or.inl h
              · right
                have hb2 : (c2 == '*') = false := by simp [h2]
                rw [starOkR] at h
                simp only [hd, List.headD_cons, beq_self_eq_true, if_true, hb2, Bool.false_eq_true, if_false,
                  Bool.and_eq_true, bne_iff_ne, ne_eq] at h
                exact ⟨h.1, h2⟩
            have hsop : SO fx (c2 :: p2) := by
              rcases hso with h | h
              · exact Or.inl h
              · right
                rw [starOkR] at h
                simp only [Bool.and_eq_true] at h
                exact h.2
            cases hg with
            | lit h1 _ _ => exact absurd rfl h1
            | star u hu hg' =>
              rename_i w
              have hun : NUL ∉ u := fun h => ht1 (by simp [h])
              have hwn : NUL ∉ w := fun h => ht1 (by simp [h])
              have := star_complete fx real false (c2 :: p2) u w t2 hp (scannable_false_of u hun hu) hwn ht2 hso2
                (fun e => by cases e) he (ih (c2 :: p2) w t2 (by omega) hp hwn ht2 hsop hg' he)
              simpa [List.append_assoc] using this
            | sstar u hg' => exact absurd rfl h2
      · have hsop : SO fx p := SO_tail hstar hso
        by_cases hq : c = '?'
        · subst hq
          cases hg with
          | lit _ h2 _ => exact absurd rfl h2
          | any1 hd' hg' =>
            rename_i d w
            have hdn : d ≠ NUL := fun h => ht1 (by simp [h])
            have hwn : NUL ∉ w := fun h => ht1 (by simp [h])
            rw [mC_qm]
            simp only [List.cons_append, hd, List.headD_cons, List.tail_cons, Bool.and_eq_true, bne_iff_ne, ne_eq]
            exact ⟨⟨hdn, hd'⟩, ih p w t2 (by omega) hp hwn ht2 hsop hg' he⟩
        · cases hg with
          | lit hx1 hx2 hg' =>
            rename_i w
            have hwn : NUL ∉ w := fun h => ht1 (by simp [h])
            rw [mC_lit fx real c p _ hstar hq hc0]
            simp only [List.cons_append, hd, List.headD_cons, List.tail_cons, beq_self_eq_true, Bool.true_and]
            exact ih p w t2 (by omega) hp hwn ht2 hsop hg' he
          | any1 _ _ => exact absurd rfl hq
          | star _ _ _ => exact absurd rfl hstar
          | sstar _ _ => exact absurd rfl hstar


theorem mC_iff (fx real : Bool) (s t : Str) (hs : NUL ∉ s) (ht : NUL ∉ t) (hso : SO fx s) :
    mC fx real s t = true ↔ ∃ t1 t2, t = t1 ++ t2 ∧ Glob s t1 ∧ endOk real t2 := by
  constructor
  · exact mC_sound fx real s.length s t (Nat.le_refl _) hs ht
  · rintro ⟨t1, t2, e, hg, he⟩
    subst e
    exact mC_complete fx real s.length s t1 t2 (Nat.le_refl _) hs (fun h => ht (by simp [h])) (fun h => ht (by simp [h])) hso hg he

/-! ### reading direction -/

theorem glob_append {p1 w1 p2 w2 : Str} (h1 : Glob p1 w1) (h2 : Glob p2 w2) : Glob (p1 ++ p2) (w1 ++ w2) := by
  induction h1 with
  | nil => simpa using h2
  | lit ha hb _ ih => exact .lit ha hb ih
  | any1 ha _ ih => exact .any1 ha ih
  | star u hu _ ih => rw [List.append_assoc]; exact .star u hu ih
  | sstar u _ ih => rw [List.append_assoc]; exact .sstar u ih

theorem glob_reverse {p w : Str} (h : Glob p w) : Glob p.reverse w.reverse := by
  induction h with
  | nil => exact .nil
  | lit ha hb _ ih =>
    simp only [List.reverse_cons]
    exact glob_append ih (.lit ha hb .nil)
  | any1 ha _ ih =>
    simp only [List.reverse_cons]
    exact glob_append ih (.any1 ha .nil)
  | star u hu _ ih =>
    simp only [List.reverse_cons, List.reverse_append]
    refine glob_append ih ?_
    have := Glob.star (p := []) (w := []) u.reverse (by simpa using hu) .nil
    simpa using this
  | sstar u _ ih =>
    simp only [List.reverse_cons, List.reverse_append, List.append_assoc]
    refine glob_append ih ?_
    have := Glob.sstar (p := []) (w := []) u.reverse .nil
    simpa using this

theorem glob_reverse_iff (p w : Str) : Glob p.reverse w.reverse ↔ Glob p w := by
  constructor
  · intro h; simpa using glob_reverse h
  · exact glob_reverse

theorem mem_afterSeps (t q : Str) : q ∈ afterSeps t ↔ ∃ a, t = a ++ '/' :: q := by
  induction t with
  | nil => simp [afterSeps]
  | cons c t ih =>
    simp only [afterSeps]
    by_cases hc : c = '/'
    · subst hc
      simp only [beq_self_eq_true, if_true, List.mem_cons, ih]
      constructor
      · rintro (rfl | ⟨a, e⟩)
        · exact ⟨[], rfl⟩
        · exact ⟨'/' :: a, by simp [e]⟩
      · rintro ⟨a, e⟩
        cases a with
        | nil => left; simpa using e.symm
        | cons d a => right; exact ⟨a, by simpa using (List.cons.inj e).2⟩
    · have hb : (c == '/') = false := by simp [hc]
      simp only [hb, Bool.false_eq_true, if_false, ih]
      constructor
      · rintro ⟨a, e⟩; exact ⟨c :: a, by simp [e]⟩
      · rintro ⟨a, e⟩
        cases a with
        | nil => exact absurd (List.cons.inj e).1 hc
        | cons d a => exact ⟨a, (List.cons.inj e).2⟩

theorem endOk_reverse (real : Bool) (pre : Str) :
    endOk real pre.reverse ↔ (pre = [] ∨ (real = false ∧ pre.getLast? = some '/')) := by
  simp only [endOk, List.reverse_eq_nil_iff, List.head?_reverse]
  constructor
  · rintro (h | ⟨h1, h2⟩)
    · exact Or.inl h
    · exact Or.inr ⟨h2, h1⟩
  · rintro (h | ⟨h1, h2⟩)
    · exact Or.inl h
    · exact Or.inr ⟨h2, h1⟩

/-- the search from every restart position, on the reversed canonical strings, is the documented rule -/
theorem search_iff_spec (fx real : Bool) (P Y : Str) (hP : NUL ∉ P) (hY : NUL ∉ Y)
    (hso : SO fx P.reverse) :
    (mC fx real P.reverse Y.reverse || restAny fx real P.reverse Y.reverse) = true ↔ SpecMatch real P Y := by
  have hPr : NUL ∉ P.reverse := by simpa using hP
  have key : ∀ q : Str, NUL ∉ q → (mC fx real P.reverse q = true ↔
      ∃ pre mid, q.reverse = pre ++ mid ∧ (pre = [] ∨ (real = false ∧ pre.getLast? = some '/')) ∧ Glob P mid) := by
    intro q hq
    rw [mC_iff fx real P.reverse q hPr hq hso]
    constructor
    · rintro ⟨t1, t2, e, hg, he⟩
      refine ⟨t2.reverse, t1.reverse, by simp [e], ?_, ?_⟩
      · have := (endOk_reverse real t2.reverse).1 (by simpa using he)
        exact this
      · have := (glob_reverse_iff P t1.reverse).1 (by simpa using hg)
        exact this
    · rintro ⟨pre, mid, e, hpre, hg⟩
      refine ⟨mid.reverse, pre.reverse, ?_, (glob_reverse_iff P mid).2 hg, (endOk_reverse real pre).2 hpre⟩
      have := congrArg List.reverse e
      simpa using this
  simp only [Bool.or_eq_true, restAny, List.any_eq_true]
  constructor
  · rintro (h | ⟨q, hq, h⟩)
    · obtain ⟨pre, mid, e, hpre, hg⟩ := (key Y.reverse (by simpa using hY)).1 h
      refine ⟨pre, mid, [], ?_, Or.inl rfl, hpre, hg⟩
      simpa using e
    · obtain ⟨a, ea⟩ := (mem_afterSeps _ _).1 hq
      have hqn : NUL ∉ q := by
        intro hm
        have : NUL ∈ Y.reverse := by rw [ea]; simp [hm]
        exact hY (by simpa using this)
      obtain ⟨pre, mid, e, hpre, hg⟩ := (key q hqn).1 h
      refine ⟨pre, mid, '/' :: a.reverse, ?_, Or.inr rfl, hpre, hg⟩
      have := congrArg List.reverse ea
      simp only [List.reverse_reverse, List.reverse_append, List.reverse_cons] at this
      rw [this, e]
      simp
  · rintro ⟨pre, mid, post, e, hpost, hpre, hg⟩
    rcases hpost with hpost | hpost
    · subst hpost
      left
      refine (key Y.reverse (by simpa using hY)).2 ⟨pre, mid, ?_, hpre, hg⟩
      simpa using e
    · cases post with
      | nil => simp at hpost
      | cons d post' =>
        have hd' : d = '/' := by simpa using hpost
        subst hd'
        right
        refine ⟨(pre ++ mid).reverse, ?_, ?_⟩
        · refine (mem_afterSeps _ _).2 ⟨post'.reverse, ?_⟩
          rw [e]
          simp
        · have hqn : NUL ∉ (pre ++ mid).reverse := by
            intro hm
            apply hY
            rw [e]
            have : NUL ∈ pre ++ mid := List.mem_reverse.1 hm
            simp only [List.mem_append] at this ⊢
            exact Or.inl this
          exact (key _ hqn).2 ⟨pre, mid, by simp, hpre, hg⟩

/-! ### the executable form of the rules decides them -/

theorem starLoopB_iff (k : Str → Bool) (slash : Bool) (w : Str) :
    starLoopB k slash w = true ↔ ∃ u v, w = u ++ v ∧ (slash = true ∨ '/' ∉ u) ∧ k v = true := by
  induction w with
  | nil =>
    simp only [starLoopB]
    constructor
    · intro h; exact ⟨[], [], rfl, Or.inr (by simp), h⟩
    · rintro ⟨u, v, e, _, hk⟩
      have : v = [] := by
        have := congrArg List.length e
        simp at this
        exact List.eq_nil_of_length_eq_zero (by omega)
      subst this; exact hk
  | cons c w ih =>
    simp only [starLoopB, Bool.or_eq_true, Bool.and_eq_true, bne_iff_ne, ne_eq, ih]
    constructor
    · rintro (h | ⟨hc, u, v, e, hu, hk⟩)
      · exact ⟨[], c :: w, rfl, Or.inr (by simp), h⟩
      · refine ⟨c :: u, v, by simp [e], ?_, hk⟩
        rcases hc with hc | hc
        · exact Or.inl hc
        · rcases hu with hu | hu
          · exact Or.inl hu
          · right
            intro hm
            simp only [List.mem_cons] at hm
            rcases hm with hm | hm
            · exact hc hm.symm
            · exact hu hm
    · rintro ⟨u, v, e, hu, hk⟩
      cases u with
      | nil =>
        left
        have : c :: w = v := by simpa using e
        rw [this]; exact hk
      | cons d u =>
        have hd' : c = d := by simpa using (List.cons.inj e).1
        subst hd'
        right
        refine ⟨?_, u, v, (List.cons.inj e).2, ?_, hk⟩
        · rcases hu with hu | hu
          · exact Or.inl hu
          · right; intro h; exact hu (by simp [h])
        · rcases hu with hu | hu
          · exact Or.inl hu
          · right; intro h; exact hu (by simp [h])

theorem globB_sound : ∀ (n : Nat) (p w : Str), p.length ≤ n → globB p w = true → Glob p w := by
  intro n
  induction n with
  | zero =>
    intro p w hl h
    have : p = [] := List.eq_nil_of_length_eq_zero (by omega)
    subst this
    have : w = [] := by simpa [globB] using h
    subst this; exact .nil
  | succ n ih =>
    intro p w hl h
    cases p with
    | nil =>
      have : w = [] := by simpa [globB] using h
      subst this; exact .nil
    | cons c p' =>
      simp only [List.length_cons] at hl
      unfold globB at h
      by_cases hs : c = '*'
      · subst hs
        simp only [beq_self_eq_true, if_true, Bool.or_eq_true] at h
        rcases h with h | h
        · obtain ⟨u, v, e, hu, hk⟩ := (starLoopB_iff _ _ _).1 h
          subst e
          refine .star u ?_ (ih p' v (by omega) hk)
          rcases hu with hu | hu
          · cases hu
          · exact hu
        · cases p' with
          | nil => simp at h
          | cons c2 p2 =>
            simp only [Bool.and_eq_true, beq_iff_eq] at h
            obtain ⟨hc2, h⟩ := h
            subst hc2
            obtain ⟨u, v, e, _, hk⟩ := (starLoopB_iff _ _ _).1 h
            subst e
            exact .sstar u (ih p2 v (by simp at hl; omega) hk)
      · have hb : (c == '*') = false := by simp [hs]
        simp only [hb, Bool.false_eq_true, if_false] at h
        by_cases hq : c = '?'
        · subst hq
          simp only [beq_self_eq_true, if_true] at h
          cases w with
          | nil => simp at h
          | cons d w' =>
            simp only [Bool.and_eq_true, bne_iff_ne, ne_eq] at h
            exact .any1 h.1 (ih p' w' (by omega) h.2)
        · have hb2 : (c == '?') = false := by simp [hq]
          simp only [hb2, Bool.false_eq_true, if_false] at h
          cases w with
          | nil => simp at h
          | cons d w' =>
            simp only [Bool.and_eq_true, beq_iff_eq] at h
            obtain ⟨hcd, h⟩ := h
            subst hcd
            exact .lit hs hq (ih p' w' (by omega) h)

theorem globB_complete {p w : Str} (h : Glob p w) : globB p w = true := by
  induction h with
  | nil => simp [globB]
  | lit ha hb _ ih =>
    unfold globB
    simp [ha, hb, ih]
  | any1 ha _ ih =>
    unfold globB
    simp [ha, ih]
  | star u hu _ ih =>
    unfold globB
    simp only [beq_self_eq_true, if_true, Bool.or_eq_true]
    left
    exact (starLoopB_iff _ _ _).2 ⟨u, _, rfl, Or.inr hu, ih⟩
  | sstar u _ ih =>
    unfold globB
    simp only [beq_self_eq_true, if_true, Bool.or_eq_true, Bool.true_and]
    right
    exact (starLoopB_iff _ _ _).2 ⟨u, _, rfl, Or.inl rfl, ih⟩

theorem globB_iff (p w : Str) : globB p w = true ↔ Glob p w :=
  ⟨globB_sound p.length p w (Nat.le_refl _), globB_complete⟩


theorem prefixB_iff (P : Str) : ∀ (w acc : Str),
    prefixB P acc w = true ↔
      ∃ w1 w2, w = w1 ++ w2 ∧ (w2 = [] ∨ w2.head? = some '/') ∧ Glob P (acc.reverse ++ w1) := by
  intro w
  induction w with
  | nil =>
    intro acc
    simp only [prefixB, globB_iff]
    constructor
    · intro h; exact ⟨[], [], rfl, Or.inl rfl, by simpa using h⟩
    · rintro ⟨w1, w2, e, _, hg⟩
      have h1 : w1 = [] := by
        have := congrArg List.length e
        simp at this
        exact List.eq_nil_of_length_eq_zero (by omega)
      subst h1; simpa using hg
  | cons c w ih =>
    intro acc
    simp only [prefixB, Bool.or_eq_true, Bool.and_eq_true, beq_iff_eq, globB_iff, ih]
    constructor
    · rintro (⟨hc, hg⟩ | ⟨w1, w2, e, hw2, hg⟩)
      · subst hc
        exact ⟨[], '/' :: w, rfl, Or.inr rfl, by simpa using hg⟩
      · exact ⟨c :: w1, w2, by simp [e], hw2, by simpa using hg⟩
    · rintro ⟨w1, w2, e, hw2, hg⟩
      cases w1 with
      | nil =>
        left
        have e' : c :: w = w2 := by simpa using e
        subst e'
        rcases hw2 with hw2 | hw2
        · cases hw2
        · exact ⟨by simpa using hw2, by simpa using hg⟩
      | cons d w1' =>
        have hd' : c = d := (List.cons.inj e).1
        subst hd'
        right
        exact ⟨w1', w2, (List.cons.inj e).2, hw2, by simpa using hg⟩

/-- the executable decision procedure decides the documented rule -/
theorem specMatchB_iff (real : Bool) (P Y : Str) : specMatchB real P Y = true ↔ SpecMatch real P Y := by
  simp only [specMatchB, startsB, Bool.or_eq_true, Bool.and_eq_true, Bool.not_eq_true', List.any_eq_true,
    prefixB_iff, List.reverse_nil, List.nil_append]
  constructor
  · rintro (⟨w1, w2, e, hw2, hg⟩ | ⟨hr, q, hq, w1, w2, e, hw2, hg⟩)
    · exact ⟨[], w1, w2, by simp [e], hw2, Or.inl rfl, hg⟩
    · obtain ⟨a, ea⟩ := (mem_afterSeps _ _).1 hq
      refine ⟨a ++ ['/'], w1, w2, by simp [ea, e], hw2, Or.inr ⟨hr, by simp⟩, hg⟩
  · rintro ⟨pre, mid, post, e, hpost, hpre, hg⟩
    rcases hpre with hpre | ⟨hr, hl⟩
    · subst hpre
      left
      exact ⟨mid, post, by simpa using e, hpost, hg⟩
    · right
      refine ⟨hr, mid ++ post, ?_, mid, post, rfl, hpost, hg⟩
      obtain ⟨a, ha⟩ : ∃ a, pre = a ++ ['/'] := by
        cases hp : pre.reverse with
        | nil => simp at hp; subst hp; simp at hl
        | cons d r =>
          have : pre = r.reverse ++ [d] := by
            have := congrArg List.reverse hp
            simpa using this
          subst this
          simp at hl
          subst hl
          exact ⟨r.reverse, rfl⟩
      exact (mem_afterSeps _ _).2 ⟨a, by rw [e, ha]; simp⟩

/-! ### the whole function -/

theorem streamF_no_nul (v : Variant) : ∀ (fuel root : Nat) (rem : Str), NUL ∉ streamF v fuel root rem := by
  intro fuel
  induction fuel with
  | zero => intro root rem; simp [streamF]
  | succ fuel ih =>
    intro root rem
    simp only [streamF]
    split
    · simp
    · rename_i h
      intro hm
      simp only [List.mem_cons] at hm
      rcases hm with hm | hm
      · simp [← hm] at h
      · exact ih root _ hm

theorem stream_no_nul (v : Variant) (it : Iter) : NUL ∉ it.stream v := streamF_no_nul v _ _ _

/-- every path ends with a (possibly empty) last component -/
theorem split_last_comp : ∀ Y : Str, ∃ pre mid, Y = pre ++ mid ∧ '/' ∉ mid ∧ (pre = [] ∨ pre.getLast? = some '/') := by
  intro Y
  induction Y with
  | nil => exact ⟨[], [], rfl, by simp, Or.inl rfl⟩
  | cons c Y ih =>
    obtain ⟨pre, mid, e, hm, hp⟩ := ih
    by_cases hpre : pre = []
    · subst hpre
      by_cases hc : c = '/'
      · subst hc
        exact ⟨['/'], mid, by simp [e], hm, Or.inr rfl⟩
      · refine ⟨[], c :: mid, by simp [e], ?_, Or.inl rfl⟩
        intro h
        simp only [List.mem_cons] at h
        rcases h with h | h
        · exact hc h.symm
        · exact hm h
    · refine ⟨c :: pre, mid, by simp [e], hm, Or.inr ?_⟩
      rcases hp with hp | hp
      · exact absurd hp hpre
      · cases pre with
        | nil => exact absurd rfl hpre
        | cons d p' => rw [List.getLast?_cons_cons]; exact hp


theorem specMatch_star (Y : Str) : SpecMatch false ['*'] Y := by
  obtain ⟨pre, mid, e, hm, hp⟩ := split_last_comp Y
  refine ⟨pre, mid, [], by simp [e], Or.inl rfl, ?_, ?_⟩
  · rcases hp with hp | hp
    · exact Or.inl hp
    · exact Or.inr ⟨rfl, hp⟩
  · have := Glob.star (p := []) (w := []) mid hm .nil
    simpa using this

theorem specMatch_sstar (Y : Str) : SpecMatch false ['*', '*'] Y := by
  obtain ⟨pre, mid, e, _, hp⟩ := split_last_comp Y
  refine ⟨pre, mid, [], by simp [e], Or.inl rfl, ?_, ?_⟩
  · rcases hp with hp | hp
    · exact Or.inl hp
    · exact Or.inr ⟨rfl, hp⟩
  · have := Glob.sstar (p := []) (w := []) mid .nil
    simpa using this

theorem skipLast_reverse (X : Str) (hX : NUL ∉ X) : skipLast true X.reverse = (parentOf X).reverse := by
  have hn : NUL ∉ X.reverse := by simpa using hX
  simp only [skipLast, parentOf, List.reverse_reverse]
  rcases skipToSep_cases X.reverse hn with h | ⟨q, h⟩
  · rw [h]; rfl
  · rw [h]; simp [hd]

theorem parentOf_no_nul (X : Str) (hX : NUL ∉ X) : NUL ∉ parentOf X := by
  have hn : NUL ∉ X.reverse := by simpa using hX
  have := nul_not_mem_skipToSep X.reverse hn
  simp only [parentOf, List.mem_reverse]
  exact fun h => this (List.mem_of_mem_tail h)


theorem fromPattern_stream (syn : Syntax) (pattern base : Str)
    (h : CanonDomain (rawPattern syn pattern base).1 (rawPattern syn pattern base).2 = true) :
    (fromPattern .fixed syn pattern base).stream .fixed = (canonPattern syn pattern base).reverse := by
  unfold fromPattern canonPattern
  unfold rawPattern at h
  split
  · rename_i hr; simp only [hr, if_true] at h; exact iter_stream_eq_canon syn base pattern h
  · rename_i hr; simp only [hr, if_false] at h; exact iter_stream_eq_canon syn pattern [] h

theorem fromPath_stream (syn : Syntax) (path base : Str)
    (h : CanonDomain (rawPath syn path base).1 (rawPath syn path base).2 = true) :
    (fromPath .fixed syn path base).stream .fixed = (canonPath syn path base).reverse := by
  unfold fromPath canonPath
  unfold rawPath at h
  split
  · rename_i hr; simp only [hr, if_true] at h; exact iter_stream_eq_canon syn path [] h
  · rename_i hr; simp only [hr, if_false] at h; exact iter_stream_eq_canon syn base path h

theorem canonOf_star (syn : Syntax) : canonOf syn ['*'] [] = ['*'] := by cases syn <;> decide
theorem canonOf_sstar (syn : Syntax) : canonOf syn ['*', '*'] [] = ['*', '*'] := by cases syn <;> decide

/-! ### the `pattern == path` shortcut -/

/-- every pattern matches its own text -/
theorem glob_self : ∀ p : Str, Glob p p
  | [] => .nil
  | c :: p => by
    by_cases h1 : c = '*'
    · subst h1
      have := Glob.star (p := p) (w := p) ['*'] (by decide) (glob_self p)
      simpa using this
    · by_cases h2 : c = '?'
      · subst h2; exact .any1 (by decide) (glob_self p)
      · exact .lit h1 h2 (glob_self p)

theorem specMatch_self (real : Bool) (P : Str) : SpecMatch real P P :=
  ⟨[], P, [], by simp, Or.inl rfl, Or.inl rfl, glob_self P⟩

theorem not_abs_of_rel {p : Str} (h : isRelativePattern p = true) : isAbsolute p = false := by
  cases p with
  | nil => rfl
  | cons c r =>
    by_cases hc : c = '/'
    · subst hc; simp [isRelativePattern, cat] at h
    · simp [isAbsolute, hc]

/-- **the `pattern == path` shortcut is covered by the rule**: a pattern always matches the path that is spelled
    exactly like it (inside the documented domain; `FastPathOk`: not for a free pattern with a relative base path) -/
theorem fast_path_spec (syn : Syntax) (pattern base : Str)
    (hp : CanonDomain (rawPattern syn pattern base).1 (rawPattern syn pattern base).2 = true)
    (hx : CanonDomain (rawPath syn pattern base).1 (rawPath syn pattern base).2 = true)
    (hf : FastPathOk syn pattern base = true) :
    SpecMatch (isReal pattern) (canonPattern syn pattern base) (canonPath syn pattern base) := by
  unfold canonPattern canonPath
  unfold rawPattern at hp
  unfold rawPath at hx
  by_cases hrel : isRelativePattern pattern = true
  · have ha := not_abs_of_rel hrel
    simp only [hrel, ha, if_true, Bool.false_eq_true, if_false]
    exact specMatch_self _ _
  · have hrel' : isRelativePattern pattern = false := by simpa using hrel
    by_cases habs : isAbsolute pattern = true
    · simp only [hrel', habs, if_true, Bool.false_eq_true, if_false]
      exact specMatch_self _ _
    · have habs' : isAbsolute pattern = false := by simpa using habs
      simp only [hrel', habs', Bool.false_eq_true, if_false] at hp hx ⊢
      have hreal : isReal pattern = false := by simp [isReal, hrel', habs']
      rw [hreal]
      simp only [FastPathOk, hreal, Bool.false_or, Bool.or_eq_true, Bool.and_eq_true, beq_iff_eq] at hf
      rcases hf with he | ⟨hb, hr⟩
      · have : base = [] := by cases base <;> simp_all
        subst this
        rw [canonOf_nil_left]
        exact specMatch_self _ _
      · obtain ⟨pre, e, hpre⟩ := canonOf_join syn base pattern hb hr hp hx
        rcases hpre with h | ⟨hP, hY⟩
        · exact ⟨pre, canonOf syn pattern [], [], by simp [e], Or.inl rfl, Or.inr ⟨rfl, h⟩, glob_self _⟩
        · rw [hP] at *
          exact ⟨[], [], canonOf syn base pattern, by simp, Or.inr hY, Or.inl rfl, .nil⟩


theorem rootLen_unix_zero (p : Str) (h : isAbsolute p = false) : rootLen .unix (cstr p) = 0 := by
  cases p with
  | nil => rfl
  | cons c r =>
    have hc : c ≠ '/' := by intro e; subst e; simp [isAbsolute] at h
    by_cases hn : c = NUL
    · subst hn; simp [cstr, rootLen, cat, issep, NUL]
    · have : cstr (c :: r) = c :: cstr r := by simp [cstr, List.takeWhile_cons, hn]
      rw [this]
      simp [rootLen, cat, issep, hc]

/-- unix syntax with an absolute (or empty) base path: the shortcut is always covered -/
theorem fastPathOk_unix (p base : Str) (hb : isAbsolute base = true ∨ base = []) : FastPathOk .unix p base = true := by
  simp only [FastPathOk, Bool.or_eq_true, Bool.and_eq_true, beq_iff_eq]
  rcases hb with hb | hb
  · by_cases hr : isReal p = true
    · exact Or.inl (Or.inl hr)
    · right
      refine ⟨hb, rootLen_unix_zero p ?_⟩
      simp only [isReal, Bool.or_eq_true, not_or, Bool.not_eq_true] at hr
      exact hr.1
  · subst hb; exact Or.inl (Or.inr rfl)

end Cppcheck.PathMatch

import Cppcheck.Model.PathMatch
/-
C31 — helper lemmas for `PathMatch::match`: the backtracking loop (stack machine) computes the recursive search `mC`
within `costC` iterations; `mC` accepts exactly the documented glob relation read backwards.
-/
namespace Cppcheck.PathMatch
open Cppcheck.Wire Cppcheck.PathCanon

def stackAny (fx real : Bool) (b : Stack) : Bool := b.any (fun st => mC fx real st.1 st.2)
def stackCost (fx : Bool) (b : Stack) : Nat := (b.map (fun st => costC fx st.1 st.2)).sum
def restAny (fx real : Bool) (p q : Str) : Bool := (afterSeps q).any (mC fx real p)
def restCost (fx : Bool) (p q : Str) : Nat := ((afterSeps q).map (costC fx p)).sum

theorem starScan_spec (fx real slash : Bool) (s2 : Str) : ∀ (t : Str) (b : Stack),
    (mC fx real s2 (starScan fx slash s2 t b).1 || stackAny fx real (starScan fx slash s2 t b).2)
      = (scanC fx (mC fx real s2) slash (hd s2) t || stackAny fx real b) ∧
    costC fx s2 (starScan fx slash s2 t b).1 + stackCost fx (starScan fx slash s2 t b).2
      = scanCost fx (costC fx s2) slash (hd s2) t + stackCost fx b := by
  intro t
  induction t with
  | nil => intro b; simp [starScan, scanC, scanCost]
  | cons c t ih =>
    intro b
    simp only [starScan, scanC, scanCost]
    by_cases hc : (c != NUL && (slash || c != '/')) = true
    · simp only [hc, if_true]
      by_cases hh : pushOk fx (hd s2) c = true
      · simp only [hh, if_true, Bool.true_and]
        have := ih ((s2, c :: t) :: b)
        constructor
        · rw [this.1]; simp [stackAny, Bool.or_assoc, Bool.or_comm, Bool.or_left_comm]
        · rw [this.2]; simp [stackCost]; omega
      · simp only [hh, Bool.false_and, Bool.false_or]
        have := ih b
        simp only [Bool.false_eq_true, if_false, Nat.zero_add]
        exact this
    · simp only [hc]
      simp

/-- unfolding of `mC` at a star, in the shape the loop computes `slash` and `s2` -/
theorem mC_star (fx real : Bool) (s1 t : Str) :
    mC fx real ('*' :: s1) t =
      scanC fx (mC fx real (if hd s1 == '*' then s1.tail else s1)) (hd s1 == '*') (hd (if hd s1 == '*' then s1.tail else s1)) t := by
  cases s1 with
  | nil => simp [mC, hd, NUL]
  | cons c2 s2 =>
    by_cases h : c2 = '*'
    · subst h; simp [mC, hd]
    · have h' : (c2 == '*') = false := by simp [h]
      simp [mC, hd, h, h']

theorem costC_star (fx : Bool) (s1 t : Str) :
    costC fx ('*' :: s1) t =
      1 + scanCost fx (costC fx (if hd s1 == '*' then s1.tail else s1)) (hd s1 == '*') (hd (if hd s1 == '*' then s1.tail else s1)) t := by
  cases s1 with
  | nil => simp [costC, hd, NUL]
  | cons c2 s2 =>
    by_cases h : c2 = '*'
    · subst h; simp [costC, hd]
    · have h' : (c2 == '*') = false := by simp [h]
      simp [costC, hd, h, h']

theorem afterSeps_skipToSep (q : Str) (hq : NUL ∉ q) : afterSeps (skipToSep q) = afterSeps q := by
  induction q with
  | nil => rfl
  | cons c q ih =>
    have hc : c ≠ NUL := fun e => hq (by simp [e])
    have hq' : NUL ∉ q := fun e => hq (by simp [e])
    by_cases hs : c = '/'
    · subst hs; simp [skipToSep]
    · simp [skipToSep, hc, hs, afterSeps, ih hq']

theorem skipToSep_cases (q : Str) (hq : NUL ∉ q) :
    skipToSep q = [] ∨ ∃ q2, skipToSep q = '/' :: q2 := by
  induction q with
  | nil => left; rfl
  | cons c q ih =>
    have hc : c ≠ NUL := fun e => hq (by simp [e])
    have hq' : NUL ∉ q := fun e => hq (by simp [e])
    by_cases hs : c = '/'
    · subst hs; right; exact ⟨q, by simp [skipToSep]⟩
    · have hcond : (c != NUL && c != '/') = true := by simp [hc, hs]
      simp only [skipToSep, hcond, if_true]
      exact ih hq'

theorem skipToSep_suffix (q : Str) : ∃ pre, q = pre ++ skipToSep q := by
  induction q with
  | nil => exact ⟨[], rfl⟩
  | cons c q ih =>
    simp only [skipToSep]
    split
    · obtain ⟨pre, h⟩ := ih; exact ⟨c :: pre, by simp [← h]⟩
    · exact ⟨[], rfl⟩

theorem nul_not_mem_skipToSep (q : Str) (hq : NUL ∉ q) : NUL ∉ skipToSep q := by
  obtain ⟨pre, h⟩ := skipToSep_suffix q
  intro hm; apply hq; rw [h]; simp [hm]

theorem costC_pos (fx : Bool) (s t : Str) : 1 ≤ costC fx s t := by
  cases s with
  | nil => simp [costC]
  | cons c s' =>
    unfold costC
    split
    · split
      · omega
      · split <;> omega
    · split
      · split
        · omega
        · split <;> omega
      · split
        · omega
        · split
          · omega
          · split <;> omega

theorem mC_qm (fx real : Bool) (s' t : Str) :
    mC fx real ('?' :: s') t = (hd t != NUL && hd t != '/' && mC fx real s' t.tail) := by
  conv => lhs; unfold mC
  cases t <;> simp [hd, NUL]

theorem costC_qm (fx : Bool) (s' t : Str) :
    costC fx ('?' :: s') t = if (hd t != NUL && hd t != '/') = true then 1 + costC fx s' t.tail else 1 := by
  conv => lhs; unfold costC
  cases t <;> simp [hd, NUL]

theorem mC_nulc (fx real : Bool) (s' t : Str) :
    mC fx real (NUL :: s') t = (hd t == NUL || (hd t == '/' && !real)) := by
  conv => lhs; unfold mC
  simp [NUL]

theorem costC_nulc (fx : Bool) (s' t : Str) : costC fx (NUL :: s') t = 1 := by
  conv => lhs; unfold costC
  simp [NUL]

theorem mC_lit (fx real : Bool) (c : Char) (s' t : Str) (h1 : c ≠ '*') (h2 : c ≠ '?') (h3 : c ≠ NUL) :
    mC fx real (c :: s') t = (c == hd t && mC fx real s' t.tail) := by
  conv => lhs; unfold mC
  cases t with
  | nil => simp [h1, h2, h3, hd]
  | cons d t' => simp [h1, h2, h3, hd]

theorem costC_lit (fx : Bool) (c : Char) (s' t : Str) (h1 : c ≠ '*') (h2 : c ≠ '?') (h3 : c ≠ NUL) :
    costC fx (c :: s') t = if (c == hd t) = true then 1 + costC fx s' t.tail else 1 := by
  conv => lhs; unfold costC
  cases t with
  | nil => simp [h1, h2, h3, hd]
  | cons d t' => simp [h1, h2, h3, hd]

/-- the "no match" continuation of the loop body -/
def failK (fx : Bool) (fuel : Nat) (real : Bool) (p q : Str) (b : Stack) : Option Bool :=
  match b with
  | (s', t') :: b' => matchLoopF fx fuel real p s' t' q b'
  | [] =>
    let q1 := skipToSep q
    if hd q1 == '/' then matchLoopF fx fuel real p p q1.tail q1.tail [] else some false

theorem failK_eq (fx real : Bool) (p : Str) (fuel : Nat)
    (ih : ∀ s t q b, NUL ∉ q → costC fx s t + stackCost fx b + restCost fx p q ≤ fuel →
      matchLoopF fx fuel real p s t q b = some (mC fx real s t || stackAny fx real b || restAny fx real p q))
    (q : Str) (b : Stack) (hq : NUL ∉ q) (hf : stackCost fx b + restCost fx p q ≤ fuel) :
    failK fx fuel real p q b = some (stackAny fx real b || restAny fx real p q) := by
  cases b with
  | cons st b' =>
    obtain ⟨s', t'⟩ := st
    simp only [failK]
    rw [ih s' t' q b' hq (by simp [stackCost] at hf ⊢; omega)]
    simp [stackAny]
  | nil =>
    simp only [failK]
    have hsuf := afterSeps_skipToSep q hq
    rcases skipToSep_cases q hq with h | ⟨q2, h⟩
    · rw [h] at hsuf
      simp [h, hd, NUL, stackAny, restAny, ← hsuf, afterSeps]
    · have hq2 : NUL ∉ q2 := by
        have := nul_not_mem_skipToSep q hq
        rw [h] at this
        intro hm; exact this (by simp [hm])
      rw [h] at hsuf
      simp only [afterSeps, beq_self_eq_true, if_true] at hsuf
      have hr : restCost fx p q = costC fx p q2 + restCost fx p q2 := by
        simp [restCost, ← hsuf]
      have ha : restAny fx real p q = (mC fx real p q2 || restAny fx real p q2) := by
        simp [restAny, ← hsuf]
      simp only [h, hd, List.headD_cons, beq_self_eq_true, if_true, List.tail_cons]
      rw [ih p q2 q2 [] hq2 (by simp [stackCost] at hf ⊢; omega)]
      simp [stackAny, ha]


theorem matchLoopF_succ (fx : Bool) (fuel : Nat) (real : Bool) (p s t q : Str) (b : Stack) :
    matchLoopF fx (fuel + 1) real p s t q b =
      if hd s == '*' then
        matchLoopF fx fuel real p (if hd s.tail == '*' then s.tail.tail else s.tail)
          (starScan fx (hd s.tail == '*') (if hd s.tail == '*' then s.tail.tail else s.tail) t b).1 q
          (starScan fx (hd s.tail == '*') (if hd s.tail == '*' then s.tail.tail else s.tail) t b).2
      else if hd s == '?' && (hd t != NUL && hd t != '/') then matchLoopF fx fuel real p s.tail t.tail q b
      else if hd s == NUL && (hd t == NUL || (hd t == '/' && !real)) then some true
      else if hd s != '?' && hd s != NUL && hd s == hd t then matchLoopF fx fuel real p s.tail t.tail q b
      else failK fx fuel real p q b := by
  conv => lhs; unfold matchLoopF
  simp only [failK]
  split <;> rfl

theorem matchLoopF_star (fx : Bool) (fuel : Nat) (real : Bool) (p s1 t q : Str) (b : Stack) :
    matchLoopF fx (fuel + 1) real p ('*' :: s1) t q b =
        matchLoopF fx fuel real p (if hd s1 == '*' then s1.tail else s1)
          (starScan fx (hd s1 == '*') (if hd s1 == '*' then s1.tail else s1) t b).1 q
          (starScan fx (hd s1 == '*') (if hd s1 == '*' then s1.tail else s1) t b).2 := by
  rw [matchLoopF_succ]
  rfl

theorem hd_cons (c : Char) (s : Str) : hd (c :: s) = c := rfl
theorem hd_nil : hd ([] : Str) = NUL := rfl

theorem matchLoopF_eq (fx real : Bool) (p : Str) : ∀ (fuel : Nat) (s t q : Str) (b : Stack), NUL ∉ q →
    costC fx s t + stackCost fx b + restCost fx p q ≤ fuel →
    matchLoopF fx fuel real p s t q b = some (mC fx real s t || stackAny fx real b || restAny fx real p q) := by
  intro fuel
  induction fuel with
  | zero =>
    intro s t q b _ hf
    have := costC_pos fx s t
    omega
  | succ fuel ih =>
    intro s t q b hq hf
    have hfail : ∀ (hm : mC fx real s t = false), failK fx fuel real p q b = some (mC fx real s t || stackAny fx real b || restAny fx real p q) := by
      intro hm
      rw [failK_eq fx real p fuel ih q b hq (by have := costC_pos fx s t; omega), hm]
      simp
    cases s with
    | nil =>
      rw [matchLoopF_succ]
      have h1 : (NUL == '*') = false := by decide
      have h2 : (NUL == '?') = false := by decide
      have h4 : (NUL != NUL) = false := by decide
      simp only [hd_nil, h1, h2, h4, beq_self_eq_true, Bool.false_and, Bool.true_and, Bool.and_false, Bool.false_eq_true, if_false]
      have hm : mC fx real [] t = (hd t == NUL || (hd t == '/' && !real)) := by simp [mC]
      by_cases hc : (hd t == NUL || (hd t == '/' && !real)) = true
      · simp only [hc, if_true, hm, Bool.true_or]
      · simp only [hc, Bool.false_eq_true, if_false]
        exact hfail (by rw [hm]; simpa using hc)
    | cons c s' =>
      by_cases hstar : c = '*'
      · subst hstar
        rw [matchLoopF_star]
        have hsp := starScan_spec fx real (hd s' == '*') (if hd s' == '*' then s'.tail else s') t b
        have hmc := mC_star fx real s' t
        have hcc := costC_star fx s' t
        rw [ih _ _ q _ hq (by have := hsp.2; omega), hmc, hsp.1]
      · rw [matchLoopF_succ]
        simp only [hd_cons, List.tail_cons]
        have hs1 : (c == '*') = false := by simp [hstar]
        simp only [hs1, Bool.false_eq_true, if_false]
        by_cases hq1 : c = '?'
        · subst hq1
          have hm := mC_qm fx real s' t
          have hcst := costC_qm fx s' t
          by_cases hc : (hd t != NUL && hd t != '/') = true
          · simp only [beq_self_eq_true, hc, Bool.and_self, if_true]
            rw [ih _ _ q _ hq (by rw [hcst] at hf; simp only [hc, if_true] at hf; omega), hm, hc]
            simp
          · have hne : ('?' == NUL) = false := by decide
            simp only [beq_self_eq_true, hc, Bool.and_false, Bool.false_eq_true, if_false, hne, Bool.false_and, bne_self_eq_false]
            exact hfail (by rw [hm]; simp only [Bool.not_eq_true] at hc; rw [hc]; rfl)
        · have hs2 : (c == '?') = false := by simp [hq1]
          simp only [hs2, Bool.false_and, Bool.false_eq_true, if_false]
          by_cases hn : c = NUL
          · subst hn
            have hm := mC_nulc fx real s' t
            by_cases hc : (hd t == NUL || (hd t == '/' && !real)) = true
            · simp only [beq_self_eq_true, hc, Bool.and_self, if_true, hm, Bool.true_or]
            · simp only [beq_self_eq_true, hc, Bool.and_false, Bool.false_eq_true, if_false, bne_self_eq_false, Bool.false_and]
              exact hfail (by rw [hm]; simpa using hc)
          · have hs3 : (c == NUL) = false := by simp [hn]
            have hm := mC_lit fx real c s' t hstar hq1 hn
            have hcst := costC_lit fx c s' t hstar hq1 hn
            have hb2 : (c != '?') = true := by simp [hq1]
            have hb3 : (c != NUL) = true := by simp [hn]
            simp only [hs3, Bool.false_and, Bool.false_eq_true, if_false, hb2, hb3, Bool.true_and]
            by_cases hc : (c == hd t) = true
            · simp only [hc, if_true]
              rw [ih _ _ q _ hq (by rw [hcst] at hf; simp only [hc, if_true] at hf; omega), hm, hc]
              simp
            · simp only [hc, Bool.false_eq_true, if_false]
              exact hfail (by rw [hm]; simp only [Bool.not_eq_true] at hc; rw [hc]; rfl)


/-- the loop terminates within `matchFuel` iterations and computes the recursive search from every restart position -/
theorem matchStreams_eq (fx real : Bool) (s t : Str) (ht : NUL ∉ t) :
    matchStreams fx real s t = some (mC fx real s t || restAny fx real s t) := by
  unfold matchStreams
  rw [matchLoopF_eq fx real s (matchFuel fx s t) s t t [] ht (by simp [matchFuel, stackCost, restCost])]
  simp [stackAny]

end Cppcheck.PathMatch

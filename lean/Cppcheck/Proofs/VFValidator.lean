import Cppcheck.Model.VFValidator
/-
C01 — soundness of the fact validator (Model/VFValidator.lean) with respect to the MiniC interpreter (Model/MiniC.lean).
-/
namespace Cppcheck.VFV
open Cppcheck.Platforms Cppcheck.MiniC Cppcheck.Trunc

/-- what a fact claims about the value of its occurrence -/
def Fact.holds (φ : Fact) (a : Int) : Prop :=
  match φ.kind, φ.bound with
  | .known, _ => a = φ.value
  | .impossible, .point => a ≠ φ.value
  | .impossible, .upper => φ.value < a
  | .impossible, .lower => a < φ.value

instance (φ : Fact) (a : Int) : Decidable (φ.holds a) := by
  unfold Fact.holds; split <;> exact inferInstance

/-- concretisation of an abstract value -/
def AbsVal.mem (v : AbsVal) (a : Int) : Prop := v.lo ≤ a ∧ a ≤ v.hi ∧ a ∉ v.ne

/-! ## abstract values -/

theorem contains_iff (l : List Int) (p : Int) : l.contains p = true ↔ p ∈ l := by
  simp

theorem excl_sound {v : AbsVal} {p a : Int} (h : v.excl p = true) (hm : v.mem a) : a ≠ p := by
  unfold AbsVal.excl at h
  unfold AbsVal.mem at hm
  simp at h
  intro e; subst e
  rcases h with (h | h) | h
  · omega
  · omega
  · exact hm.2.2 h

theorem isConst_sound {v : AbsVal} {c a : Int} (h : v.isConst = some c) (hm : v.mem a) : a = c := by
  unfold AbsVal.isConst at h
  unfold AbsVal.mem at hm
  split at h
  · simp at h; omega
  · simp at h

theorem const_mem (c : Int) : (AbsVal.const c).mem c := by
  simp [AbsVal.const, AbsVal.mem]

theorem mem_const {c a : Int} (h : (AbsVal.const c).mem a) : a = c := by
  simp [AbsVal.const, AbsVal.mem] at h; omega

theorem range_mem {lo hi a : Int} (h1 : lo ≤ a) (h2 : a ≤ hi) : (AbsVal.range lo hi).mem a := by
  simp [AbsVal.range, AbsVal.mem]; omega

theorem join_sound_l {a b : AbsVal} {x : Int} (h : a.mem x) : (a.join b).mem x := by
  unfold AbsVal.mem at h ⊢
  unfold AbsVal.join
  refine ⟨by simp; omega, by simp; omega, ?_⟩
  simp only [List.mem_append, List.mem_filter]
  intro hx
  rcases hx with ⟨h1, _⟩ | ⟨_, h2⟩
  · exact h.2.2 h1
  · exact excl_sound h2 h rfl

theorem join_sound_r {a b : AbsVal} {x : Int} (h : b.mem x) : (a.join b).mem x := by
  unfold AbsVal.mem at h ⊢
  unfold AbsVal.join
  refine ⟨by simp; omega, by simp; omega, ?_⟩
  simp only [List.mem_append, List.mem_filter]
  intro hx
  rcases hx with ⟨_, h2⟩ | ⟨h1, _⟩
  · exact excl_sound h2 h rfl
  · exact h.2.2 h1

theorem trim_sound {v : AbsVal} {x : Int} (h : v.mem x) : v.trim.mem x := by
  unfold AbsVal.mem at h ⊢
  unfold AbsVal.trim
  refine ⟨h.1, h.2.1, ?_⟩
  intro hx
  have := List.mem_of_mem_take hx
  exact h.2.2 (List.mem_filter.1 this).1

theorem leq_sound {a b : AbsVal} {x : Int} (hl : a.leq b = true) (h : a.mem x) : b.mem x := by
  unfold AbsVal.leq at hl
  simp at hl
  obtain ⟨⟨h1, h2⟩, h3⟩ := hl
  refine ⟨by unfold AbsVal.mem at h; omega, by unfold AbsVal.mem at h; omega, ?_⟩
  intro hx
  exact excl_sound (h3 x hx) h rfl

theorem bumpLo_sound (ne : List Int) (n : Nat) (lo x : Int) (h1 : lo ≤ x) (h2 : x ∉ ne) : AbsVal.bumpLo ne n lo ≤ x := by
  induction n generalizing lo with
  | zero => simpa [AbsVal.bumpLo]
  | succ n ih =>
    unfold AbsVal.bumpLo
    split
    · rename_i hc
      apply ih
      have : lo ≠ x := by intro e; subst e; exact h2 ((contains_iff _ _).1 hc)
      omega
    · exact h1

theorem bumpHi_sound (ne : List Int) (n : Nat) (hi x : Int) (h1 : x ≤ hi) (h2 : x ∉ ne) : x ≤ AbsVal.bumpHi ne n hi := by
  induction n generalizing hi with
  | zero => simpa [AbsVal.bumpHi]
  | succ n ih =>
    unfold AbsVal.bumpHi
    split
    · rename_i hc
      apply ih
      have : hi ≠ x := by intro e; subst e; exact h2 ((contains_iff _ _).1 hc)
      omega
    · exact h1

theorem norm_sound {v : AbsVal} {x : Int} (h : v.mem x) : v.norm.mem x := by
  unfold AbsVal.mem at h
  exact ⟨bumpLo_sound _ _ _ _ h.1 h.2.2, bumpHi_sound _ _ _ _ h.2.1 h.2.2, h.2.2⟩

theorem meetLo_sound {v : AbsVal} {x l : Int} (h : v.mem x) (hl : l ≤ x) : (v.meetLo l).mem x := by
  unfold AbsVal.meetLo
  apply norm_sound
  unfold AbsVal.mem at h ⊢
  exact ⟨by simp; omega, h.2.1, h.2.2⟩

theorem meetHi_sound {v : AbsVal} {x u : Int} (h : v.mem x) (hu : x ≤ u) : (v.meetHi u).mem x := by
  unfold AbsVal.meetHi
  apply norm_sound
  unfold AbsVal.mem at h ⊢
  exact ⟨h.1, by simp; omega, h.2.2⟩

theorem remove_sound {v : AbsVal} {x p : Int} (h : v.mem x) (hp : x ≠ p) : (v.remove p).mem x := by
  unfold AbsVal.remove
  unfold AbsVal.mem at h
  split
  · exact ⟨h.1, h.2.1, by simp; exact ⟨hp, h.2.2⟩⟩
  · split
    · exact ⟨by simp; omega, h.2.1, h.2.2⟩
    · split
      · exact ⟨h.1, by simp; omega, h.2.2⟩
      · apply trim_sound
        exact ⟨h.1, h.2.1, by simp; exact ⟨hp, h.2.2⟩⟩

theorem isEmpty_sound {v : AbsVal} {x : Int} (he : v.isEmpty = true) (h : v.mem x) : False := by
  unfold AbsVal.isEmpty at he
  unfold AbsVal.mem at h
  simp at he
  rcases he with he | ⟨h1, h2⟩
  · omega
  · have : x = v.lo := by omega
    subst this; exact h.2.2 h2

theorem abot_mem {x : Int} (h : abot.mem x) : False := by
  simp [abot, AbsVal.mem] at h; omega

theorem okOn_sound {φ : Fact} {v : AbsVal} {a : Int} (h : φ.okOn v = true) (hm : v.mem a) : φ.holds a := by
  unfold Fact.okOn at h
  simp only [Bool.or_eq_true] at h
  rcases h with h | h
  · exact absurd hm (fun hm => isEmpty_sound h hm)
  · unfold Fact.holds
    unfold AbsVal.mem at hm
    split at h <;> simp_all
    · omega
    · exact excl_sound (by assumption) ⟨hm.1, hm.2.1, hm.2.2⟩
    · omega
    · omega

/-! ## types -/

def inTy (P : Platform) (t : Ty) (v : Int) : Prop := tmin P t ≤ v ∧ v ≤ tmax P t

theorem top_mem {P : Platform} {t : Ty} {v : Int} (h : inTy P t v) : (top P t).mem v := range_mem h.1 h.2

theorem two_pow_cast (b : Nat) : ((2 ^ b : Nat) : Int) = (2 : Int) ^ b := by
  push_cast; rfl

theorem conv_inTy (P : Platform) (t : Ty) (v : Int) : inTy P t (conv P t v) := by
  unfold inTy conv wrapC tmin tmax
  generalize bits P t = b
  have hpos : (0 : Int) < 2 ^ b := Int.pow_pos (by decide)
  cases hs : t.signed
  · simp
    exact ⟨Int.emod_nonneg _ (by omega), by have := Int.emod_lt_of_pos v hpos; omega⟩
  · simp
    have h1 := @Int.le_bmod v (2 ^ b) (Nat.two_pow_pos b)
    have h2 := @Int.bmod_lt v (2 ^ b) (Nat.two_pow_pos b)
    rw [two_pow_cast] at h1 h2
    constructor <;> omega

theorem conv_id {P : Platform} {t : Ty} {v : Int} (h : inTy P t v) : conv P t v = v := by
  unfold inTy tmin tmax at h
  unfold conv wrapC
  generalize bits P t = b at *
  cases hs : t.signed
  · simp [hs] at h ⊢
    exact Int.emod_eq_of_lt h.1 (by omega)
  · simp [hs] at h ⊢
    apply Int.bmod_eq_of_le
    · rw [two_pow_cast]; omega
    · rw [two_pow_cast]; omega

theorem arith_inTy {P : Platform} {t : Ty} {x r : Int} (h : arith P t x = some r) : inTy P t r := by
  unfold arith at h
  split at h
  · split at h
    · simp at h; subst h; assumption
    · simp at h
  · simp at h; subst h; exact conv_inTy P t x

theorem aconv_sound {P : Platform} {t : Ty} {v : AbsVal} {a : Int} (h : v.mem a) : (aconv P t v).mem (conv P t a) := by
  unfold aconv
  split
  · rename_i he; exact absurd h (fun h => isEmpty_sound he h)
  · split
    · rename_i hf
      unfold fits at hf
      simp at hf
      have : inTy P t a := by unfold inTy; unfold AbsVal.mem at h; omega
      rw [conv_id this]; exact h
    · split
      · rename_i c hc
        rw [isConst_sound hc h]; exact const_mem _
      · exact top_mem (conv_inTy P t a)

theorem aarithNe_sound {P : Platform} {t : Ty} {lo hi x r : Int} {ne : List Int} (h : arith P t x = some r)
    (h1 : lo ≤ x) (h2 : x ≤ hi) (h3 : x ∉ ne) : (aarithNe P t lo hi ne).mem r := by
  unfold aarithNe
  unfold arith at h
  split
  · rename_i hs
    rw [if_pos hs] at h
    split at h
    · simp at h; subst h
      exact ⟨by simp; omega, by simp; omega, h3⟩
    · simp at h
  · rename_i hs
    rw [if_neg hs] at h
    simp at h; subst h
    split
    · rename_i hr
      have : inTy P t x := by
        unfold inTy tmin; simp [hs]; omega
      rw [conv_id this]
      exact ⟨by simp; omega, by simp; omega, h3⟩
    · exact top_mem (conv_inTy P t x)

theorem acmp_sound {op : BinOp} {a b : AbsVal} {x y : Int} {r : Bool} (h : acmp op a b = some r) (ha : a.mem x) (hb : b.mem y) :
    (op = .lt → r = decide (x < y)) ∧ (op = .le → r = decide (x ≤ y)) ∧ (op = .gt → r = decide (x > y)) ∧
    (op = .ge → r = decide (x ≥ y)) ∧ (op = .eq → r = decide (x = y)) ∧ (op = .ne → r = decide (x ≠ y)) := by
  have ha' := ha
  have hb' := hb
  unfold AbsVal.mem at ha hb
  refine ⟨?_, ?_, ?_, ?_, ?_, ?_⟩ <;> intro hop <;> subst hop <;> simp only [acmp] at h
  · split at h
    · simp at h; subst h; simp; omega
    · split at h
      · simp at h; subst h; simp; omega
      · simp at h
  · split at h
    · simp at h; subst h; simp; omega
    · split at h
      · simp at h; subst h; simp; omega
      · simp at h
  · split at h
    · simp at h; subst h; simp; omega
    · split at h
      · simp at h; subst h; simp; omega
      · simp at h
  · split at h
    · simp at h; subst h; simp; omega
    · split at h
      · simp at h; subst h; simp; omega
      · simp at h
  · split at h
    · simp at h; subst h; simp; omega
    · split at h
      · rename_i cx cy hx hy
        simp at h; subst h
        rw [isConst_sound hx ha', isConst_sound hy hb']
        by_cases hc : cx = cy <;> simp [hc]
      · rename_i cx hx hy
        split at h
        · rename_i he
          simp at h; subst h
          have := excl_sound he hb'
          rw [isConst_sound hx ha']; simp; omega
        · simp at h
      · rename_i cy hx hy
        split at h
        · rename_i he
          simp at h; subst h
          have := excl_sound he ha'
          rw [isConst_sound hy hb']; simp; omega
        · simp at h
      · simp at h
  · split at h
    · simp at h; subst h; simp; omega
    · split at h
      · rename_i cx cy hx hy
        simp at h; subst h
        rw [isConst_sound hx ha', isConst_sound hy hb']
        by_cases hc : cx = cy <;> simp [hc]
      · rename_i cx hx hy
        split at h
        · rename_i he
          simp at h; subst h
          have := excl_sound he hb'
          rw [isConst_sound hx ha']; simp; omega
        · simp at h
      · rename_i cy hx hy
        split at h
        · rename_i he
          simp at h; subst h
          have := excl_sound he ha'
          rw [isConst_sound hy hb']; simp; omega
        · simp at h
      · simp at h

theorem ofOptBool_sound {o : Option Bool} {b : Bool} (h : ∀ r, o = some r → r = b) : (ofOptBool o).mem (MiniC.b2i b) := by
  cases o with
  | none => unfold ofOptBool abool; cases b <;> simp [MiniC.b2i, AbsVal.range, AbsVal.mem]
  | some r =>
    have := h r rfl; subst this
    cases r <;> simp [ofOptBool, MiniC.b2i, AbsVal.const, AbsVal.mem]

/-! ## operators -/

theorem evalBin_inTy {P : Platform} {op : BinOp} {ta tb : Ty} {a b r : Int} (h : evalBin P op ta tb a b = some r)
    (hc : op.isCmp = false) : inTy P (binTy P op ta tb) r := by
  unfold binTy
  rw [hc]
  unfold evalBin at h
  by_cases hs : op.isShift = true
  · simp only [hs, if_true] at h ⊢
    simp only [Bool.false_eq_true, if_false]
    split at h
    · simp at h
    · split at h
      · split at h
        · split at h
          · simp at h
          · exact arith_inTy h
        · simp at h; subst h; exact conv_inTy _ _ _
      · simp at h; subst h; exact conv_inTy _ _ _
  · simp only [hs] at h ⊢
    simp only [Bool.false_eq_true, if_false] at h ⊢
    cases op <;> simp [BinOp.isCmp, BinOp.isShift] at hc hs <;> simp only [] at h
    · exact arith_inTy h
    · exact arith_inTy h
    · exact arith_inTy h
    · split at h
      · simp at h
      · exact arith_inTy h
    · split at h
      · simp at h
      · split at h
        · simp at h
        · exact arith_inTy h
    · simp at h; subst h; exact conv_inTy _ _ _
    · simp at h; subst h; exact conv_inTy _ _ _
    · simp at h; subst h; exact conv_inTy _ _ _

theorem evalBin_cmp {P : Platform} {op : BinOp} {ta tb : Ty} {a b : Int} (hc : op.isCmp = true) :
    evalBin P op ta tb a b = some (MiniC.b2i (
      let x := conv P (uac P ta tb) a
      let y := conv P (uac P ta tb) b
      match op with
      | .lt => decide (x < y) | .le => decide (x ≤ y) | .gt => decide (x > y) | .ge => decide (x ≥ y)
      | .eq => decide (x = y) | .ne => decide (x ≠ y) | _ => false)) := by
  cases op <;> simp [BinOp.isCmp] at hc <;> simp [evalBin, BinOp.isShift]

theorem mul_mem_pos {lo hi x c : Int} (h1 : lo ≤ x) (h2 : x ≤ hi) (hc : 0 < c) : lo * c ≤ x * c ∧ x * c ≤ hi * c :=
  ⟨Int.mul_le_mul_of_nonneg_right h1 (by omega), Int.mul_le_mul_of_nonneg_right h2 (by omega)⟩

theorem mul_mem_neg {lo hi x c : Int} (h1 : lo ≤ x) (h2 : x ≤ hi) (hc : c < 0) : hi * c ≤ x * c ∧ x * c ≤ lo * c :=
  ⟨Int.mul_le_mul_of_nonpos_right h2 (by omega), Int.mul_le_mul_of_nonpos_right h1 (by omega)⟩

theorem absBin_sound {P : Platform} {op : BinOp} {ta tb : Ty} {a b : AbsVal} {va vb r : Int}
    (ha : a.mem va) (hb : b.mem vb) (h : evalBin P op ta tb va vb = some r) : (absBin P op ta tb a b).mem r := by
  unfold absBin
  split
  · rename_i he
    simp at he
    rcases he with he | he
    · exact absurd ha (fun h => isEmpty_sound he h)
    · exact absurd hb (fun h => isEmpty_sound he h)
  · split
    · rename_i ca cb hca hcb
      rw [isConst_sound hca ha, isConst_sound hcb hb] at h
      rw [h]; exact const_mem r
    · rename_i hnc
      split
      · rename_i hs
        have hcmp : op.isCmp = false := by cases op <;> simp [BinOp.isShift] at hs <;> rfl
        have := evalBin_inTy h hcmp
        unfold binTy at this; rw [hcmp, hs] at this; simp at this
        exact top_mem this
      · rename_i hs
        simp at hs
        have ha' := aconv_sound (P := P) (t := uac P ta tb) ha
        have hb' := aconv_sound (P := P) (t := uac P ta tb) hb
        have hfall : op.isCmp = false → (top P (uac P ta tb)).mem r := by
          intro hcmp
          have := evalBin_inTy h hcmp
          unfold binTy at this; rw [hcmp, hs] at this; simp at this
          exact top_mem this
        simp only []
        generalize aconv P (uac P ta tb) a = a' at *
        generalize aconv P (uac P ta tb) b = b' at *
        have ha'' := ha'
        have hb'' := hb'
        unfold AbsVal.mem at ha'' hb''
        cases op <;> simp only []
        case add =>
          simp [evalBin, BinOp.isShift] at h
          refine aarithNe_sound h (by omega) (by omega) ?_
          split
          · rename_i c hc
            have := isConst_sound hc hb'
            simp only [List.mem_map]; rintro ⟨p, hp, e⟩; apply ha''.2.2; have : p = conv P (uac P ta tb) va := by omega
            subst this; exact hp
          · rename_i c hc _
            have := isConst_sound hc ha'
            simp only [List.mem_map]; rintro ⟨p, hp, e⟩; apply hb''.2.2; have : p = conv P (uac P ta tb) vb := by omega
            subst this; exact hp
          · simp
        case sub =>
          simp [evalBin, BinOp.isShift] at h
          refine aarithNe_sound h (by omega) (by omega) ?_
          split
          · rename_i c hc
            have := isConst_sound hc hb'
            simp only [List.mem_map]; rintro ⟨p, hp, e⟩; apply ha''.2.2; have : p = conv P (uac P ta tb) va := by omega
            subst this; exact hp
          · rename_i c hc _
            have := isConst_sound hc ha'
            simp only [List.mem_map]; rintro ⟨p, hp, e⟩; apply hb''.2.2; have : p = conv P (uac P ta tb) vb := by omega
            subst this; exact hp
          · simp
        case mul =>
          simp [evalBin, BinOp.isShift] at h
          split
          · rename_i c hc
            have e := isConst_sound hc hb'
            rw [e] at h
            split
            · rename_i hz; subst hz
              simp only [Int.mul_zero, Int.zero_mul] at h
              exact aarithNe_sound h (Int.le_refl _) (Int.le_refl _) (by simp)
            · split
              · rename_i hz hp
                have := mul_mem_pos ha''.1 ha''.2.1 hp
                refine aarithNe_sound h this.1 this.2 ?_
                simp only [List.mem_map]; rintro ⟨p, hp', e'⟩
                exact ha''.2.2 (by rw [← Int.eq_of_mul_eq_mul_right hz e']; exact hp')
              · rename_i hz hp
                have := mul_mem_neg ha''.1 ha''.2.1 (by omega : c < 0)
                refine aarithNe_sound h this.1 this.2 ?_
                simp only [List.mem_map]; rintro ⟨p, hp', e'⟩
                exact ha''.2.2 (by rw [← Int.eq_of_mul_eq_mul_right hz e']; exact hp')
          · rename_i c hc _
            have e := isConst_sound hc ha'
            rw [e] at h
            split
            · rename_i hz; subst hz
              simp only [Int.mul_zero, Int.zero_mul] at h
              exact aarithNe_sound h (Int.le_refl _) (Int.le_refl _) (by simp)
            · split
              · rename_i hz hp
                have := mul_mem_pos hb''.1 hb''.2.1 hp
                rw [Int.mul_comm c b'.lo, Int.mul_comm c b'.hi]
                rw [Int.mul_comm] at h
                refine aarithNe_sound h this.1 this.2 ?_
                simp only [List.mem_map]; rintro ⟨p, hp', e'⟩
                rw [Int.mul_comm c p] at e'
                exact hb''.2.2 (by rw [← Int.eq_of_mul_eq_mul_right hz e']; exact hp')
              · rename_i hz hp
                have := mul_mem_neg hb''.1 hb''.2.1 (by omega : c < 0)
                rw [Int.mul_comm c b'.lo, Int.mul_comm c b'.hi]
                rw [Int.mul_comm] at h
                refine aarithNe_sound h this.1 this.2 ?_
                simp only [List.mem_map]; rintro ⟨p, hp', e'⟩
                rw [Int.mul_comm c p] at e'
                exact hb''.2.2 (by rw [← Int.eq_of_mul_eq_mul_right hz e']; exact hp')
          · exact hfall rfl
        case lt | le | gt | ge | eq | ne =>
          rw [evalBin_cmp (by rfl)] at h
          simp at h; subst h
          apply ofOptBool_sound
          intro r hr
          have := acmp_sound hr ha' hb'
          simp_all
        all_goals first | exact hfall rfl | (simp [BinOp.isShift] at hs)

theorem b2i_abool (b : Bool) : abool.mem (MiniC.b2i b) := by
  cases b <;> simp [abool, MiniC.b2i, AbsVal.range, AbsVal.mem]

theorem absUn_sound {P : Platform} {op : UnOp} {ta : Ty} {a : AbsVal} {va r : Int}
    (ha : a.mem va) (h : evalUn P op ta va = some r) : (absUn P op ta a).mem r := by
  unfold absUn
  split
  · rename_i he; exact absurd ha (fun h => isEmpty_sound he h)
  · cases op <;> simp only []
    case lnot =>
      simp [evalUn] at h; subst h
      split
      · rename_i he
        have := excl_sound he ha
        simp [MiniC.b2i, this]; exact const_mem 0
      · split
        · rename_i hc
          have := isConst_sound hc ha
          simp [MiniC.b2i, this]; exact const_mem 1
        · exact b2i_abool _
    case neg =>
      simp only [evalUn] at h
      have ha' := aconv_sound (P := P) (t := promote P ta) ha
      generalize aconv P (promote P ta) a = a' at *
      have ha'' := ha'
      unfold AbsVal.mem at ha''
      refine aarithNe_sound h (by omega) (by omega) ?_
      simp only [List.mem_map]; rintro ⟨p, hp, e⟩
      apply ha''.2.2
      have : p = conv P (promote P ta) va := by omega
      subst this; exact hp
    case compl =>
      split
      · rename_i c hc
        rw [isConst_sound hc ha] at h
        rw [h]; exact const_mem r
      · simp [evalUn] at h; subst h; exact top_mem (conv_inTy _ _ _)

theorem atruth_sound {v : AbsVal} {a : Int} {b : Bool} (h : atruth v = some b) (hm : v.mem a) : b = decide (a ≠ 0) := by
  unfold atruth at h
  split at h
  · rename_i he
    simp at h; subst h
    have := excl_sound he hm
    simp [this]
  · split at h
    · rename_i hc
      simp at h; subst h
      have := isConst_sound hc hm
      simp [this]
    · simp at h

/-! ## abstract states -/

/-- the concrete environment is described by the abstract one, variable by variable -/
def EnvIn : Env → AEnv → Prop
  | [], [] => True
  | a :: σ, v :: s => v.mem a ∧ EnvIn σ s
  | _, _ => False

theorem envIn_length {σ : Env} {s : AEnv} (h : EnvIn σ s) : σ.length = s.length := by
  induction σ generalizing s with
  | nil => cases s <;> simp_all [EnvIn]
  | cons a σ ih => cases s with
    | nil => simp [EnvIn] at h
    | cons v s => simp [EnvIn] at h; simp [ih h.2]

theorem alook_sound {σ : Env} {s : AEnv} (h : EnvIn σ s) (x : Nat) : (alook s x).mem (σ.getD x 0) := by
  induction σ generalizing s x with
  | nil => cases s with
    | nil => simp [alook]; exact const_mem 0
    | cons v s => simp [EnvIn] at h
  | cons a σ ih => cases s with
    | nil => simp [EnvIn] at h
    | cons v s =>
      simp [EnvIn] at h
      cases x with
      | zero => simp [alook]; exact h.1
      | succ x => simpa [alook] using ih h.2 x

theorem set_sound {σ : Env} {s : AEnv} (h : EnvIn σ s) (x : Nat) {v : AbsVal} {a : Int} (hv : v.mem a) :
    EnvIn (setVar σ x a) (s.set x v) := by
  unfold setVar
  induction σ generalizing s x with
  | nil => cases s with
    | nil => simp [EnvIn]
    | cons v s => simp [EnvIn] at h
  | cons b σ ih => cases s with
    | nil => simp [EnvIn] at h
    | cons w s =>
      simp [EnvIn] at h
      cases x with
      | zero => simp [EnvIn]; exact ⟨hv, h.2⟩
      | succ x => simp [EnvIn]; exact ⟨h.1, ih h.2 x⟩

theorem joinEnv_sound_l {σ : Env} {a b : AEnv} (h : EnvIn σ a) (hl : a.length = b.length) : EnvIn σ (joinEnv a b) := by
  induction σ generalizing a b with
  | nil => cases a with
    | nil => cases b <;> simp_all [joinEnv, EnvIn]
    | cons v a => simp [EnvIn] at h
  | cons x σ ih => cases a with
    | nil => simp [EnvIn] at h
    | cons v a => cases b with
      | nil => simp at hl
      | cons w b =>
        simp [EnvIn] at h
        simp at hl
        simp [joinEnv, EnvIn]
        exact ⟨trim_sound (join_sound_l h.1), ih h.2 hl⟩

theorem joinEnv_sound_r {σ : Env} {a b : AEnv} (h : EnvIn σ b) (hl : a.length = b.length) : EnvIn σ (joinEnv a b) := by
  induction σ generalizing a b with
  | nil => cases b with
    | nil => cases a <;> simp_all [joinEnv, EnvIn]
    | cons v a => simp [EnvIn] at h
  | cons x σ ih => cases b with
    | nil => simp [EnvIn] at h
    | cons w b => cases a with
      | nil => simp at hl
      | cons v a =>
        simp [EnvIn] at h
        simp at hl
        simp [joinEnv, EnvIn]
        exact ⟨trim_sound (join_sound_r h.1), ih h.2 hl⟩

theorem leqEnv_sound {σ : Env} {a b : AEnv} (hl : leqEnv a b = true) (h : EnvIn σ a) : EnvIn σ b := by
  induction σ generalizing a b with
  | nil => cases a with
    | nil => cases b <;> simp_all [leqEnv, EnvIn]
    | cons v a => simp [EnvIn] at h
  | cons x σ ih => cases a with
    | nil => simp [EnvIn] at h
    | cons v a => cases b with
      | nil => simp [leqEnv] at hl
      | cons w b =>
        simp [EnvIn] at h
        simp [leqEnv] at hl
        simp [EnvIn]
        exact ⟨leq_sound hl.1 h.1, ih hl.2 h.2⟩

def OEnvIn (σ : Env) : Option AEnv → Prop
  | none => False
  | some s => EnvIn σ s

theorem fixLen_id {n : Nat} {s : AEnv} (h : s.length = n) : fixLen n s = s := by
  unfold fixLen; simp [h]

theorem fixLen_length (n : Nat) (s : AEnv) : (fixLen n s).length = n := by
  unfold fixLen; split <;> simp_all

theorem ojoin_sound_l {σ : Env} {n : Nat} {a b : Option AEnv} (hn : σ.length = n) (h : OEnvIn σ a) : OEnvIn σ (ojoin n a b) := by
  cases a with
  | none => simp [OEnvIn] at h
  | some a =>
    cases b with
    | none => simpa [ojoin] using h
    | some b =>
      simp only [ojoin, OEnvIn] at h ⊢
      have hl : a.length = n := by rw [← envIn_length h, hn]
      rw [fixLen_id hl]
      exact joinEnv_sound_l h (by rw [hl, fixLen_length])

theorem ojoin_sound_r {σ : Env} {n : Nat} {a b : Option AEnv} (hn : σ.length = n) (h : OEnvIn σ b) : OEnvIn σ (ojoin n a b) := by
  cases b with
  | none => simp [OEnvIn] at h
  | some b =>
    cases a with
    | none => simpa [ojoin] using h
    | some a =>
      simp only [ojoin, OEnvIn] at h ⊢
      have hl : b.length = n := by rw [← envIn_length h, hn]
      rw [fixLen_id hl]
      exact joinEnv_sound_r h (by rw [hl, fixLen_length])

theorem oleq_sound {σ : Env} {o : Option AEnv} {inv : AEnv} (hl : oleq o inv = true) (h : OEnvIn σ o) : EnvIn σ inv := by
  cases o with
  | none => simp [OEnvIn] at h
  | some a => exact leqEnv_sound (by simpa [oleq] using hl) h

/-! ## expressions -/

/-- all events at the fact's occurrence satisfy the fact -/
def EvOk (φ : Fact) (evs : List Event) : Prop := ∀ ev ∈ evs, ev.1 = φ.occ → φ.holds ev.2

theorem evOk_nil (φ : Fact) : EvOk φ [] := by intro ev h; simp at h

theorem evOk_append {φ : Fact} {a b : List Event} (ha : EvOk φ a) (hb : EvOk φ b) : EvOk φ (a ++ b) := by
  intro ev h
  rcases List.mem_append.1 h with h | h
  · exact ha ev h
  · exact hb ev h

theorem factOk_sound {φ : Fact} {id : Nat} {v : AbsVal} {a : Int} (h : factOk φ id v = true) (hm : v.mem a) : EvOk φ [(id, a)] := by
  intro ev hev hocc
  simp at hev; subst hev
  unfold factOk at h
  simp at h
  rcases h with h | h
  · exact absurd hocc h
  · exact okOn_sound h hm

/-- soundness of a condition refinement: whenever `e` evaluates to a value with truth value `t`, the refined state exists and
    still describes the environment -/
def RefSound (c : Ctx) (ref : Expr → Bool → AEnv → Option AEnv) : Prop :=
  ∀ (e : Expr) (t : Bool) (σ : Env) (s : AEnv) (v : Int) (evs : List Event),
    σ.length = c.vars.length → EnvIn σ s → evalE c.P c.vars σ e = (some v, evs) → decide (v ≠ 0) = t →
    ∃ s', ref e t s = some s' ∧ EnvIn σ s'

theorem noRef_sound (c : Ctx) : RefSound c noRef := by
  intro e t σ s v evs _ h _ _
  exact ⟨s, rfl, h⟩

theorem checkEG_sound (c : Ctx) (ref : Expr → Bool → AEnv → Option AEnv) (href : RefSound c ref) (e : Expr) :
    ∀ (σ : Env) (s : AEnv) (ok : Bool) (va : AbsVal) (r : Option Int) (evs : List Event),
      σ.length = c.vars.length → EnvIn σ s → checkEG c ref s e = (ok, va) → evalE c.P c.vars σ e = (r, evs) →
      (ok = true → EvOk c.φ evs) ∧ (∀ v, r = some v → va.mem v) := by
  induction e with
  | lit v t =>
    intro σ s ok va r evs _ _ h1 h2
    simp [checkEG] at h1; simp [evalE] at h2
    obtain ⟨rfl, rfl⟩ := h1; obtain ⟨rfl, rfl⟩ := h2
    exact ⟨fun _ => evOk_nil _, fun v hv => by simp at hv; subst hv; exact const_mem _⟩
  | var x =>
    intro σ s ok va r evs _ hσ h1 h2
    simp [checkEG] at h1; simp [evalE] at h2
    obtain ⟨rfl, rfl⟩ := h1; obtain ⟨rfl, rfl⟩ := h2
    exact ⟨fun _ => evOk_nil _, fun v hv => by simp at hv; subst hv; exact alook_sound hσ x⟩
  | un op e ih =>
    intro σ s ok va r evs hn hσ h1 h2
    simp only [checkEG] at h1; simp only [evalE] at h2
    generalize hce : checkEG c ref s e = p at h1
    obtain ⟨ok1, a1⟩ := p
    generalize hev : evalE c.P c.vars σ e = q at h2
    obtain ⟨r1, ev1⟩ := q
    have := ih σ s ok1 a1 r1 ev1 hn hσ hce hev
    simp at h1; obtain ⟨rfl, rfl⟩ := h1
    cases r1 with
    | none => simp at h2; obtain ⟨rfl, rfl⟩ := h2; exact ⟨this.1, fun v hv => by simp at hv⟩
    | some a =>
      simp at h2; obtain ⟨rfl, rfl⟩ := h2
      exact ⟨this.1, fun v hv => absUn_sound (this.2 a rfl) hv⟩
  | bin op a b iha ihb =>
    intro σ s ok va r evs hn hσ h1 h2
    simp only [checkEG] at h1; simp only [evalE] at h2
    generalize hca : checkEG c ref s a = pa at h1
    obtain ⟨ok1, a1⟩ := pa
    generalize hcb : checkEG c ref s b = pb at h1
    obtain ⟨ok2, b1⟩ := pb
    generalize hea : evalE c.P c.vars σ a = qa at h2
    obtain ⟨ra, eva⟩ := qa
    have A := iha σ s ok1 a1 ra eva hn hσ hca hea
    simp at h1; obtain ⟨rfl, rfl⟩ := h1
    cases ra with
    | none => simp at h2; obtain ⟨rfl, rfl⟩ := h2
              exact ⟨fun h => A.1 (by simp at h; exact h.1), fun v hv => by simp at hv⟩
    | some x =>
      simp only [] at h2
      generalize heb : evalE c.P c.vars σ b = qb at h2
      obtain ⟨rb, evb⟩ := qb
      have B := ihb σ s ok2 b1 rb evb hn hσ hcb heb
      cases rb with
      | none => simp at h2; obtain ⟨rfl, rfl⟩ := h2
                exact ⟨fun h => by simp at h; exact evOk_append (A.1 h.1) (B.1 h.2), fun v hv => by simp at hv⟩
      | some y =>
        simp at h2; obtain ⟨rfl, rfl⟩ := h2
        exact ⟨fun h => by simp at h; exact evOk_append (A.1 h.1) (B.1 h.2),
               fun v hv => absBin_sound (A.2 x rfl) (B.2 y rfl) hv⟩
  | land a b iha ihb =>
    intro σ s ok va r evs hn hσ h1 h2
    simp only [checkEG] at h1; simp only [evalE] at h2
    generalize hca : checkEG c ref s a = pa at h1
    obtain ⟨ok1, a1⟩ := pa
    generalize hea : evalE c.P c.vars σ a = qa at h2
    obtain ⟨ra, eva⟩ := qa
    have A := iha σ s ok1 a1 ra eva hn hσ hca hea
    cases ra with
    | none =>
      simp at h2; obtain ⟨rfl, rfl⟩ := h2
      refine ⟨fun h => ?_, fun v hv => by simp at hv⟩
      simp only [] at h1
      split at h1
      · simp at h1; exact A.1 (by rw [h1.1]; exact h)
      · generalize checkEG c ref _ b = pb at h1
        obtain ⟨ok2, b1⟩ := pb
        simp at h1; exact A.1 (by have := h1.1; simp_all)
    | some x =>
      simp only [] at h2
      by_cases hx : x = 0
      · simp [hx] at h2; obtain ⟨rfl, rfl⟩ := h2
        subst hx
        simp only [] at h1
        split at h1
        · simp at h1; obtain ⟨rfl, rfl⟩ := h1
          exact ⟨A.1, fun v hv => by simp at hv; subst hv; exact const_mem 0⟩
        · rename_i st hst
          generalize hcb : checkEG c ref st b = pb at h1
          obtain ⟨ok2, b1⟩ := pb
          simp at h1; obtain ⟨rfl, rfl⟩ := h1
          refine ⟨fun h => A.1 (by simp at h; exact h.1), fun v hv => ?_⟩
          simp at hv; subst hv
          have hta := A.2 0 rfl
          split
          · exact const_mem 0
          · exact const_mem 0
          · rename_i h3 _ _
            have := atruth_sound h3 hta
            simp at this
          · exact b2i_abool false
      · simp [hx] at h2
        obtain ⟨st, hst, hσ'⟩ := href a true σ s x eva hn hσ hea (by simp [hx])
        simp only [hst] at h1
        generalize hcb : checkEG c ref st b = pb at h1
        obtain ⟨ok2, b1⟩ := pb
        generalize heb : evalE c.P c.vars σ b = qb at h2
        obtain ⟨rb, evb⟩ := qb
        have B := ihb σ st ok2 b1 rb evb hn hσ' hcb heb
        simp at h1; obtain ⟨rfl, rfl⟩ := h1
        cases rb with
        | none => simp at h2; obtain ⟨rfl, rfl⟩ := h2
                  exact ⟨fun h => by simp at h; exact evOk_append (A.1 h.1) (B.1 h.2), fun v hv => by simp at hv⟩
        | some y =>
          simp at h2; obtain ⟨rfl, rfl⟩ := h2
          refine ⟨fun h => by simp at h; exact evOk_append (A.1 h.1) (B.1 h.2), fun v hv => ?_⟩
          simp at hv; subst hv
          have hta := A.2 x rfl
          have htb := B.2 y rfl
          split
          · rename_i h3; have := atruth_sound h3 hta; simp [hx] at this
          · rename_i h3; have := atruth_sound h3 htb; simp at this; subst this; exact const_mem 0
          · rename_i h3 h4
            have := atruth_sound h4 htb; simp at this
            simp [MiniC.b2i, this]; exact const_mem 1
          · exact b2i_abool _
  | lor a b iha ihb =>
    intro σ s ok va r evs hn hσ h1 h2
    simp only [checkEG] at h1; simp only [evalE] at h2
    generalize hca : checkEG c ref s a = pa at h1
    obtain ⟨ok1, a1⟩ := pa
    generalize hea : evalE c.P c.vars σ a = qa at h2
    obtain ⟨ra, eva⟩ := qa
    have A := iha σ s ok1 a1 ra eva hn hσ hca hea
    cases ra with
    | none =>
      simp at h2; obtain ⟨rfl, rfl⟩ := h2
      refine ⟨fun h => ?_, fun v hv => by simp at hv⟩
      simp only [] at h1
      split at h1
      · simp at h1; exact A.1 (by rw [h1.1]; exact h)
      · generalize checkEG c ref _ b = pb at h1
        obtain ⟨ok2, b1⟩ := pb
        simp at h1; exact A.1 (by have := h1.1; simp_all)
    | some x =>
      simp only [] at h2
      by_cases hx : x = 0
      · simp [hx] at h2
        subst hx
        obtain ⟨sf, hsf, hσ'⟩ := href a false σ s 0 eva hn hσ hea (by simp)
        simp only [hsf] at h1
        generalize hcb : checkEG c ref sf b = pb at h1
        obtain ⟨ok2, b1⟩ := pb
        generalize heb : evalE c.P c.vars σ b = qb at h2
        obtain ⟨rb, evb⟩ := qb
        have B := ihb σ sf ok2 b1 rb evb hn hσ' hcb heb
        simp at h1; obtain ⟨rfl, rfl⟩ := h1
        cases rb with
        | none => simp at h2; obtain ⟨rfl, rfl⟩ := h2
                  exact ⟨fun h => by simp at h; exact evOk_append (A.1 h.1) (B.1 h.2), fun v hv => by simp at hv⟩
        | some y =>
          simp at h2; obtain ⟨rfl, rfl⟩ := h2
          refine ⟨fun h => by simp at h; exact evOk_append (A.1 h.1) (B.1 h.2), fun v hv => ?_⟩
          simp at hv; subst hv
          have hta := A.2 0 rfl
          have htb := B.2 y rfl
          split
          · rename_i h3; have := atruth_sound h3 hta; simp at this
          · rename_i h3; have := atruth_sound h3 htb; simp at this
            simp [MiniC.b2i, this]; exact const_mem 1
          · rename_i h3 h4
            have := atruth_sound h4 htb; simp at this; subst this; exact const_mem 0
          · exact b2i_abool _
      · simp [hx] at h2; obtain ⟨rfl, rfl⟩ := h2
        simp only [] at h1
        split at h1
        · simp at h1; obtain ⟨rfl, rfl⟩ := h1
          exact ⟨A.1, fun v hv => by simp at hv; subst hv; exact const_mem 1⟩
        · rename_i sf hsf
          generalize hcb : checkEG c ref sf b = pb at h1
          obtain ⟨ok2, b1⟩ := pb
          simp at h1; obtain ⟨rfl, rfl⟩ := h1
          refine ⟨fun h => A.1 (by simp at h; exact h.1), fun v hv => ?_⟩
          simp at hv; subst hv
          have hta := A.2 x rfl
          split
          · exact const_mem 1
          · exact const_mem 1
          · rename_i h3 _ _
            have := atruth_sound h3 hta
            simp [hx] at this
          · exact b2i_abool true
  | cast t e ih =>
    intro σ s ok va r evs hn hσ h1 h2
    simp only [checkEG] at h1; simp only [evalE] at h2
    generalize hce : checkEG c ref s e = p at h1
    obtain ⟨ok1, a1⟩ := p
    generalize hev : evalE c.P c.vars σ e = q at h2
    obtain ⟨r1, ev1⟩ := q
    have := ih σ s ok1 a1 r1 ev1 hn hσ hce hev
    simp at h1; obtain ⟨rfl, rfl⟩ := h1
    cases r1 with
    | none => simp at h2; obtain ⟨rfl, rfl⟩ := h2; exact ⟨this.1, fun v hv => by simp at hv⟩
    | some a =>
      simp at h2; obtain ⟨rfl, rfl⟩ := h2
      exact ⟨this.1, fun v hv => by simp at hv; subst hv; exact aconv_sound (this.2 a rfl)⟩
  | cond cnd a b ihc iha ihb =>
    intro σ s ok va r evs hn hσ h1 h2
    sorry
  | tag id e ih =>
    intro σ s ok va r evs hn hσ h1 h2
    simp only [checkEG] at h1; simp only [evalE] at h2
    generalize hce : checkEG c ref s e = p at h1
    obtain ⟨ok1, a1⟩ := p
    generalize hev : evalE c.P c.vars σ e = q at h2
    obtain ⟨r1, ev1⟩ := q
    have := ih σ s ok1 a1 r1 ev1 hn hσ hce hev
    simp at h1; obtain ⟨rfl, rfl⟩ := h1
    cases r1 with
    | none => simp at h2; obtain ⟨rfl, rfl⟩ := h2; exact ⟨fun h => this.1 (by simp at h; exact h.1), fun v hv => by simp at hv⟩
    | some a =>
      simp at h2; obtain ⟨rfl, rfl⟩ := h2
      exact ⟨fun h => by simp at h; exact evOk_append (this.1 h.1) (factOk_sound h.2 (this.2 a rfl)),
             fun v hv => by simp at hv; subst hv; exact this.2 a rfl⟩

end Cppcheck.VFV

import Cppcheck.Model.VFValidator
/-
C01 — soundness of the fact validator (Model/VFValidator.lean) with respect to the MiniC interpreter (Model/MiniC.lean).
-/
namespace Cppcheck.VFV
open Cppcheck.Platforms Cppcheck.MiniC
open Cppcheck.Trunc (wrapC)

/-- what a fact claims about the value of its occurrence -/
def Fact.holds (φ : Fact) (a : Int) : Prop :=
  match φ.kind, φ.bound with
  | .known, _ => a = φ.value
  | .impossible, .point => a ≠ φ.value
  | .impossible, .upper => φ.value < a
  | .impossible, .lower => a < φ.value

instance (φ : Fact) (a : Int) : Decidable (φ.holds a) := by
  unfold Fact.holds; split <;> exact inferInstance

/-- concretisation of an abstract value -/
def AbsVal.mem (v : AbsVal) (a : Int) : Prop := v.lo ≤ a ∧ a ≤ v.hi ∧ a ∉ v.ne

/-! ## abstract values -/

theorem contains_iff (l : List Int) (p : Int) : l.contains p = true ↔ p ∈ l := by
  simp

theorem excl_sound {v : AbsVal} {p a : Int} (h : v.excl p = true) (hm : v.mem a) : a ≠ p := by
  unfold AbsVal.excl at h
  unfold AbsVal.mem at hm
  simp at h
  intro e; subst e
  rcases h with (h | h) | h
  · omega
  · omega
  · exact hm.2.2 h

theorem isConst_sound {v : AbsVal} {c a : Int} (h : v.isConst = some c) (hm : v.mem a) : a = c := by
  unfold AbsVal.isConst at h
  unfold AbsVal.mem at hm
  split at h
  · simp at h; omega
  · simp at h

theorem const_mem (c : Int) : (AbsVal.const c).mem c := by
  simp [AbsVal.const, AbsVal.mem]

theorem mem_const {c a : Int} (h : (AbsVal.const c).mem a) : a = c := by
  simp [AbsVal.const, AbsVal.mem] at h; omega

theorem range_mem {lo hi a : Int} (h1 : lo ≤ a) (h2 : a ≤ hi) : (AbsVal.range lo hi).mem a := by
  simp [AbsVal.range, AbsVal.mem]; omega

theorem join_sound_l {a b : AbsVal} {x : Int} (h : a.mem x) : (a.join b).mem x := by
  unfold AbsVal.mem at h ⊢
  unfold AbsVal.join
  refine ⟨by simp; omega, by simp; omega, ?_⟩
  simp only [List.mem_append, List.mem_filter]
  intro hx
  rcases hx with ⟨h1, _⟩ | ⟨_, h2⟩
  · exact h.2.2 h1
  · exact excl_sound h2 h rfl

theorem join_sound_r {a b : AbsVal} {x : Int} (h : b.mem x) : (a.join b).mem x := by
  unfold AbsVal.mem at h ⊢
  unfold AbsVal.join
  refine ⟨by simp; omega, by simp; omega, ?_⟩
  simp only [List.mem_append, List.mem_filter]
  intro hx
  rcases hx with ⟨_, h2⟩ | ⟨h1, _⟩
  · exact excl_sound h2 h rfl
  · exact h.2.2 h1

theorem trim_sound {v : AbsVal} {x : Int} (h : v.mem x) : v.trim.mem x := by
  unfold AbsVal.mem at h ⊢
  unfold AbsVal.trim
  refine ⟨h.1, h.2.1, ?_⟩
  intro hx
  have := List.mem_of_mem_take hx
  exact h.2.2 (List.mem_filter.1 this).1

theorem leq_sound {a b : AbsVal} {x : Int} (hl : a.leq b = true) (h : a.mem x) : b.mem x := by
  unfold AbsVal.leq at hl
  simp at hl
  obtain ⟨⟨h1, h2⟩, h3⟩ := hl
  refine ⟨by unfold AbsVal.mem at h; omega, by unfold AbsVal.mem at h; omega, ?_⟩
  intro hx
  exact excl_sound (h3 x hx) h rfl

theorem bumpLo_sound (ne : List Int) (n : Nat) (lo x : Int) (h1 : lo ≤ x) (h2 : x ∉ ne) : AbsVal.bumpLo ne n lo ≤ x := by
  induction n generalizing lo with
  | zero => simpa [AbsVal.bumpLo]
  | succ n ih =>
    unfold AbsVal.bumpLo
    split
    · rename_i hc
      apply ih
      have : lo ≠ x := by intro e; subst e; exact h2 ((contains_iff _ _).1 hc)
      omega
    · exact h1

theorem bumpHi_sound (ne : List Int) (n : Nat) (hi x : Int) (h1 : x ≤ hi) (h2 : x ∉ ne) : x ≤ AbsVal.bumpHi ne n hi := by
  induction n generalizing hi with
  | zero => simpa [AbsVal.bumpHi]
  | succ n ih =>
    unfold AbsVal.bumpHi
    split
    · rename_i hc
      apply ih
      have : hi ≠ x := by intro e; subst e; exact h2 ((contains_iff _ _).1 hc)
      omega
    · exact h1

theorem norm_sound {v : AbsVal} {x : Int} (h : v.mem x) : v.norm.mem x := by
  unfold AbsVal.mem at h
  exact ⟨bumpLo_sound _ _ _ _ h.1 h.2.2, bumpHi_sound _ _ _ _ h.2.1 h.2.2, h.2.2⟩

theorem meetLo_sound {v : AbsVal} {x l : Int} (h : v.mem x) (hl : l ≤ x) : (v.meetLo l).mem x := by
  unfold AbsVal.meetLo
  apply norm_sound
  unfold AbsVal.mem at h ⊢
  exact ⟨by simp; omega, h.2.1, h.2.2⟩

theorem meetHi_sound {v : AbsVal} {x u : Int} (h : v.mem x) (hu : x ≤ u) : (v.meetHi u).mem x := by
  unfold AbsVal.meetHi
  apply norm_sound
  unfold AbsVal.mem at h ⊢
  exact ⟨h.1, by simp; omega, h.2.2⟩

theorem remove_sound {v : AbsVal} {x p : Int} (h : v.mem x) (hp : x ≠ p) : (v.remove p).mem x := by
  unfold AbsVal.remove
  unfold AbsVal.mem at h
  split
  · exact ⟨h.1, h.2.1, by simp; exact ⟨hp, h.2.2⟩⟩
  · split
    · exact ⟨by simp; omega, h.2.1, h.2.2⟩
    · split
      · exact ⟨h.1, by simp; omega, h.2.2⟩
      · apply trim_sound
        exact ⟨h.1, h.2.1, by simp; exact ⟨hp, h.2.2⟩⟩

theorem isEmpty_sound {v : AbsVal} {x : Int} (he : v.isEmpty = true) (h : v.mem x) : False := by
  unfold AbsVal.isEmpty at he
  unfold AbsVal.mem at h
  simp at he
  rcases he with he | ⟨h1, h2⟩
  · omega
  · have : x = v.lo := by omega
    subst this; exact h.2.2 h2

theorem abot_mem {x : Int} (h : abot.mem x) : False := by
  simp [abot, AbsVal.mem] at h; omega

theorem okOn_sound {φ : Fact} {v : AbsVal} {a : Int} (h : φ.okOn v = true) (hm : v.mem a) : φ.holds a := by
  unfold Fact.okOn at h
  simp only [Bool.or_eq_true] at h
  rcases h with h | h
  · exact absurd hm (fun hm => isEmpty_sound h hm)
  · unfold Fact.holds
    unfold AbsVal.mem at hm
    split at h <;> simp_all
    · omega
    · exact excl_sound (by assumption) ⟨hm.1, hm.2.1, hm.2.2⟩
    · omega
    · omega

/-! ## types -/

def inTy (P : Platform) (t : Ty) (v : Int) : Prop := tmin P t ≤ v ∧ v ≤ tmax P t
instance (P : Platform) (t : Ty) (v : Int) : Decidable (inTy P t v) := by unfold inTy; exact inferInstance

theorem top_mem {P : Platform} {t : Ty} {v : Int} (h : inTy P t v) : (top P t).mem v := range_mem h.1 h.2

theorem two_pow_cast (b : Nat) : ((2 ^ b : Nat) : Int) = (2 : Int) ^ b := by
  push_cast; rfl

theorem conv_inTy (P : Platform) (t : Ty) (v : Int) : inTy P t (conv P t v) := by
  unfold inTy conv wrapC tmin tmax
  generalize bits P t = b
  have hpos : (0 : Int) < 2 ^ b := Int.pow_pos (by decide)
  cases hs : t.signed
  · simp
    exact ⟨Int.emod_nonneg _ (by omega), by have := Int.emod_lt_of_pos v hpos; omega⟩
  · simp
    have h1 := @Int.le_bmod v (2 ^ b) (Nat.two_pow_pos b)
    have h2 := @Int.bmod_lt v (2 ^ b) (Nat.two_pow_pos b)
    rw [two_pow_cast] at h1 h2
    constructor <;> omega

theorem conv_id {P : Platform} {t : Ty} {v : Int} (h : inTy P t v) : conv P t v = v := by
  unfold inTy tmin tmax at h
  unfold conv wrapC
  generalize bits P t = b at *
  cases hs : t.signed
  · simp [hs] at h ⊢
    exact Int.emod_eq_of_lt h.1 (by omega)
  · simp [hs] at h ⊢
    apply Int.bmod_eq_of_le
    · rw [two_pow_cast]; omega
    · rw [two_pow_cast]; omega

theorem arith_inTy {P : Platform} {t : Ty} {x r : Int} (h : arith P t x = some r) : inTy P t r := by
  unfold arith at h
  split at h
  · split at h
    · simp at h; subst h; assumption
    · simp at h
  · simp at h; subst h; exact conv_inTy P t x

theorem aconv_sound {P : Platform} {t : Ty} {v : AbsVal} {a : Int} (h : v.mem a) : (aconv P t v).mem (conv P t a) := by
  unfold aconv
  split
  · rename_i he; exact absurd h (fun h => isEmpty_sound he h)
  · split
    · rename_i hf
      unfold fits at hf
      simp at hf
      have : inTy P t a := by unfold inTy; unfold AbsVal.mem at h; omega
      rw [conv_id this]; exact h
    · split
      · rename_i c hc
        rw [isConst_sound hc h]; exact const_mem _
      · exact top_mem (conv_inTy P t a)

theorem aarithNe_sound {P : Platform} {t : Ty} {lo hi x r : Int} {ne : List Int} (h : arith P t x = some r)
    (h1 : lo ≤ x) (h2 : x ≤ hi) (h3 : x ∉ ne) : (aarithNe P t lo hi ne).mem r := by
  unfold aarithNe
  unfold arith at h
  split
  · rename_i hs
    rw [if_pos hs] at h
    split at h
    · simp at h; subst h
      exact ⟨by simp; omega, by simp; omega, h3⟩
    · simp at h
  · rename_i hs
    rw [if_neg hs] at h
    simp at h; subst h
    split
    · rename_i hr
      have : inTy P t x := by
        unfold inTy tmin; simp [hs]; omega
      rw [conv_id this]
      exact ⟨by simp; omega, by simp; omega, h3⟩
    · exact top_mem (conv_inTy P t x)

theorem acmp_sound {op : BinOp} {a b : AbsVal} {x y : Int} {r : Bool} (h : acmp op a b = some r) (ha : a.mem x) (hb : b.mem y) :
    (op = .lt → r = decide (x < y)) ∧ (op = .le → r = decide (x ≤ y)) ∧ (op = .gt → r = decide (x > y)) ∧
    (op = .ge → r = decide (x ≥ y)) ∧ (op = .eq → r = decide (x = y)) ∧ (op = .ne → r = decide (x ≠ y)) := by
  have ha' := ha
  have hb' := hb
  unfold AbsVal.mem at ha hb
  refine ⟨?_, ?_, ?_, ?_, ?_, ?_⟩ <;> intro hop <;> subst hop <;> simp only [acmp] at h
  · split at h
    · simp at h; subst h; simp; omega
    · split at h
      · simp at h; subst h; simp; omega
      · simp at h
  · split at h
    · simp at h; subst h; simp; omega
    · split at h
      · simp at h; subst h; simp; omega
      · simp at h
  · split at h
    · simp at h; subst h; simp; omega
    · split at h
      · simp at h; subst h; simp; omega
      · simp at h
  · split at h
    · simp at h; subst h; simp; omega
    · split at h
      · simp at h; subst h; simp; omega
      · simp at h
  · split at h
    · simp at h; subst h; simp; omega
    · split at h
      · rename_i cx cy hx hy
        simp at h; subst h
        rw [isConst_sound hx ha', isConst_sound hy hb']
        by_cases hc : cx = cy <;> simp [hc]
      · rename_i cx hx hy
        split at h
        · rename_i he
          simp at h; subst h
          have := excl_sound he hb'
          rw [isConst_sound hx ha']; simp; omega
        · simp at h
      · rename_i cy hx hy
        split at h
        · rename_i he
          simp at h; subst h
          have := excl_sound he ha'
          rw [isConst_sound hy hb']; simp; omega
        · simp at h
      · simp at h
  · split at h
    · simp at h; subst h; simp; omega
    · split at h
      · rename_i cx cy hx hy
        simp at h; subst h
        rw [isConst_sound hx ha', isConst_sound hy hb']
        by_cases hc : cx = cy <;> simp [hc]
      · rename_i cx hx hy
        split at h
        · rename_i he
          simp at h; subst h
          have := excl_sound he hb'
          rw [isConst_sound hx ha']; simp; omega
        · simp at h
      · rename_i cy hx hy
        split at h
        · rename_i he
          simp at h; subst h
          have := excl_sound he ha'
          rw [isConst_sound hy hb']; simp; omega
        · simp at h
      · simp at h

theorem ofOptBool_sound {o : Option Bool} {b : Bool} (h : ∀ r, o = some r → r = b) : (ofOptBool o).mem (MiniC.b2i b) := by
  cases o with
  | none => unfold ofOptBool abool; cases b <;> simp [MiniC.b2i, AbsVal.range, AbsVal.mem]
  | some r =>
    have := h r rfl; subst this
    cases r <;> simp [ofOptBool, MiniC.b2i, AbsVal.const, AbsVal.mem]

/-! ## operators -/

theorem evalBin_inTy {P : Platform} {op : BinOp} {ta tb : Ty} {a b r : Int} (h : evalBin P op ta tb a b = some r)
    (hc : op.isCmp = false) : inTy P (binTy P op ta tb) r := by
  unfold binTy
  rw [hc]
  unfold evalBin at h
  by_cases hs : op.isShift = true
  · simp only [hs, if_true] at h ⊢
    simp only [Bool.false_eq_true, if_false]
    split at h
    · simp at h
    · split at h
      · split at h
        · split at h
          · simp at h
          · exact arith_inTy h
        · simp at h; subst h; exact conv_inTy _ _ _
      · simp at h; subst h; exact conv_inTy _ _ _
  · simp only [hs] at h ⊢
    simp only [Bool.false_eq_true, if_false] at h ⊢
    cases op <;> simp [BinOp.isCmp, BinOp.isShift] at hc hs <;> simp only [] at h
    · exact arith_inTy h
    · exact arith_inTy h
    · exact arith_inTy h
    · split at h
      · simp at h
      · exact arith_inTy h
    · split at h
      · simp at h
      · split at h
        · simp at h
        · exact arith_inTy h
    · simp at h; subst h; exact conv_inTy _ _ _
    · simp at h; subst h; exact conv_inTy _ _ _
    · simp at h; subst h; exact conv_inTy _ _ _

def cmpB (op : BinOp) (x y : Int) : Bool :=
  match op with
  | .lt => decide (x < y) | .le => decide (x ≤ y) | .gt => decide (x > y) | .ge => decide (x ≥ y)
  | .eq => decide (x = y) | .ne => decide (x ≠ y) | _ => false

theorem evalBin_cmp {P : Platform} {op : BinOp} {ta tb : Ty} {a b : Int} (hc : op.isCmp = true) :
    evalBin P op ta tb a b = some (MiniC.b2i (cmpB op (conv P (uac P ta tb) a) (conv P (uac P ta tb) b))) := by
  cases op <;> simp [BinOp.isCmp] at hc <;> simp [evalBin, BinOp.isShift, cmpB]

theorem mul_mem_pos {lo hi x c : Int} (h1 : lo ≤ x) (h2 : x ≤ hi) (hc : 0 < c) : lo * c ≤ x * c ∧ x * c ≤ hi * c :=
  ⟨Int.mul_le_mul_of_nonneg_right h1 (by omega), Int.mul_le_mul_of_nonneg_right h2 (by omega)⟩

theorem mul_mem_neg {lo hi x c : Int} (h1 : lo ≤ x) (h2 : x ≤ hi) (hc : c < 0) : hi * c ≤ x * c ∧ x * c ≤ lo * c :=
  ⟨Int.mul_le_mul_of_nonpos_right h2 (by omega), Int.mul_le_mul_of_nonpos_right h1 (by omega)⟩

theorem absBin_sound {P : Platform} {op : BinOp} {ta tb : Ty} {a b : AbsVal} {va vb r : Int}
    (ha : a.mem va) (hb : b.mem vb) (h : evalBin P op ta tb va vb = some r) : (absBin P op ta tb a b).mem r := by
  unfold absBin
  split
  · rename_i he
    simp at he
    rcases he with he | he
    · exact absurd ha (fun h => isEmpty_sound he h)
    · exact absurd hb (fun h => isEmpty_sound he h)
  · split
    · rename_i ca cb hca hcb
      rw [isConst_sound hca ha, isConst_sound hcb hb] at h
      rw [h]; exact const_mem r
    · rename_i hnc
      split
      · rename_i hs
        have hcmp : op.isCmp = false := by cases op <;> simp [BinOp.isShift] at hs <;> rfl
        have := evalBin_inTy h hcmp
        unfold binTy at this; rw [hcmp, hs] at this; simp at this
        exact top_mem this
      · rename_i hs
        simp at hs
        have ha' := aconv_sound (P := P) (t := uac P ta tb) ha
        have hb' := aconv_sound (P := P) (t := uac P ta tb) hb
        have hfall : op.isCmp = false → (top P (uac P ta tb)).mem r := by
          intro hcmp
          have := evalBin_inTy h hcmp
          unfold binTy at this; rw [hcmp, hs] at this; simp at this
          exact top_mem this
        simp only []
        generalize aconv P (uac P ta tb) a = a' at *
        generalize aconv P (uac P ta tb) b = b' at *
        have ha'' := ha'
        have hb'' := hb'
        unfold AbsVal.mem at ha'' hb''
        cases op <;> simp only []
        case add =>
          simp [evalBin, BinOp.isShift] at h
          refine aarithNe_sound h (by omega) (by omega) ?_
          split
          · rename_i c hc
            have := isConst_sound hc hb'
            simp only [List.mem_map]; rintro ⟨p, hp, e⟩; apply ha''.2.2; have : p = conv P (uac P ta tb) va := by omega
            subst this; exact hp
          · rename_i c hc _
            have := isConst_sound hc ha'
            simp only [List.mem_map]; rintro ⟨p, hp, e⟩; apply hb''.2.2; have : p = conv P (uac P ta tb) vb := by omega
            subst this; exact hp
          · simp
        case sub =>
          simp [evalBin, BinOp.isShift] at h
          refine aarithNe_sound h (by omega) (by omega) ?_
          split
          · rename_i c hc
            have := isConst_sound hc hb'
            simp only [List.mem_map]; rintro ⟨p, hp, e⟩; apply ha''.2.2; have : p = conv P (uac P ta tb) va := by omega
            subst this; exact hp
          · rename_i c hc _
            have := isConst_sound hc ha'
            simp only [List.mem_map]; rintro ⟨p, hp, e⟩; apply hb''.2.2; have : p = conv P (uac P ta tb) vb := by omega
            subst this; exact hp
          · simp
        case mul =>
          simp [evalBin, BinOp.isShift] at h
          split
          · rename_i c hc
            have e := isConst_sound hc hb'
            rw [e] at h
            split
            · rename_i hz; subst hz
              simp only [Int.mul_zero] at h
              exact aarithNe_sound h (Int.le_refl _) (Int.le_refl _) (by simp)
            · split
              · rename_i hz hp
                have := mul_mem_pos ha''.1 ha''.2.1 hp
                refine aarithNe_sound h this.1 this.2 ?_
                simp only [List.mem_map]; rintro ⟨p, hp', e'⟩
                exact ha''.2.2 (by rw [← Int.eq_of_mul_eq_mul_right hz e']; exact hp')
              · rename_i hz hp
                have := mul_mem_neg ha''.1 ha''.2.1 (by omega : c < 0)
                refine aarithNe_sound h this.1 this.2 ?_
                simp only [List.mem_map]; rintro ⟨p, hp', e'⟩
                exact ha''.2.2 (by rw [← Int.eq_of_mul_eq_mul_right hz e']; exact hp')
          · rename_i c hc _
            have e := isConst_sound hc ha'
            rw [e] at h
            split
            · rename_i hz; subst hz
              simp only [Int.zero_mul] at h
              exact aarithNe_sound h (Int.le_refl _) (Int.le_refl _) (by simp)
            · split
              · rename_i hz hp
                have := mul_mem_pos hb''.1 hb''.2.1 hp
                rw [Int.mul_comm c b'.lo, Int.mul_comm c b'.hi]
                rw [Int.mul_comm] at h
                refine aarithNe_sound h this.1 this.2 ?_
                simp only [List.mem_map]; rintro ⟨p, hp', e'⟩
                rw [Int.mul_comm c p] at e'
                exact hb''.2.2 (by rw [← Int.eq_of_mul_eq_mul_right hz e']; exact hp')
              · rename_i hz hp
                have := mul_mem_neg hb''.1 hb''.2.1 (by omega : c < 0)
                rw [Int.mul_comm c b'.lo, Int.mul_comm c b'.hi]
                rw [Int.mul_comm] at h
                refine aarithNe_sound h this.1 this.2 ?_
                simp only [List.mem_map]; rintro ⟨p, hp', e'⟩
                rw [Int.mul_comm c p] at e'
                exact hb''.2.2 (by rw [← Int.eq_of_mul_eq_mul_right hz e']; exact hp')
          · exact hfall rfl
        case lt | le | gt | ge | eq | ne =>
          rw [evalBin_cmp (by rfl)] at h
          simp at h; subst h
          apply ofOptBool_sound
          intro r hr
          have := acmp_sound hr ha' hb'
          simp_all [cmpB]
        all_goals first | exact hfall rfl | (simp [BinOp.isShift] at hs)

theorem b2i_abool (b : Bool) : abool.mem (MiniC.b2i b) := by
  cases b <;> simp [abool, MiniC.b2i, AbsVal.range, AbsVal.mem]

theorem absUn_sound {P : Platform} {op : UnOp} {ta : Ty} {a : AbsVal} {va r : Int}
    (ha : a.mem va) (h : evalUn P op ta va = some r) : (absUn P op ta a).mem r := by
  unfold absUn
  split
  · rename_i he; exact absurd ha (fun h => isEmpty_sound he h)
  · cases op <;> simp only []
    case lnot =>
      simp [evalUn] at h; subst h
      split
      · rename_i he
        have := excl_sound he ha
        simp [MiniC.b2i, this]; exact const_mem 0
      · split
        · rename_i hc
          have := isConst_sound hc ha
          simp [MiniC.b2i, this]; exact const_mem 1
        · exact b2i_abool _
    case neg =>
      simp only [evalUn] at h
      have ha' := aconv_sound (P := P) (t := promote P ta) ha
      generalize aconv P (promote P ta) a = a' at *
      have ha'' := ha'
      unfold AbsVal.mem at ha''
      refine aarithNe_sound h (by omega) (by omega) ?_
      simp only [List.mem_map]; rintro ⟨p, hp, e⟩
      apply ha''.2.2
      have : p = conv P (promote P ta) va := by omega
      subst this; exact hp
    case compl =>
      split
      · rename_i c hc
        rw [isConst_sound hc ha] at h
        rw [h]; exact const_mem r
      · simp [evalUn] at h; subst h; exact top_mem (conv_inTy _ _ _)

theorem atruth_sound {v : AbsVal} {a : Int} {b : Bool} (h : atruth v = some b) (hm : v.mem a) : b = decide (a ≠ 0) := by
  unfold atruth at h
  split at h
  · rename_i he
    simp at h; subst h
    have := excl_sound he hm
    simp [this]
  · split at h
    · rename_i hc
      simp at h; subst h
      have := isConst_sound hc hm
      simp [this]
    · simp at h

def landVal (va vb : AbsVal) : AbsVal :=
  match atruth va, atruth vb with
  | some false, _ => .const 0
  | _, some false => .const 0
  | some true, some true => .const 1
  | _, _ => abool

def lorVal (va vb : AbsVal) : AbsVal :=
  match atruth va, atruth vb with
  | some true, _ => .const 1
  | _, some true => .const 1
  | some false, some false => .const 0
  | _, _ => abool

theorem landVal_zero {va vb : AbsVal} (hx : va.mem 0) : (landVal va vb).mem 0 := by
  unfold landVal
  cases h1 : atruth va with
  | none => cases h2 : atruth vb with
    | none => exact b2i_abool false
    | some b => cases b
                · exact const_mem 0
                · exact b2i_abool false
  | some b =>
    have := atruth_sound h1 hx
    simp at this; subst this
    exact const_mem 0

theorem landVal_sound {va vb : AbsVal} {x y : Int} (hx : va.mem x) (hy : vb.mem y) (hx0 : x ≠ 0) :
    (landVal va vb).mem (MiniC.b2i (decide (y ≠ 0))) := by
  unfold landVal
  cases h1 : atruth va with
  | none => cases h2 : atruth vb with
    | none => exact b2i_abool _
    | some b =>
      have := atruth_sound h2 hy; subst this
      by_cases hy0 : y = 0
      · simp [hy0, MiniC.b2i]; exact const_mem 0
      · simp [hy0]; exact b2i_abool true
  | some b =>
    have := atruth_sound h1 hx
    simp [hx0] at this; subst this
    cases h2 : atruth vb with
    | none => exact b2i_abool _
    | some b =>
      have := atruth_sound h2 hy; subst this
      by_cases hy0 : y = 0
      · simp [hy0, MiniC.b2i]; exact const_mem 0
      · simp [hy0, MiniC.b2i]; exact const_mem 1

theorem lorVal_one {va vb : AbsVal} {x : Int} (hx : va.mem x) (hx0 : x ≠ 0) : (lorVal va vb).mem 1 := by
  unfold lorVal
  cases h1 : atruth va with
  | none => cases h2 : atruth vb with
    | none => exact b2i_abool true
    | some b => cases b
                · exact b2i_abool true
                · exact const_mem 1
  | some b =>
    have := atruth_sound h1 hx
    simp [hx0] at this; subst this
    exact const_mem 1

theorem lorVal_sound {va vb : AbsVal} {y : Int} (hx : va.mem 0) (hy : vb.mem y) :
    (lorVal va vb).mem (MiniC.b2i (decide (y ≠ 0))) := by
  unfold lorVal
  cases h1 : atruth va with
  | none => cases h2 : atruth vb with
    | none => exact b2i_abool _
    | some b =>
      have := atruth_sound h2 hy; subst this
      by_cases hy0 : y = 0
      · simp [hy0]; exact b2i_abool false
      · simp [hy0, MiniC.b2i]; exact const_mem 1
  | some b =>
    have := atruth_sound h1 hx
    simp at this; subst this
    cases h2 : atruth vb with
    | none => exact b2i_abool _
    | some b =>
      have := atruth_sound h2 hy; subst this
      by_cases hy0 : y = 0
      · simp [hy0, MiniC.b2i]; exact const_mem 0
      · simp [hy0, MiniC.b2i]; exact const_mem 1

/-! ## abstract states -/

/-- the concrete environment is described by the abstract one, variable by variable -/
def EnvIn : Env → AEnv → Prop
  | [], [] => True
  | a :: σ, v :: s => v.mem a ∧ EnvIn σ s
  | _, _ => False

theorem envIn_length {σ : Env} {s : AEnv} (h : EnvIn σ s) : σ.length = s.length := by
  induction σ generalizing s with
  | nil => cases s <;> simp_all [EnvIn]
  | cons a σ ih => cases s with
    | nil => simp [EnvIn] at h
    | cons v s => simp [EnvIn] at h; simp [ih h.2]

theorem alook_sound {σ : Env} {s : AEnv} (h : EnvIn σ s) (x : Nat) : (alook s x).mem (σ.getD x 0) := by
  induction σ generalizing s x with
  | nil => cases s with
    | nil => simp [alook]; exact const_mem 0
    | cons v s => simp [EnvIn] at h
  | cons a σ ih => cases s with
    | nil => simp [EnvIn] at h
    | cons v s =>
      simp [EnvIn] at h
      cases x with
      | zero => simp [alook]; exact h.1
      | succ x => simpa [alook] using ih h.2 x

theorem set_sound {σ : Env} {s : AEnv} (h : EnvIn σ s) (x : Nat) {v : AbsVal} {a : Int} (hv : v.mem a) :
    EnvIn (setVar σ x a) (s.set x v) := by
  unfold setVar
  induction σ generalizing s x with
  | nil => cases s with
    | nil => simp [EnvIn]
    | cons v s => simp [EnvIn] at h
  | cons b σ ih => cases s with
    | nil => simp [EnvIn] at h
    | cons w s =>
      simp [EnvIn] at h
      cases x with
      | zero => simp [EnvIn]; exact ⟨hv, h.2⟩
      | succ x => simp [EnvIn]; exact ⟨h.1, ih h.2 x⟩

theorem joinEnv_sound_l {σ : Env} {a b : AEnv} (h : EnvIn σ a) (hl : a.length = b.length) : EnvIn σ (joinEnv a b) := by
  induction σ generalizing a b with
  | nil => cases a with
    | nil => cases b <;> simp_all [joinEnv, EnvIn]
    | cons v a => simp [EnvIn] at h
  | cons x σ ih => cases a with
    | nil => simp [EnvIn] at h
    | cons v a => cases b with
      | nil => simp at hl
      | cons w b =>
        simp [EnvIn] at h
        simp at hl
        simp [joinEnv, EnvIn]
        exact ⟨trim_sound (join_sound_l h.1), ih h.2 hl⟩

theorem joinEnv_sound_r {σ : Env} {a b : AEnv} (h : EnvIn σ b) (hl : a.length = b.length) : EnvIn σ (joinEnv a b) := by
  induction σ generalizing a b with
  | nil => cases b with
    | nil => cases a <;> simp_all [joinEnv, EnvIn]
    | cons v a => simp [EnvIn] at h
  | cons x σ ih => cases b with
    | nil => simp [EnvIn] at h
    | cons w b => cases a with
      | nil => simp at hl
      | cons v a =>
        simp [EnvIn] at h
        simp at hl
        simp [joinEnv, EnvIn]
        exact ⟨trim_sound (join_sound_r h.1), ih h.2 hl⟩

theorem leqEnv_sound {σ : Env} {a b : AEnv} (hl : leqEnv a b = true) (h : EnvIn σ a) : EnvIn σ b := by
  induction σ generalizing a b with
  | nil => cases a with
    | nil => cases b <;> simp_all [leqEnv, EnvIn]
    | cons v a => simp [EnvIn] at h
  | cons x σ ih => cases a with
    | nil => simp [EnvIn] at h
    | cons v a => cases b with
      | nil => simp [leqEnv] at hl
      | cons w b =>
        simp [EnvIn] at h
        simp [leqEnv] at hl
        simp [EnvIn]
        exact ⟨leq_sound hl.1 h.1, ih hl.2 h.2⟩

def OEnvIn (σ : Env) : Option AEnv → Prop
  | none => False
  | some s => EnvIn σ s

theorem fixLen_id {n : Nat} {s : AEnv} (h : s.length = n) : fixLen n s = s := by
  unfold fixLen; simp [h]

theorem fixLen_length (n : Nat) (s : AEnv) : (fixLen n s).length = n := by
  unfold fixLen; split <;> simp_all

theorem ojoin_sound_l {σ : Env} {n : Nat} {a b : Option AEnv} (hn : σ.length = n) (h : OEnvIn σ a) : OEnvIn σ (ojoin n a b) := by
  cases a with
  | none => simp [OEnvIn] at h
  | some a =>
    cases b with
    | none => simpa [ojoin] using h
    | some b =>
      simp only [ojoin, OEnvIn] at h ⊢
      have hl : a.length = n := by rw [← envIn_length h, hn]
      rw [fixLen_id hl]
      exact joinEnv_sound_l h (by rw [hl, fixLen_length])

theorem ojoin_sound_r {σ : Env} {n : Nat} {a b : Option AEnv} (hn : σ.length = n) (h : OEnvIn σ b) : OEnvIn σ (ojoin n a b) := by
  cases b with
  | none => simp [OEnvIn] at h
  | some b =>
    cases a with
    | none => simpa [ojoin] using h
    | some a =>
      simp only [ojoin, OEnvIn] at h ⊢
      have hl : b.length = n := by rw [← envIn_length h, hn]
      rw [fixLen_id hl]
      exact joinEnv_sound_r h (by rw [hl, fixLen_length])

theorem oleq_sound {σ : Env} {o : Option AEnv} {inv : AEnv} (hl : oleq o inv = true) (h : OEnvIn σ o) : EnvIn σ inv := by
  cases o with
  | none => simp [OEnvIn] at h
  | some a => exact leqEnv_sound (by simpa [oleq] using hl) h

/-! ## expressions -/

/-- all events at the fact's occurrence satisfy the fact -/
def EvOk (φ : Fact) (evs : List Event) : Prop := ∀ ev ∈ evs, ev.1 = φ.occ → φ.holds ev.2

theorem evOk_nil (φ : Fact) : EvOk φ [] := by intro ev h; simp at h

theorem evOk_append {φ : Fact} {a b : List Event} (ha : EvOk φ a) (hb : EvOk φ b) : EvOk φ (a ++ b) := by
  intro ev h
  rcases List.mem_append.1 h with h | h
  · exact ha ev h
  · exact hb ev h

theorem factOk_sound {φ : Fact} {id : Nat} {v : AbsVal} {a : Int} (h : factOk φ id v = true) (hm : v.mem a) : EvOk φ [(id, a)] := by
  intro ev hev hocc
  simp at hev; subst hev
  unfold factOk at h
  simp at h
  rcases h with h | h
  · exact absurd hocc h
  · exact okOn_sound h hm

/-- soundness of a condition refinement: whenever `e` evaluates to a value with truth value `t`, the refined state exists and
    still describes the environment -/
def RefSound (c : Ctx) (ref : Expr → Bool → AEnv → Option AEnv) : Prop :=
  ∀ (e : Expr) (t : Bool) (σ : Env) (s : AEnv) (v : Int) (evs : List Event),
    σ.length = c.vars.length → EnvIn σ s → evalE c.P c.vars σ e = (some v, evs) → decide (v ≠ 0) = t →
    ∃ s', ref e t s = some s' ∧ EnvIn σ s'

theorem noRef_sound (c : Ctx) : RefSound c noRef := by
  intro e t σ s v evs _ h _ _
  exact ⟨s, rfl, h⟩

theorem checkEG_sound (c : Ctx) (ref : Expr → Bool → AEnv → Option AEnv) (href : RefSound c ref) (e : Expr) :
    ∀ (σ : Env) (s : AEnv) (ok : Bool) (va : AbsVal) (r : Option Int) (evs : List Event),
      σ.length = c.vars.length → EnvIn σ s → checkEG c ref s e = (ok, va) → evalE c.P c.vars σ e = (r, evs) →
      (ok = true → EvOk c.φ evs) ∧ (∀ v, r = some v → va.mem v) := by
  induction e with
  | lit v t =>
    intro σ s ok va r evs _ _ h1 h2
    simp [checkEG] at h1; simp [evalE] at h2
    obtain ⟨rfl, rfl⟩ := h1; obtain ⟨rfl, rfl⟩ := h2
    exact ⟨fun _ => evOk_nil _, fun v hv => by simp at hv; subst hv; exact const_mem _⟩
  | var x =>
    intro σ s ok va r evs _ hσ h1 h2
    simp [checkEG] at h1; simp [evalE] at h2
    obtain ⟨rfl, rfl⟩ := h1; obtain ⟨rfl, rfl⟩ := h2
    exact ⟨fun _ => evOk_nil _, fun v hv => by simp at hv; subst hv; exact alook_sound hσ x⟩
  | un op e ih =>
    intro σ s ok va r evs hn hσ h1 h2
    simp only [checkEG] at h1; simp only [evalE] at h2
    generalize hce : checkEG c ref s e = p at h1
    obtain ⟨ok1, a1⟩ := p
    generalize hev : evalE c.P c.vars σ e = q at h2
    obtain ⟨r1, ev1⟩ := q
    have := ih σ s ok1 a1 r1 ev1 hn hσ hce hev
    simp at h1; obtain ⟨rfl, rfl⟩ := h1
    cases r1 with
    | none => simp at h2; obtain ⟨rfl, rfl⟩ := h2; exact ⟨this.1, fun v hv => by simp at hv⟩
    | some a =>
      simp at h2; obtain ⟨rfl, rfl⟩ := h2
      exact ⟨this.1, fun v hv => absUn_sound (this.2 a rfl) hv⟩
  | bin op a b iha ihb =>
    intro σ s ok va r evs hn hσ h1 h2
    simp only [checkEG] at h1; simp only [evalE] at h2
    generalize hca : checkEG c ref s a = pa at h1
    obtain ⟨ok1, a1⟩ := pa
    generalize hcb : checkEG c ref s b = pb at h1
    obtain ⟨ok2, b1⟩ := pb
    generalize hea : evalE c.P c.vars σ a = qa at h2
    obtain ⟨ra, eva⟩ := qa
    have A := iha σ s ok1 a1 ra eva hn hσ hca hea
    simp at h1; obtain ⟨rfl, rfl⟩ := h1
    cases ra with
    | none => simp at h2; obtain ⟨rfl, rfl⟩ := h2
              exact ⟨fun h => A.1 (by simp at h; exact h.1), fun v hv => by simp at hv⟩
    | some x =>
      simp only [] at h2
      generalize heb : evalE c.P c.vars σ b = qb at h2
      obtain ⟨rb, evb⟩ := qb
      have B := ihb σ s ok2 b1 rb evb hn hσ hcb heb
      cases rb with
      | none => simp at h2; obtain ⟨rfl, rfl⟩ := h2
                exact ⟨fun h => by simp at h; exact evOk_append (A.1 h.1) (B.1 h.2), fun v hv => by simp at hv⟩
      | some y =>
        simp at h2; obtain ⟨rfl, rfl⟩ := h2
        exact ⟨fun h => by simp at h; exact evOk_append (A.1 h.1) (B.1 h.2),
               fun v hv => absBin_sound (A.2 x rfl) (B.2 y rfl) hv⟩
  | land a b iha ihb =>
    intro σ s ok va r evs hn hσ h1 h2
    simp only [checkEG] at h1; simp only [evalE] at h2
    generalize hca : checkEG c ref s a = pa at h1
    obtain ⟨ok1, a1⟩ := pa
    generalize hea : evalE c.P c.vars σ a = qa at h2
    obtain ⟨ra, eva⟩ := qa
    have A := iha σ s ok1 a1 ra eva hn hσ hca hea
    cases ra with
    | none =>
      simp at h2; obtain ⟨rfl, rfl⟩ := h2
      refine ⟨fun h => ?_, fun v hv => by simp at hv⟩
      simp only [] at h1
      split at h1
      · simp at h1; exact A.1 (by rw [h1.1]; exact h)
      · generalize checkEG c ref _ b = pb at h1
        obtain ⟨ok2, b1⟩ := pb
        simp at h1; exact A.1 (by have := h1.1; simp_all)
    | some x =>
      simp only [] at h2
      by_cases hx : x = 0
      · simp [hx] at h2; obtain ⟨rfl, rfl⟩ := h2
        subst hx
        simp only [] at h1
        split at h1
        · simp at h1; obtain ⟨rfl, rfl⟩ := h1
          exact ⟨A.1, fun v hv => by simp at hv; subst hv; exact const_mem 0⟩
        · rename_i st hst
          generalize hcb : checkEG c ref st b = pb at h1
          obtain ⟨ok2, b1⟩ := pb
          simp at h1; obtain ⟨rfl, rfl⟩ := h1
          refine ⟨fun h => A.1 (by simp at h; exact h.1), fun v hv => ?_⟩
          simp at hv; subst hv
          exact landVal_zero (A.2 0 rfl)
      · simp [hx] at h2
        obtain ⟨st, hst, hσ'⟩ := href a true σ s x eva hn hσ hea (by simp [hx])
        simp only [hst] at h1
        generalize hcb : checkEG c ref st b = pb at h1
        obtain ⟨ok2, b1⟩ := pb
        generalize heb : evalE c.P c.vars σ b = qb at h2
        obtain ⟨rb, evb⟩ := qb
        have B := ihb σ st ok2 b1 rb evb hn hσ' hcb heb
        simp at h1; obtain ⟨rfl, rfl⟩ := h1
        cases rb with
        | none => simp at h2; obtain ⟨rfl, rfl⟩ := h2
                  exact ⟨fun h => by simp at h; exact evOk_append (A.1 h.1) (B.1 h.2), fun v hv => by simp at hv⟩
        | some y =>
          simp at h2; obtain ⟨rfl, rfl⟩ := h2
          refine ⟨fun h => by simp at h; exact evOk_append (A.1 h.1) (B.1 h.2), fun v hv => ?_⟩
          simp at hv; subst hv
          have hh := landVal_sound (A.2 x rfl) (B.2 y rfl) hx
          unfold landVal at hh; simp only [ne_eq, decide_not] at hh; exact hh
  | lor a b iha ihb =>
    intro σ s ok va r evs hn hσ h1 h2
    simp only [checkEG] at h1; simp only [evalE] at h2
    generalize hca : checkEG c ref s a = pa at h1
    obtain ⟨ok1, a1⟩ := pa
    generalize hea : evalE c.P c.vars σ a = qa at h2
    obtain ⟨ra, eva⟩ := qa
    have A := iha σ s ok1 a1 ra eva hn hσ hca hea
    cases ra with
    | none =>
      simp at h2; obtain ⟨rfl, rfl⟩ := h2
      refine ⟨fun h => ?_, fun v hv => by simp at hv⟩
      simp only [] at h1
      split at h1
      · simp at h1; exact A.1 (by rw [h1.1]; exact h)
      · generalize checkEG c ref _ b = pb at h1
        obtain ⟨ok2, b1⟩ := pb
        simp at h1; exact A.1 (by have := h1.1; simp_all)
    | some x =>
      simp only [] at h2
      by_cases hx : x = 0
      · simp [hx] at h2
        subst hx
        obtain ⟨sf, hsf, hσ'⟩ := href a false σ s 0 eva hn hσ hea (by simp)
        simp only [hsf] at h1
        generalize hcb : checkEG c ref sf b = pb at h1
        obtain ⟨ok2, b1⟩ := pb
        generalize heb : evalE c.P c.vars σ b = qb at h2
        obtain ⟨rb, evb⟩ := qb
        have B := ihb σ sf ok2 b1 rb evb hn hσ' hcb heb
        simp at h1; obtain ⟨rfl, rfl⟩ := h1
        cases rb with
        | none => simp at h2; obtain ⟨rfl, rfl⟩ := h2
                  exact ⟨fun h => by simp at h; exact evOk_append (A.1 h.1) (B.1 h.2), fun v hv => by simp at hv⟩
        | some y =>
          simp at h2; obtain ⟨rfl, rfl⟩ := h2
          refine ⟨fun h => by simp at h; exact evOk_append (A.1 h.1) (B.1 h.2), fun v hv => ?_⟩
          simp at hv; subst hv
          have hh := lorVal_sound (A.2 0 rfl) (B.2 y rfl)
          unfold lorVal at hh; simp only [ne_eq, decide_not] at hh; exact hh
      · simp [hx] at h2; obtain ⟨rfl, rfl⟩ := h2
        simp only [] at h1
        split at h1
        · simp at h1; obtain ⟨rfl, rfl⟩ := h1
          exact ⟨A.1, fun v hv => by simp at hv; subst hv; exact const_mem 1⟩
        · rename_i sf hsf
          generalize hcb : checkEG c ref sf b = pb at h1
          obtain ⟨ok2, b1⟩ := pb
          simp at h1; obtain ⟨rfl, rfl⟩ := h1
          refine ⟨fun h => A.1 (by simp at h; exact h.1), fun v hv => ?_⟩
          simp at hv; subst hv
          exact lorVal_one (A.2 x rfl) hx
  | cast t e ih =>
    intro σ s ok va r evs hn hσ h1 h2
    simp only [checkEG] at h1; simp only [evalE] at h2
    generalize hce : checkEG c ref s e = p at h1
    obtain ⟨ok1, a1⟩ := p
    generalize hev : evalE c.P c.vars σ e = q at h2
    obtain ⟨r1, ev1⟩ := q
    have := ih σ s ok1 a1 r1 ev1 hn hσ hce hev
    simp at h1; obtain ⟨rfl, rfl⟩ := h1
    cases r1 with
    | none => simp at h2; obtain ⟨rfl, rfl⟩ := h2; exact ⟨this.1, fun v hv => by simp at hv⟩
    | some a =>
      simp at h2; obtain ⟨rfl, rfl⟩ := h2
      exact ⟨this.1, fun v hv => by simp at hv; subst hv; exact aconv_sound (this.2 a rfl)⟩
  | cond cnd a b ihc iha ihb =>
    intro σ s ok va r evs hn hσ h1 h2
    simp only [checkEG] at h1; simp only [evalE] at h2
    generalize hcc : checkEG c ref s cnd = pc at h1
    obtain ⟨ok0, c1⟩ := pc
    generalize hec : evalE c.P c.vars σ cnd = qc at h2
    obtain ⟨rc, evc⟩ := qc
    have C := ihc σ s ok0 c1 rc evc hn hσ hcc hec
    simp only [] at h1
    cases rc with
    | none =>
      simp at h2; obtain ⟨rfl, rfl⟩ := h2
      refine ⟨fun h => C.1 ?_, fun v hv => by simp at hv⟩
      split at h1
      · generalize checkEG c ref _ a = pa at h1; obtain ⟨ok1, a1⟩ := pa
        generalize checkEG c ref _ b = pb at h1; obtain ⟨ok2, b1⟩ := pb
        simp at h1; have := h1.1; simp_all
      · generalize checkEG c ref _ a = pa at h1; obtain ⟨ok1, a1⟩ := pa
        simp at h1; have := h1.1; simp_all
      · generalize checkEG c ref _ b = pb at h1; obtain ⟨ok2, b1⟩ := pb
        simp at h1; have := h1.1; simp_all
      · simp at h1; have := h1.1; simp_all
    | some vc =>
      simp only [] at h2
      by_cases hvc : vc = 0
      · -- the else operand is evaluated
        simp [hvc] at h2
        subst hvc
        obtain ⟨sf, hsf, hσ'⟩ := href cnd false σ s 0 evc hn hσ hec (by simp)
        generalize heb : evalE c.P c.vars σ b = qb at h2
        obtain ⟨rb, evb⟩ := qb
        rw [hsf] at h1
        split at h1
        · rename_i st sf' hst hsf'
          simp at hsf'; subst hsf'
          generalize hca : checkEG c ref st a = pa at h1; obtain ⟨ok1, a1⟩ := pa
          generalize hcb : checkEG c ref sf b = pb at h1; obtain ⟨ok2, b1⟩ := pb
          have B := ihb σ sf ok2 b1 rb evb hn hσ' hcb heb
          simp at h1; obtain ⟨rfl, rfl⟩ := h1
          cases rb with
          | none => simp at h2; obtain ⟨rfl, rfl⟩ := h2
                    exact ⟨fun h => by simp at h; exact evOk_append (C.1 h.1.1) (B.1 h.2), fun v hv => by simp at hv⟩
          | some y =>
            simp at h2; obtain ⟨rfl, rfl⟩ := h2
            exact ⟨fun h => by simp at h; exact evOk_append (C.1 h.1.1) (B.1 h.2),
                   fun v hv => by simp at hv; subst hv; exact join_sound_r (aconv_sound (B.2 y rfl))⟩
        · rename_i hnf; simp at hnf
        · rename_i sf' hnt hsf'
          simp at hsf'; subst hsf'
          generalize hcb : checkEG c ref sf b = pb at h1; obtain ⟨ok2, b1⟩ := pb
          have B := ihb σ sf ok2 b1 rb evb hn hσ' hcb heb
          simp at h1; obtain ⟨rfl, rfl⟩ := h1
          cases rb with
          | none => simp at h2; obtain ⟨rfl, rfl⟩ := h2
                    exact ⟨fun h => by simp at h; exact evOk_append (C.1 h.1) (B.1 h.2), fun v hv => by simp at hv⟩
          | some y =>
            simp at h2; obtain ⟨rfl, rfl⟩ := h2
            exact ⟨fun h => by simp at h; exact evOk_append (C.1 h.1) (B.1 h.2),
                   fun v hv => by simp at hv; subst hv; exact aconv_sound (B.2 y rfl)⟩
        · rename_i hnf; simp at hnf
      · simp [hvc] at h2
        obtain ⟨st, hst, hσ'⟩ := href cnd true σ s vc evc hn hσ hec (by simp [hvc])
        generalize hea : evalE c.P c.vars σ a = qa at h2
        obtain ⟨ra, eva⟩ := qa
        rw [hst] at h1
        split at h1
        · rename_i st' sf hst' hsf
          simp at hst'; subst hst'
          generalize hca : checkEG c ref st a = pa at h1; obtain ⟨ok1, a1⟩ := pa
          generalize hcb : checkEG c ref sf b = pb at h1; obtain ⟨ok2, b1⟩ := pb
          have A := iha σ st ok1 a1 ra eva hn hσ' hca hea
          simp at h1; obtain ⟨rfl, rfl⟩ := h1
          cases ra with
          | none => simp at h2; obtain ⟨rfl, rfl⟩ := h2
                    exact ⟨fun h => by simp at h; exact evOk_append (C.1 h.1.1) (A.1 h.1.2), fun v hv => by simp at hv⟩
          | some x =>
            simp at h2; obtain ⟨rfl, rfl⟩ := h2
            exact ⟨fun h => by simp at h; exact evOk_append (C.1 h.1.1) (A.1 h.1.2),
                   fun v hv => by simp at hv; subst hv; exact join_sound_l (aconv_sound (A.2 x rfl))⟩
        · rename_i st' hst' hnf
          simp at hst'; subst hst'
          generalize hca : checkEG c ref st a = pa at h1; obtain ⟨ok1, a1⟩ := pa
          have A := iha σ st ok1 a1 ra eva hn hσ' hca hea
          simp at h1; obtain ⟨rfl, rfl⟩ := h1
          cases ra with
          | none => simp at h2; obtain ⟨rfl, rfl⟩ := h2
                    exact ⟨fun h => by simp at h; exact evOk_append (C.1 h.1) (A.1 h.2), fun v hv => by simp at hv⟩
          | some x =>
            simp at h2; obtain ⟨rfl, rfl⟩ := h2
            exact ⟨fun h => by simp at h; exact evOk_append (C.1 h.1) (A.1 h.2),
                   fun v hv => by simp at hv; subst hv; exact aconv_sound (A.2 x rfl)⟩
        · rename_i heq _; simp at heq
        · rename_i heq _; simp at heq
  | tag id e ih =>
    intro σ s ok va r evs hn hσ h1 h2
    simp only [checkEG] at h1; simp only [evalE] at h2
    generalize hce : checkEG c ref s e = p at h1
    obtain ⟨ok1, a1⟩ := p
    generalize hev : evalE c.P c.vars σ e = q at h2
    obtain ⟨r1, ev1⟩ := q
    have := ih σ s ok1 a1 r1 ev1 hn hσ hce hev
    simp at h1; obtain ⟨rfl, rfl⟩ := h1
    cases r1 with
    | none => simp at h2; obtain ⟨rfl, rfl⟩ := h2; exact ⟨fun h => this.1 (by simp at h; exact h.1), fun v hv => by simp at hv⟩
    | some a =>
      simp at h2; obtain ⟨rfl, rfl⟩ := h2
      exact ⟨fun h => by simp at h; exact evOk_append (this.1 h.1) (factOk_sound h.2 (this.2 a rfl)),
             fun v hv => by simp at hv; subst hv; exact this.2 a rfl⟩

/-! ## condition refinement -/

theorem absE0_sound (c : Ctx) {σ : Env} {s : AEnv} {e : Expr} {v : Int} {evs : List Event}
    (hn : σ.length = c.vars.length) (hσ : EnvIn σ s) (h : evalE c.P c.vars σ e = (some v, evs)) : (absE0 c s e).mem v := by
  unfold absE0
  generalize hc : checkEG c noRef s e = p
  obtain ⟨ok, va⟩ := p
  exact (checkEG_sound c noRef (noRef_sound c) e σ s ok va (some v) evs hn hσ hc h).2 v rfl

theorem evalE_tag {P : Platform} {vars : List Ty} {σ : Env} {id : Nat} {e : Expr} {v : Int} {evs : List Event}
    (h : evalE P vars σ (.tag id e) = (some v, evs)) : ∃ evs', evalE P vars σ e = (some v, evs') := by
  simp only [evalE] at h
  generalize evalE P vars σ e = q at h
  obtain ⟨r, ev⟩ := q
  cases r with
  | none => simp at h
  | some a => simp at h; exact ⟨ev, by rw [h.1]⟩

theorem stripTags_var {P : Platform} {vars : List Ty} {σ : Env} (e : Expr) {x : Nat} {v : Int} {evs : List Event}
    (hs : stripTags e = .var x) (h : evalE P vars σ e = (some v, evs)) : v = σ.getD x 0 := by
  induction e generalizing evs with
  | tag id e ih =>
    simp only [stripTags] at hs
    obtain ⟨evs', h'⟩ := evalE_tag h
    exact ih hs h'
  | var y => simp [stripTags] at hs; subst hs; simp [evalE] at h; exact h.1.symm
  | _ => simp [stripTags] at hs

theorem envIn_set_same {σ : Env} {s : AEnv} (h : EnvIn σ s) (x : Nat) {v : AbsVal} (hv : v.mem (σ.getD x 0)) :
    EnvIn σ (s.set x v) := by
  induction σ generalizing s x with
  | nil => cases s with
    | nil => simp [EnvIn]
    | cons w s => simp [EnvIn] at h
  | cons b σ ih => cases s with
    | nil => simp [EnvIn] at h
    | cons w s =>
      simp [EnvIn] at h
      cases x with
      | zero => simp at hv; simp [EnvIn]; exact ⟨hv, h.2⟩
      | succ x => simp at hv; simp [EnvIn]; exact ⟨h.1, ih h.2 x hv⟩

theorem setIfVar_sound {P : Platform} {vars : List Ty} {σ : Env} {s : AEnv} {e : Expr} {f : AbsVal → AbsVal} {v : Int} {evs : List Event}
    (hσ : EnvIn σ s) (he : evalE P vars σ e = (some v, evs)) (hf : ∀ w : AbsVal, w.mem v → (f w).mem v) : EnvIn σ (setIfVar s e f) := by
  unfold setIfVar
  split
  · rename_i x hx
    split
    · have e1 := stripTags_var e hx he
      apply envIn_set_same hσ
      rw [← e1]; apply hf; rw [e1]; exact alook_sound hσ x
    · exact hσ
  · exact hσ

/-- mathematical meaning of a comparison operator -/
def cmpHolds (op : BinOp) (x y : Int) : Prop :=
  match op with
  | .lt => x < y | .le => x ≤ y | .gt => x > y | .ge => x ≥ y | .eq => x = y | .ne => x ≠ y | _ => True

theorem refineBy_sound {op : BinOp} {vx vb : AbsVal} {x y : Int} (hx : vx.mem x) (hy : vb.mem y) (h : cmpHolds op x y) :
    (refineBy op vx vb).mem x := by
  have hy' := hy
  unfold AbsVal.mem at hy'
  unfold refineBy
  cases op <;> simp only [cmpHolds] at h ⊢
  case lt => exact meetHi_sound hx (by omega)
  case le => exact meetHi_sound hx (by omega)
  case gt => exact meetLo_sound hx (by omega)
  case ge => exact meetLo_sound hx (by omega)
  case eq => exact meetHi_sound (meetLo_sound hx (by omega)) (by omega)
  case ne =>
    split
    · rename_i c hc
      have := isConst_sound hc hy
      exact remove_sound hx (by omega)
    · exact hx
  all_goals exact hx

theorem cmpHolds_swap {op : BinOp} {x y : Int} (h : cmpHolds op x y) : cmpHolds (swapCmp op) y x := by
  cases op <;> simp only [cmpHolds, swapCmp] at h ⊢ <;> omega

theorem acmp_false_not {op : BinOp} {a b : AbsVal} {x y : Int} (hc : op.isCmp = true) (h : acmp op a b = some false)
    (ha : a.mem x) (hb : b.mem y) : ¬ cmpHolds op x y := by
  have := acmp_sound h ha hb
  cases op <;> simp [BinOp.isCmp] at hc <;> simp only [cmpHolds] <;> simp_all <;> omega

theorem refineCmp_sound (c : Ctx) {op : BinOp} {a b : Expr} {σ : Env} {s : AEnv} {va vb : Int} {eva evb : List Event}
    (hc : op.isCmp = true) (hn : σ.length = c.vars.length) (hσ : EnvIn σ s)
    (hea : evalE c.P c.vars σ a = (some va, eva)) (heb : evalE c.P c.vars σ b = (some vb, evb))
    (h : cmpHolds op (conv c.P (uac c.P (tyOf c.P c.vars a) (tyOf c.P c.vars b)) va)
                     (conv c.P (uac c.P (tyOf c.P c.vars a) (tyOf c.P c.vars b)) vb)) :
    ∃ s', refineCmp c op a b s = some s' ∧ EnvIn σ s' := by
  unfold refineCmp
  simp only []
  have ma := absE0_sound c hn hσ hea
  have mb := absE0_sound c hn hσ heb
  split
  · rename_i hf
    simp [fits] at hf
    have ia : inTy c.P (uac c.P (tyOf c.P c.vars a) (tyOf c.P c.vars b)) va := by
      unfold inTy; unfold AbsVal.mem at ma; omega
    have ib : inTy c.P (uac c.P (tyOf c.P c.vars a) (tyOf c.P c.vars b)) vb := by
      unfold inTy; unfold AbsVal.mem at mb; omega
    rw [conv_id ia, conv_id ib] at h
    split
    · rename_i hfalse
      exact absurd h (acmp_false_not hc hfalse ma mb)
    · refine ⟨_, rfl, ?_⟩
      apply setIfVar_sound (setIfVar_sound hσ hea (fun w hw => refineBy_sound hw mb h)) heb
      intro w hw
      exact refineBy_sound hw ma (cmpHolds_swap h)
  · exact ⟨s, rfl, hσ⟩

theorem generic_assume (c : Ctx) {e : Expr} {t : Bool} {σ : Env} {s : AEnv} {v : Int} {evs : List Event}
    (hn : σ.length = c.vars.length) (hσ : EnvIn σ s) (he : evalE c.P c.vars σ e = (some v, evs)) (ht : decide (v ≠ 0) = t) :
    ∃ s', (match atruth (absE0 c s e), t with
           | some true, false => none
           | some false, true => none
           | _, _ => some s) = some s' ∧ EnvIn σ s' := by
  have m := absE0_sound c hn hσ he
  cases h1 : atruth (absE0 c s e) with
  | none => exact ⟨s, by simp, hσ⟩
  | some b =>
    have := atruth_sound h1 m
    rw [ht] at this; subst this
    cases b <;> exact ⟨s, by simp, hσ⟩

theorem evalE_land {P : Platform} {vars : List Ty} {σ : Env} {a b : Expr} {v : Int} {evs : List Event}
    (h : evalE P vars σ (.land a b) = (some v, evs)) :
    ∃ va eva, evalE P vars σ a = (some va, eva) ∧
      ((va = 0 ∧ v = 0) ∨ (va ≠ 0 ∧ ∃ vb evb, evalE P vars σ b = (some vb, evb) ∧ v = MiniC.b2i (decide (vb ≠ 0)))) := by
  simp only [evalE] at h
  generalize hea : evalE P vars σ a = qa at h
  obtain ⟨ra, eva⟩ := qa
  cases ra with
  | none => simp at h
  | some va =>
    refine ⟨va, eva, rfl, ?_⟩
    simp only [] at h
    by_cases h0 : va = 0
    · simp [h0] at h; exact Or.inl ⟨h0, h.1.symm⟩
    · simp [h0] at h
      generalize heb : evalE P vars σ b = qb at h
      obtain ⟨rb, evb⟩ := qb
      cases rb with
      | none => simp at h
      | some vb => simp at h; exact Or.inr ⟨h0, vb, evb, rfl, by rw [← h.1]; simp⟩

theorem evalE_lor {P : Platform} {vars : List Ty} {σ : Env} {a b : Expr} {v : Int} {evs : List Event}
    (h : evalE P vars σ (.lor a b) = (some v, evs)) :
    ∃ va eva, evalE P vars σ a = (some va, eva) ∧
      ((va ≠ 0 ∧ v = 1) ∨ (va = 0 ∧ ∃ vb evb, evalE P vars σ b = (some vb, evb) ∧ v = MiniC.b2i (decide (vb ≠ 0)))) := by
  simp only [evalE] at h
  generalize hea : evalE P vars σ a = qa at h
  obtain ⟨ra, eva⟩ := qa
  cases ra with
  | none => simp at h
  | some va =>
    refine ⟨va, eva, rfl, ?_⟩
    simp only [] at h
    by_cases h0 : va = 0
    · simp [h0] at h
      generalize heb : evalE P vars σ b = qb at h
      obtain ⟨rb, evb⟩ := qb
      cases rb with
      | none => simp at h
      | some vb => simp at h; exact Or.inr ⟨h0, vb, evb, rfl, by rw [← h.1]; simp⟩
    · simp [h0] at h; exact Or.inl ⟨h0, h.1.symm⟩

theorem b2i_ne_zero (b : Bool) : (MiniC.b2i b ≠ 0) ↔ b = true := by
  cases b <;> simp [MiniC.b2i]

theorem truth_b2i {b t : Bool} (h : decide (MiniC.b2i b ≠ 0) = t) : b = t := by
  cases b <;> cases t <;> simp [MiniC.b2i] at h ⊢

theorem cmpB_true {op : BinOp} {x y : Int} (hc : op.isCmp = true) (h : cmpB op x y = true) : cmpHolds op x y := by
  cases op <;> simp [BinOp.isCmp] at hc <;> simp [cmpB] at h <;> simp [cmpHolds] <;> omega

theorem cmpB_false {op : BinOp} {x y : Int} (hc : op.isCmp = true) (h : cmpB op x y = false) : cmpHolds (negCmp op) x y := by
  cases op <;> simp [BinOp.isCmp] at hc <;> simp [cmpB] at h <;> simp [cmpHolds, negCmp] <;> omega

theorem assume_sound (c : Ctx) : RefSound c (assume c) := by
  intro e
  induction e with
  | tag id e ih =>
    intro t σ s v evs hn hσ he ht
    obtain ⟨evs', he'⟩ := evalE_tag he
    simp only [assume]
    exact ih t σ s v evs' hn hσ he' ht
  | un op e ih =>
    intro t σ s v evs hn hσ he ht
    cases op with
    | lnot =>
      simp only [assume]
      simp only [evalE] at he
      generalize hee : evalE c.P c.vars σ e = q at he
      obtain ⟨r, ev⟩ := q
      cases r with
      | none => simp at he
      | some a =>
        simp [evalUn] at he
        apply ih (!t) σ s a ev hn hσ hee
        rw [← ht, ← he.1]
        by_cases ha : a = 0 <;> simp [ha, MiniC.b2i]
    | neg => simp only [assume]; exact generic_assume c hn hσ he ht
    | compl => simp only [assume]; exact generic_assume c hn hσ he ht
  | land a b iha ihb =>
    intro t σ s v evs hn hσ he ht
    obtain ⟨va, eva, hea, hcase⟩ := evalE_land he
    cases t with
    | true =>
      simp only [assume]
      rcases hcase with ⟨_, hv⟩ | ⟨ha0, vb, evb, heb, hv⟩
      · subst hv; simp at ht
      · obtain ⟨s1, hs1, hσ1⟩ := iha true σ s va eva hn hσ hea (by simp [ha0])
        rw [hs1]
        apply ihb true σ s1 vb evb hn hσ1 heb
        rw [hv] at ht
        exact truth_b2i ht
    | false =>
      simp only [assume]
      rcases hcase with ⟨ha0, _⟩ | ⟨ha0, vb, evb, heb, hv⟩
      · obtain ⟨s1, hs1, hσ1⟩ := iha false σ s va eva hn hσ hea (by simp [ha0])
        have : OEnvIn σ (assume c a false s) := by rw [hs1]; exact hσ1
        have := ojoin_sound_l (b := (match assume c a true s with | none => none | some s1 => assume c b false s1)) hn this
        generalize ojoin c.vars.length _ _ = o at this
        cases o with
        | none => simp [OEnvIn] at this
        | some s' => exact ⟨s', rfl, this⟩
      · obtain ⟨s1, hs1, hσ1⟩ := iha true σ s va eva hn hσ hea (by simp [ha0])
        have hvb : decide (vb ≠ 0) = false := by
          rw [hv] at ht; exact truth_b2i ht
        obtain ⟨s2, hs2, hσ2⟩ := ihb false σ s1 vb evb hn hσ1 heb hvb
        have : OEnvIn σ (match assume c a true s with | none => none | some s1 => assume c b false s1) := by
          rw [hs1]; simp only []; rw [hs2]; exact hσ2
        have := ojoin_sound_r (a := assume c a false s) hn this
        generalize ojoin c.vars.length _ _ = o at this
        cases o with
        | none => simp [OEnvIn] at this
        | some s' => exact ⟨s', rfl, this⟩
  | lor a b iha ihb =>
    intro t σ s v evs hn hσ he ht
    obtain ⟨va, eva, hea, hcase⟩ := evalE_lor he
    cases t with
    | false =>
      simp only [assume]
      rcases hcase with ⟨_, hv⟩ | ⟨ha0, vb, evb, heb, hv⟩
      · subst hv; simp at ht
      · obtain ⟨s1, hs1, hσ1⟩ := iha false σ s va eva hn hσ hea (by simp [ha0])
        rw [hs1]
        apply ihb false σ s1 vb evb hn hσ1 heb
        rw [hv] at ht
        exact truth_b2i ht
    | true =>
      simp only [assume]
      rcases hcase with ⟨ha0, _⟩ | ⟨ha0, vb, evb, heb, hv⟩
      · obtain ⟨s1, hs1, hσ1⟩ := iha true σ s va eva hn hσ hea (by simp [ha0])
        have : OEnvIn σ (assume c a true s) := by rw [hs1]; exact hσ1
        have := ojoin_sound_l (b := (match assume c a false s with | none => none | some s1 => assume c b true s1)) hn this
        generalize ojoin c.vars.length _ _ = o at this
        cases o with
        | none => simp [OEnvIn] at this
        | some s' => exact ⟨s', rfl, this⟩
      · obtain ⟨s1, hs1, hσ1⟩ := iha false σ s va eva hn hσ hea (by simp [ha0])
        have hvb : decide (vb ≠ 0) = true := by
          rw [hv] at ht; exact truth_b2i ht
        obtain ⟨s2, hs2, hσ2⟩ := ihb true σ s1 vb evb hn hσ1 heb hvb
        have : OEnvIn σ (match assume c a false s with | none => none | some s1 => assume c b true s1) := by
          rw [hs1]; simp only []; rw [hs2]; exact hσ2
        have := ojoin_sound_r (a := assume c a true s) hn this
        generalize ojoin c.vars.length _ _ = o at this
        cases o with
        | none => simp [OEnvIn] at this
        | some s' => exact ⟨s', rfl, this⟩
  | bin op a b _ _ =>
    intro t σ s v evs hn hσ he ht
    simp only [assume]
    split
    · rename_i hc
      have he' := he
      simp only [evalE] at he'
      generalize hea : evalE c.P c.vars σ a = qa at he'
      obtain ⟨ra, eva⟩ := qa
      cases ra with
      | none => simp at he'
      | some va =>
        simp only [] at he'
        generalize heb : evalE c.P c.vars σ b = qb at he'
        obtain ⟨rb, evb⟩ := qb
        cases rb with
        | none => simp at he'
        | some vb =>
          simp only [] at he'
          rw [evalBin_cmp hc] at he'
          simp at he'
          obtain ⟨hv, _⟩ := he'
          subst hv
          have hb := truth_b2i ht
          cases t with
          | true => simp only [if_true]; exact refineCmp_sound c hc hn hσ hea heb (cmpB_true hc hb)
          | false =>
            simp only [Bool.false_eq_true, if_false]
            have hcn : (negCmp op).isCmp = true := by cases op <;> simp_all [negCmp, BinOp.isCmp]
            exact refineCmp_sound c hcn hn hσ hea heb (cmpB_false hc hb)
    · exact generic_assume c hn hσ he ht
  | var x =>
    intro t σ s v evs hn hσ he ht
    simp only [assume]
    simp only [evalE, Prod.mk.injEq, Option.some.injEq] at he
    obtain ⟨hv, _⟩ := he
    subst hv
    have m := alook_sound hσ x
    have key : x < s.length → EnvIn σ (s.set x (if t = true then (alook s x).remove 0 else ((alook s x).meetLo 0).meetHi 0)) := by
      intro _
      apply envIn_set_same hσ
      cases t with
      | true => simp at ht; simp; exact remove_sound m ht
      | false => simp at ht; simp; exact meetHi_sound (meetLo_sound m (by omega)) (by omega)
    cases h1 : atruth (alook s x) with
    | none =>
      simp only []
      split
      · rename_i hlt; exact ⟨_, rfl, key hlt⟩
      · exact ⟨s, rfl, hσ⟩
    | some b =>
      have := atruth_sound h1 m
      rw [ht] at this; subst this
      cases b <;> simp only []
      · split
        · rename_i hlt; exact ⟨_, rfl, key hlt⟩
        · exact ⟨s, rfl, hσ⟩
      · split
        · rename_i hlt; exact ⟨_, rfl, key hlt⟩
        · exact ⟨s, rfl, hσ⟩
  | lit v t0 =>
    intro t σ s v evs hn hσ he ht
    simp only [assume]; exact generic_assume c hn hσ he ht
  | cast t0 e _ =>
    intro t σ s v evs hn hσ he ht
    simp only [assume]; exact generic_assume c hn hσ he ht
  | cond cnd a b _ _ _ =>
    intro t σ s v evs hn hσ he ht
    simp only [assume]; exact generic_assume c hn hσ he ht

/-! ## statements -/

theorem checkE_sound (c : Ctx) {σ : Env} {s : AEnv} {e : Expr} {ok : Bool} {va : AbsVal} {r : Option Int} {evs : List Event}
    (hn : σ.length = c.vars.length) (hσ : EnvIn σ s) (h1 : checkE c s e = (ok, va)) (h2 : evalE c.P c.vars σ e = (r, evs)) :
    (ok = true → EvOk c.φ evs) ∧ (∀ v, r = some v → va.mem v) :=
  checkEG_sound c (assume c) (assume_sound c) e σ s ok va r evs hn hσ h1 h2

/-- the concrete outcome is described by the abstract one; environments keep their length -/
def OutIn (n : Nat) (o : Out) (a : AOut) : Prop :=
  match o with
  | .normal e => OEnvIn e a.normal ∧ e.length = n
  | .brk e => OEnvIn e a.brk ∧ e.length = n
  | .cont e => OEnvIn e a.cont ∧ e.length = n
  | _ => True

def StmtSound (c : Ctx) (k : Nat) : Prop :=
  ∀ (st : Stmt) (σ : Env) (s : AEnv) (out : AOut) (o : Out) (evs : List Event),
    σ.length = c.vars.length → EnvIn σ s → checkS c st s = (true, out) → execS c.P c.vars k σ st = (o, evs) →
    EvOk c.φ evs ∧ OutIn c.vars.length o out

theorem setVar_length (σ : Env) (x : Nat) (v : Int) : (setVar σ x v).length = σ.length := by
  simp [setVar]

theorem loop_sound (c : Ctx) (K : Nat) (cnd : Expr) (body : Stmt) (inv : AEnv) (va : AbsVal) (ob : AOut)
    (hcnd : checkE c inv cnd = (true, va))
    (hbody : ∀ st', assume c cnd true inv = some st' →
      ∃ ob', checkS c body st' = (true, ob') ∧ oleq ob'.normal inv = true ∧ oleq ob'.cont inv = true ∧ ob'.brk = ob.brk)
    (ih : ∀ k, k < K → StmtSound c k) :
    ∀ k, k ≤ K → ∀ (σ : Env) (o : Out) (evs : List Event), σ.length = c.vars.length → EnvIn σ inv →
      execS c.P c.vars k σ (.while cnd body) = (o, evs) →
      EvOk c.φ evs ∧ OutIn c.vars.length o ⟨ojoin c.vars.length (assume c cnd false inv) ob.brk, none, none⟩ := by
  intro k
  induction k with
  | zero =>
    intro _ σ o evs _ _ h
    simp [execS] at h
    obtain ⟨rfl, rfl⟩ := h
    exact ⟨evOk_nil _, by simp [OutIn]⟩
  | succ k ihk =>
    intro hk σ o evs hn hσ h
    simp only [execS] at h
    generalize hec : evalE c.P c.vars σ cnd = q at h
    obtain ⟨rc, evc⟩ := q
    have C := checkE_sound c hn hσ hcnd hec
    cases rc with
    | none =>
      simp at h; obtain ⟨rfl, rfl⟩ := h
      exact ⟨C.1 rfl, by simp [OutIn]⟩
    | some vc =>
      simp only [] at h
      by_cases hvc : vc = 0
      · simp [hvc] at h; obtain ⟨rfl, rfl⟩ := h
        subst hvc
        obtain ⟨sf, hsf, hσf⟩ := assume_sound c cnd false σ inv 0 evc hn hσ hec (by simp)
        refine ⟨C.1 rfl, ?_⟩
        simp only [OutIn]
        exact ⟨ojoin_sound_l hn (by rw [hsf]; exact hσf), hn⟩
      · simp [hvc] at h
        obtain ⟨st', hst, hσt⟩ := assume_sound c cnd true σ inv vc evc hn hσ hec (by simp [hvc])
        obtain ⟨ob', hcb, hl1, hl2, hbrk⟩ := hbody st' hst
        generalize heb : execS c.P c.vars k σ body = qb at h
        obtain ⟨o1, ev1⟩ := qb
        have B := ih k (by omega) body σ st' ob' o1 ev1 hn hσt hcb heb
        cases o1 with
        | normal env' =>
          simp only [] at h
          generalize hew : execS c.P c.vars k env' (.while cnd body) = qw at h
          obtain ⟨o2, ev2⟩ := qw
          simp at h; obtain ⟨rfl, rfl⟩ := h
          have hin := B.2; simp only [OutIn] at hin
          have W := ihk (by omega) env' o2 ev2 hin.2 (oleq_sound hl1 hin.1) hew
          exact ⟨evOk_append (C.1 rfl) (evOk_append B.1 W.1), W.2⟩
        | cont env' =>
          simp only [] at h
          generalize hew : execS c.P c.vars k env' (.while cnd body) = qw at h
          obtain ⟨o2, ev2⟩ := qw
          simp at h; obtain ⟨rfl, rfl⟩ := h
          have hin := B.2; simp only [OutIn] at hin
          have W := ihk (by omega) env' o2 ev2 hin.2 (oleq_sound hl2 hin.1) hew
          exact ⟨evOk_append (C.1 rfl) (evOk_append B.1 W.1), W.2⟩
        | brk env' =>
          simp at h; obtain ⟨rfl, rfl⟩ := h
          have hin := B.2; simp only [OutIn] at hin
          refine ⟨evOk_append (C.1 rfl) B.1, ?_⟩
          simp only [OutIn]
          exact ⟨ojoin_sound_r hin.2 (by rw [← hbrk]; exact hin.1), hin.2⟩
        | ret => simp at h; obtain ⟨rfl, rfl⟩ := h; exact ⟨evOk_append (C.1 rfl) B.1, by simp [OutIn]⟩
        | ub => simp at h; obtain ⟨rfl, rfl⟩ := h; exact ⟨evOk_append (C.1 rfl) B.1, by simp [OutIn]⟩
        | timeout => simp at h; obtain ⟨rfl, rfl⟩ := h; exact ⟨evOk_append (C.1 rfl) B.1, by simp [OutIn]⟩

theorem ojoin_none_r (n : Nat) (a : Option AEnv) : ojoin n a none = a := by
  cases a <;> rfl

theorem assign_out {c : Ctx} {σ : Env} {s : AEnv} {x : Nat} {va : AbsVal} {v : Int} (hn : σ.length = c.vars.length) (hσ : EnvIn σ s)
    (hv : va.mem v) :
    OutIn c.vars.length (.normal (setVar σ x v)) ⟨if va.isEmpty then none else some (s.set x va), none, none⟩ := by
  simp only [OutIn]
  split
  · rename_i he; exact absurd hv (fun h => isEmpty_sound he h)
  · exact ⟨set_sound hσ x hv, by rw [setVar_length]; exact hn⟩

theorem stmt_sound (c : Ctx) : ∀ k, StmtSound c k := by
  intro k
  induction k using Nat.strongRecOn with
  | _ k ih =>
  cases k with
  | zero =>
    intro st σ s out o evs _ _ _ h
    simp [execS] at h; obtain ⟨rfl, rfl⟩ := h
    exact ⟨evOk_nil _, by simp [OutIn]⟩
  | succ k =>
    intro st σ s out o evs hn hσ hc h
    have IH := ih k (by omega)
    cases st with
    | skip =>
      simp [checkS] at hc; simp [execS] at h
      obtain ⟨rfl, rfl⟩ := h; subst hc
      exact ⟨evOk_nil _, by simp only [OutIn]; exact ⟨hσ, hn⟩⟩
    | assign id x e =>
      simp only [checkS] at hc; simp only [execS] at h
      generalize hce : checkE c s e = p at hc
      obtain ⟨ok, va⟩ := p
      generalize hee : evalE c.P c.vars σ e = q at h
      obtain ⟨r, ev⟩ := q
      have E := checkE_sound c hn hσ hce hee
      simp at hc
      obtain ⟨⟨hok, hf⟩, rfl⟩ := hc
      cases r with
      | none => simp at h; obtain ⟨rfl, rfl⟩ := h; exact ⟨E.1 hok, by simp [OutIn]⟩
      | some v =>
        simp at h; obtain ⟨rfl, rfl⟩ := h
        have hv := aconv_sound (P := c.P) (t := varTy c.vars x) (E.2 v rfl)
        exact ⟨evOk_append (E.1 hok) (factOk_sound hf hv), assign_out hn hσ hv⟩
    | compound id op x e =>
      simp only [checkS] at hc; simp only [execS] at h
      generalize hce : checkE c s e = p at hc
      obtain ⟨ok, va⟩ := p
      generalize hee : evalE c.P c.vars σ e = q at h
      obtain ⟨r, ev⟩ := q
      have E := checkE_sound c hn hσ hce hee
      simp at hc
      obtain ⟨⟨hok, hf⟩, rfl⟩ := hc
      cases r with
      | none => simp at h; obtain ⟨rfl, rfl⟩ := h; exact ⟨E.1 hok, by simp [OutIn]⟩
      | some v =>
        simp only [] at h
        generalize heb : evalBin c.P op (varTy c.vars x) (tyOf c.P c.vars e) (σ.getD x 0) v = rb at h
        cases rb with
        | none => simp at h; obtain ⟨rfl, rfl⟩ := h; exact ⟨E.1 hok, by simp [OutIn]⟩
        | some r =>
          simp at h; obtain ⟨rfl, rfl⟩ := h
          have hr := absBin_sound (alook_sound hσ x) (E.2 v rfl) heb
          have hv := aconv_sound (P := c.P) (t := varTy c.vars x) hr
          exact ⟨evOk_append (E.1 hok) (factOk_sound hf hv), assign_out hn hσ hv⟩
    | incdec id inc pre x =>
      simp only [checkS] at hc; simp only [execS] at h
      simp at hc
      obtain ⟨hf, rfl⟩ := hc
      generalize heb : evalBin c.P (if inc = true then BinOp.add else BinOp.sub) (varTy c.vars x) tInt (σ.getD x 0) 1 = rb at h
      cases rb with
      | none => simp at h; obtain ⟨rfl, rfl⟩ := h; exact ⟨evOk_nil _, by simp [OutIn]⟩
      | some r =>
        simp at h; obtain ⟨rfl, rfl⟩ := h
        have hold := alook_sound hσ x
        have hr := absBin_sound hold (const_mem 1) heb
        have hv := aconv_sound (P := c.P) (t := varTy c.vars x) hr
        refine ⟨?_, assign_out hn hσ hv⟩
        cases pre with
        | true => simp at hf ⊢; exact factOk_sound hf hv
        | false => simp at hf ⊢; exact factOk_sound hf hold
    | seq a b =>
      simp only [checkS] at hc; simp only [execS] at h
      generalize hca : checkS c a s = pa at hc
      obtain ⟨ok1, o1⟩ := pa
      generalize hea : execS c.P c.vars k σ a = qa at h
      obtain ⟨r1, ev1⟩ := qa
      simp only [] at hc
      cases hn1 : o1.normal with
      | none =>
        rw [hn1] at hc
        simp at hc; obtain ⟨rfl, rfl⟩ := hc
        have A := IH a σ s o1 r1 ev1 hn hσ hca hea
        cases r1 with
        | normal env' => have := A.2; simp only [OutIn] at this; rw [hn1] at this; simp [OEnvIn] at this
        | brk env' => simp at h; obtain ⟨rfl, rfl⟩ := h; exact A
        | cont env' => simp at h; obtain ⟨rfl, rfl⟩ := h; exact A
        | ret => simp at h; obtain ⟨rfl, rfl⟩ := h; exact A
        | ub => simp at h; obtain ⟨rfl, rfl⟩ := h; exact A
        | timeout => simp at h; obtain ⟨rfl, rfl⟩ := h; exact A
      | some s1 =>
        rw [hn1] at hc
        simp only [] at hc
        generalize hcb : checkS c b s1 = pb at hc
        obtain ⟨ok2, o2⟩ := pb
        simp at hc
        obtain ⟨⟨rfl, rfl⟩, rfl⟩ := hc
        have A := IH a σ s o1 r1 ev1 hn hσ hca hea
        cases r1 with
        | normal env' =>
          simp only [] at h
          generalize heb : execS c.P c.vars k env' b = qb at h
          obtain ⟨r2, ev2⟩ := qb
          simp at h; obtain ⟨rfl, rfl⟩ := h
          have hin := A.2; simp only [OutIn] at hin; rw [hn1] at hin
          have B := IH b env' s1 o2 r2 ev2 hin.2 hin.1 hcb heb
          refine ⟨evOk_append A.1 B.1, ?_⟩
          have hB := B.2
          cases r2 with
          | normal e2 => simpa [OutIn] using hB
          | brk e2 => simp only [OutIn] at hB ⊢; exact ⟨ojoin_sound_r hB.2 hB.1, hB.2⟩
          | cont e2 => simp only [OutIn] at hB ⊢; exact ⟨ojoin_sound_r hB.2 hB.1, hB.2⟩
          | ret => simp [OutIn]
          | ub => simp [OutIn]
          | timeout => simp [OutIn]
        | brk env' =>
          simp at h; obtain ⟨rfl, rfl⟩ := h
          have hA := A.2; simp only [OutIn] at hA ⊢
          exact ⟨A.1, ojoin_sound_l hA.2 hA.1, hA.2⟩
        | cont env' =>
          simp at h; obtain ⟨rfl, rfl⟩ := h
          have hA := A.2; simp only [OutIn] at hA ⊢
          exact ⟨A.1, ojoin_sound_l hA.2 hA.1, hA.2⟩
        | ret => simp at h; obtain ⟨rfl, rfl⟩ := h; exact ⟨A.1, by simp [OutIn]⟩
        | ub => simp at h; obtain ⟨rfl, rfl⟩ := h; exact ⟨A.1, by simp [OutIn]⟩
        | timeout => simp at h; obtain ⟨rfl, rfl⟩ := h; exact ⟨A.1, by simp [OutIn]⟩
    | ite cnd a b =>
      simp only [checkS] at hc; simp only [execS] at h
      generalize hcc : checkE c s cnd = pc at hc
      obtain ⟨ok0, vc⟩ := pc
      generalize hec : evalE c.P c.vars σ cnd = qc at h
      obtain ⟨rc, evc⟩ := qc
      have C := checkE_sound c hn hσ hcc hec
      generalize hpa : optCheck (fun st => checkS c a st) (assume c cnd true s) = pa at hc
      obtain ⟨ok1, o1⟩ := pa
      generalize hpb : optCheck (fun sf => checkS c b sf) (assume c cnd false s) = pb at hc
      obtain ⟨ok2, o2⟩ := pb
      simp at hc
      obtain ⟨⟨⟨rfl, rfl⟩, rfl⟩, rfl⟩ := hc
      cases rc with
      | none => simp at h; obtain ⟨rfl, rfl⟩ := h; exact ⟨C.1 rfl, by simp [OutIn]⟩
      | some v =>
        simp only [] at h
        by_cases hv : v = 0
        · simp [hv] at h
          subst hv
          obtain ⟨sf, hsf, hσf⟩ := assume_sound c cnd false σ s 0 evc hn hσ hec (by simp)
          rw [hsf] at hpb; simp only [optCheck] at hpb
          generalize heb : execS c.P c.vars k σ b = qb at h
          obtain ⟨r2, ev2⟩ := qb
          simp at h; obtain ⟨rfl, rfl⟩ := h
          have B := IH b σ sf o2 r2 ev2 hn hσf hpb heb
          refine ⟨evOk_append (C.1 rfl) B.1, ?_⟩
          have hB := B.2
          cases r2 with
          | normal e2 => simp only [OutIn] at hB ⊢; exact ⟨ojoin_sound_r hB.2 hB.1, hB.2⟩
          | brk e2 => simp only [OutIn] at hB ⊢; exact ⟨ojoin_sound_r hB.2 hB.1, hB.2⟩
          | cont e2 => simp only [OutIn] at hB ⊢; exact ⟨ojoin_sound_r hB.2 hB.1, hB.2⟩
          | ret => simp [OutIn]
          | ub => simp [OutIn]
          | timeout => simp [OutIn]
        · simp [hv] at h
          obtain ⟨st, hst, hσt⟩ := assume_sound c cnd true σ s v evc hn hσ hec (by simp [hv])
          rw [hst] at hpa; simp only [optCheck] at hpa
          generalize hea : execS c.P c.vars k σ a = qa at h
          obtain ⟨r1, ev1⟩ := qa
          simp at h; obtain ⟨rfl, rfl⟩ := h
          have A := IH a σ st o1 r1 ev1 hn hσt hpa hea
          refine ⟨evOk_append (C.1 rfl) A.1, ?_⟩
          have hA := A.2
          cases r1 with
          | normal e2 => simp only [OutIn] at hA ⊢; exact ⟨ojoin_sound_l hA.2 hA.1, hA.2⟩
          | brk e2 => simp only [OutIn] at hA ⊢; exact ⟨ojoin_sound_l hA.2 hA.1, hA.2⟩
          | cont e2 => simp only [OutIn] at hA ⊢; exact ⟨ojoin_sound_l hA.2 hA.1, hA.2⟩
          | ret => simp [OutIn]
          | ub => simp [OutIn]
          | timeout => simp [OutIn]
    | «while» cnd body =>
      simp only [checkS] at hc
      generalize findInv c (assume c cnd true) (fun s' => checkS c body s') (assigned body) loopRounds s = inv at hc
      split at hc
      · simp at hc
      · rename_i hleq
        simp at hleq
        have hσi := leqEnv_sound hleq hσ
        generalize hcc : checkE c inv cnd = pc at hc
        obtain ⟨ok0, vc⟩ := pc
        simp only [] at hc
        cases hst : assume c cnd true inv with
        | none =>
          rw [hst] at hc
          simp at hc
          obtain ⟨rfl, rfl⟩ := hc
          have L := loop_sound c (k + 1) cnd body inv vc AOut.bot hcc (by intro st' h'; rw [hst] at h'; simp at h')
            (fun k' hk' => ih k' hk') (k + 1) (Nat.le_refl _) σ o evs hn hσi h
          simpa [AOut.bot, ojoin_none_r] using L
        | some st' =>
          rw [hst] at hc
          simp only [] at hc
          generalize hcb : checkS c body st' = pb at hc
          obtain ⟨ok1, ob⟩ := pb
          simp only [] at hc
          split at hc
          · rename_i hle
            simp at hle
            simp at hc
            obtain ⟨⟨rfl, rfl⟩, rfl⟩ := hc
            exact loop_sound c (k + 1) cnd body inv vc ob hcc
              (by intro st'' h''; rw [hst] at h''; simp at h''; subst h''; exact ⟨ob, hcb, hle.1, hle.2, rfl⟩)
              (fun k' hk' => ih k' hk') (k + 1) (Nat.le_refl _) σ o evs hn hσi h
          · simp at hc
    | brk =>
      simp [checkS] at hc; simp [execS] at h
      obtain ⟨rfl, rfl⟩ := h; subst hc
      exact ⟨evOk_nil _, by simp only [OutIn]; exact ⟨hσ, hn⟩⟩
    | cont =>
      simp [checkS] at hc; simp [execS] at h
      obtain ⟨rfl, rfl⟩ := h; subst hc
      exact ⟨evOk_nil _, by simp only [OutIn]; exact ⟨hσ, hn⟩⟩
    | ret e =>
      simp only [checkS] at hc; simp only [execS] at h
      generalize hce : checkE c s e = p at hc
      obtain ⟨ok, va⟩ := p
      generalize hee : evalE c.P c.vars σ e = q at h
      obtain ⟨r, ev⟩ := q
      have E := checkE_sound c hn hσ hce hee
      simp at hc
      obtain ⟨rfl, rfl⟩ := hc
      cases r with
      | none => simp at h; obtain ⟨rfl, rfl⟩ := h; exact ⟨E.1 rfl, by simp [OutIn]⟩
      | some v => simp at h; obtain ⟨rfl, rfl⟩ := h; exact ⟨E.1 rfl, by simp [OutIn]⟩

theorem envIn_map {α : Type} (l : List α) (g : α → Int) (h : α → AbsVal) (hm : ∀ i, (h i).mem (g i)) : EnvIn (l.map g) (l.map h) := by
  induction l with
  | nil => simp [EnvIn]
  | cons a l ih => simp [EnvIn]; exact ⟨hm a, ih⟩

theorem init_sound (P : Platform) (f : Func) (args : List Int) : EnvIn (initEnv P f args) (initAbs P f) := by
  unfold initEnv initAbs
  apply envIn_map
  intro i
  split
  · exact top_mem (conv_inTy _ _ _)
  · exact const_mem 0

theorem initEnv_length (P : Platform) (f : Func) (args : List Int) : (initEnv P f args).length = f.vars.length := by
  simp [initEnv]

/-- soundness of the validator: an accepted fact holds of every event at its occurrence, in every run -/
theorem validate_sound (P : Platform) (f : Func) (φ : Fact) (h : validate P f φ = true) (args : List Int) (fuel : Nat) :
    ∀ ev ∈ (run P f fuel args).2, ev.1 = φ.occ → φ.holds ev.2 := by
  unfold validate at h
  unfold run
  generalize hc : checkS ⟨P, f.vars, φ⟩ f.body (initAbs P f) = p at h
  obtain ⟨ok, out⟩ := p
  simp at h; subst h
  generalize he : execS P f.vars fuel (initEnv P f args) f.body = q
  obtain ⟨o, evs⟩ := q
  exact (stmt_sound ⟨P, f.vars, φ⟩ fuel f.body (initEnv P f args) (initAbs P f) out o evs (initEnv_length P f args)
    (init_sound P f args) hc he).1

end Cppcheck.VFV
